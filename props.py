"""Per-property configuration used by check.py and tools/gen_manifest.py."""

def pbt(harness, variant="asan", libs=("rapidcheck",), quick=None, thorough=None, **kw):
    d = dict(type="pbt", harness=harness, variant=variant, libs=list(libs), quick=quick, thorough=thorough)
    d.update(kw)
    return d

def fuzz(harness, variant="fuzz", libs=(), quick=None, thorough=None, **kw):
    d = dict(type="fuzz", harness=harness, variant=variant, libs=list(libs), quick=quick, thorough=thorough)
    d.update(kw)
    return d



PROPS = {}
_LOW_MASKS = ["none", "sse2,sse41,sse42", "sse2,sse41,sse42,avx,avx2"]
NOT_APPLICABLE = {}
HOOK_COMMITS = ["b0288d2"]

PROPS["C11"] = dict(
    title="Every encoding decodes its own output back to the original sequence",
    level="exploration",
    design_ref="DESIGN.md section 8, C11",
    level_text=("Generated-input search with an executable round-trip oracle under ASan/UBSan: tens of thousands of random "
                "run-structured sequences per run plus exhaustive small scopes. Shows the property on everything explored; "
                "cannot establish absence of a counterexample outside the explored sizes."),
    level_note="trusts rapidcheck's generators/shrinking, clang sanitizers, and that the harness sizes buffers the way callers do",
    technique="property-based testing (rapidcheck): encode/decode round trip + byte-count oracle, model-based streaming-decoder histories, bounded-exhaustive small scope",
    rule=("cases: (encoding, bit width/type, value sequence[, get/get_batch/skip script]) from run-structured and boundary-value "
          "generators plus exhaustive small scopes (all 0/1 sequences at width 1, all 0/1/2 sequences at width 2, every single "
          "run boundary up to length 40 at 8 widths). Non-trivial: hybrid RLE - a run >= 8 starting at a position that is not a "
          "multiple of 8; streaming - a skip that lands inside the stream combined with reads; bit packing - count not a multiple "
          "of 8; delta - more than one 128-value block or a delta range wider than 32 bits; strings - shared prefixes / non-empty "
          "payload; BSS - count not a multiple of 16; dictionary - >= 2 distinct values with repeats; PLAIN - non-empty (boolean: "
          "count not a multiple of 8). Distinct = distinct FNV-1a-64 of the serialised case."),
    assumptions=["inputs stay in each encoder's documented domain (values fit the bit width; carquet_bitpack_32 widths 0..32)",
                 "an encoder that returns a non-OK status makes the case vacuous (counted), not a failure",
                 "clang ASan + UBSan (bounds, null, object-size ...) report any out-of-buffer access on exact-size heap blocks"],
    engines=[pbt("c11_encodings",
                 quick=dict(cases=20000, size=150, enum=1, procs=4),
                 thorough=dict(cases=45000, size=300, enum=2, procs=16))] +
            [pbt("c11_encodings", name="c11_encodings_cap%d" % i, env={"CARQUET_VERIF_CPU_CAP": m},
                 quick=dict(cases=6000, size=150, procs=1), thorough=dict(cases=30000, size=300, procs=2)) for i, m in enumerate(_LOW_MASKS)],
    min_evaluations=dict(quick=20000, thorough=400000),
)

PROPS["C12"] = dict(
    title="Encoded bytes follow the Parquet encoding specifications",
    level="exploration",
    design_ref="DESIGN.md section 8, C12",
    level_text=("Differential testing against independent codecs written from the Parquet encodings specification "
                "(ref/enc_ref.hpp, self-checked against the specification's example vectors at start-up), in both directions; "
                "the reference encoder explores the layout freedom the specification allows. Exploration only: it shows agreement "
                "on the generated streams."),
    level_note="trusts ref/enc_ref.hpp as a faithful reading of the specification (cross-checked by its own round trip on every direction-2 case; disagreement is counted as oracle_disagreement, never as a violation)",
    technique="property-based differential testing (rapidcheck) against independent specification encoders/decoders, both directions",
    rule=("direction 1: carquet encoder output (hybrid RLE, bit packing, DELTA_BINARY_PACKED int32/int64, DELTA_LENGTH, DELTA_BYTE_ARRAY, "
          "BYTE_STREAM_SPLIT, PLAIN) decoded by the reference decoder; direction 2: reference encoder with a generated layout plan "
          "(run cuts, zero-length runs, multi-group packed runs, padded final group, block size 128..1024 x 1..32 mini-blocks, widths "
          "wider than necessary, arbitrary width bytes for unused mini-blocks, prefix policies) decoded by carquet. Non-trivial: "
          "direction-2 stream using a form carquet's encoder never emits; direction-1 stream with an unaligned long run, more than one "
          "delta block, a delta width > 32 or a non-byte-multiple width. Distinct = FNV-1a-64 of the serialised case."),
    assumptions=["the reference codecs in ref/enc_ref.hpp implement the Parquet encodings specification",
                 "INT32 delta streams are compared modulo 2^32 (both delta conventions decode to the same values)"],
    # the encoders and decoders go through the SIMD dispatcher: the same cases are also run with the dispatcher capped to the
    # lower ISA levels (hook CARQUET_VERIF_CPU_CAP), which this host would otherwise never select
    engines=[pbt("c12_spec",
                 quick=dict(cases=25000, size=150, procs=4),
                 thorough=dict(cases=50000, size=300, procs=16))] +
            [pbt("c12_spec", name="c12_spec_cap%d" % i, env={"CARQUET_VERIF_CPU_CAP": m},
                 quick=dict(cases=8000, size=150, procs=1), thorough=dict(cases=40000, size=300, procs=2)) for i, m in enumerate(_LOW_MASKS)],
    min_evaluations=dict(quick=20000, thorough=400000),
)

PROPS["C07"] = dict(
    title="Parallel reading is independent of thread count and scheduling",
    level="exploration",
    design_ref="DESIGN.md section 8, C07",
    level_text=("Generated-input search over (file, I/O mode, num_threads, batch size, projection, delay script) with a differential oracle: the transcript of all batches "
                "and the final status under num_threads = T while every fseek/fread issued by the library is perturbed by the generated delay script (yield, sleep, "
                "rendezvous after a seek) must equal the num_threads = 1 transcript of the same file; N pthreads with their own reader handles (modes mixed) released by a "
                "barrier must each reproduce the sequential transcript, also in a freshly exec'ed process in which no carquet code ran before the threads start. Two OpenMP "
                "runtimes: gcc/libgomp at -O2 and clang/libomp under ASan/UBSan (memory errors caused by a race become visible). The harness does not own the scheduler: "
                "it widens race windows at the I/O calls and samples schedules, it cannot enumerate them; races whose window does not contain an I/O call are only "
                "reached by chance."),
    level_note="sampled schedules only; ThreadSanitizer is not used (gcc libgomp is uninstrumented and reports false races; DESIGN.md section 8, C07)",
    technique="property-based testing (rapidcheck) with schedule perturbation injected at the library's stdio calls (link-time wrap), differential oracle against the single-threaded run, two OpenMP runtimes, ASan",
    rule=("evaluations count generated cases. Non-trivial: threads - num_threads != 1 and at least two projected columns hold pages (so two workers load pages in the same "
          "call); independent / first_use - at least two concurrent readers on a file with at least one page."),
    assumptions=["the OS scheduler decides the actual interleaving; the delay script only biases it"],
    engines=[pbt("c07_parallel", variant="omp", libs=["rapidcheck", "snappy", "lz4"], ldflags=["-Wl,--wrap=fseek,--wrap=fread"], name="c07_parallel_gomp", confirm_tries=12, fork_shrink=False,
                 quick=dict(cases=220, size=60, procs=6), thorough=dict(cases=3000, size=100, procs=8)),
             pbt("c07_parallel", variant="ompasan", libs=["rapidcheck", "snappy", "lz4"], ldflags=["-Wl,--wrap=fseek,--wrap=fread"], name="c07_parallel_libomp_asan", confirm_tries=12, fork_shrink=False,
                 quick=dict(cases=60, size=60, procs=6), thorough=dict(cases=1200, size=100, procs=8))],
    min_evaluations=dict(quick=600, thorough=15000),
)

def _c08_fuzz_args(runs, with_seeds=True):
    a = ["--family={i}", "--out={out}", "-seed={seed}", "-runs=%d" % runs, "-max_len=4096", "-timeout=25", "-rss_limit_mb=4096",
         "-print_final_stats=1", "-artifact_prefix={out}/", "{out}/corpus"]
    if with_seeds:
        a.append("{scratch}/c08seeds/{i}")
    return a


PROPS["C08"] = dict(
    title="Component decoders are safe on arbitrary bytes and respect capacities",
    level="exploration",
    design_ref="DESIGN.md section 8, C08",
    level_text=("Generated-input search (coverage-guided fuzzing + property-based near-valid mutants) under ASan/UBSan(memory subset) with an in-target contract oracle. "
                "Every decoder entry point below the file layer (Thrift FileMetaData / PageHeader parse, hybrid RLE decode_all / levels / prefixed levels / streaming decoder, "
                "nine PLAIN decoders, delta int32/int64/length/strings, three byte-stream-split decoders, four dictionary decoders, Snappy/LZ4/GZIP/ZSTD decompress, bit reader) is "
                "called with input and output in separate exact-size heap blocks; oracle: no sanitizer report, success implies reported size <= declared capacity and bytes "
                "consumed <= input length, returned byte-array pointers lie inside the input or the caller's work buffer, parsed metadata is traversed completely, an error "
                "struct is filled on failure, live heap bytes after the call equal those before it (nothing stays allocated), and no input runs longer than 20 s. Shows the "
                "property on everything explored; cannot establish absence of a counterexample."),
    level_note="libFuzzer campaigns are only approximately reproducible from the seed (the saved artifact is the reproducible unit); the rapidcheck engine is exactly reproducible",
    technique="coverage-guided fuzzing (libFuzzer, one process per decoder family, structure-aware argument trailer, corpus seeded from reference encoders) plus property-based testing of near-valid mutants (rapidcheck), contract oracle inside the target under ASan/UBSan",
    rule=("evaluations count decoder calls. Non-trivial: fuzz engine - the call decoded at least one element (distinct by FNV-1a-64 of the input); mutation engine - the input "
          "derives from a valid encoding of at least two bytes (valid calls themselves must be accepted)."),
    assumptions=["declared counts above the 16 MiB output block the harness allocates are reduced to it (the caller contract is count <= capacity)",
                 "zlib/zstd internals are trusted; only carquet's wrappers are under test for GZIP/ZSTD"],
    engines=[pbt("c08_mutants", libs=["rapidcheck", "snappy", "lz4"], quick=dict(cases=2500, size=100, procs=8), thorough=dict(cases=40000, size=100, procs=16)),
             fuzz("c08_fuzz", name="c08_fuzz_seeded", asan_extra="quarantine_size_mb=64",
                  prepare=[dict(engine="c08_mutants", args=["--emit", "{scratch}/c08seeds", "4000", "{seed}"], mkdirs=["{scratch}/c08seeds/%d" % i for i in range(8)])],
                  quick=dict(procs=8, args=_c08_fuzz_args(60000), timeout=900), thorough=dict(procs=8, args=_c08_fuzz_args(3000000), timeout=7200)),
             fuzz("c08_fuzz", name="c08_fuzz_empty", asan_extra="quarantine_size_mb=64",
                  thorough=dict(procs=8, args=_c08_fuzz_args(1500000, False), timeout=7200))],
    min_evaluations=dict(quick=300000, thorough=15000000),
)

PROPS["C09"] = dict(
    title="Codecs round-trip every input and honour their size bounds",
    level="exploration",
    design_ref="DESIGN.md section 8, C09",
    level_text=("Generated structured byte strings (segments: random, constant, periodic, back-references at chosen distances incl. across "
                "64 KiB, text) x codec x level, compressed into an exact-size buffer of the advertised bound and decompressed into exactly "
                "len(x) bytes under ASan; destinations smaller than the bound must be refused or still round-trip. Exploration only."),
    level_note="trusts ASan to flag any write past an exact-size heap block; GZIP/ZSTD wrap the system zlib/libzstd",
    technique="property-based testing (rapidcheck): round-trip + bound + small-destination oracle on structured byte strings under ASan",
    rule=("case = (codec in snappy/lz4/gzip/zstd, level incl. out-of-range, segment list); bytes are a pure function of the segment list. "
          "Non-trivial: a literal stretch > 60 bytes, or a repetitive stretch >= 68 bytes, or a back-reference that crosses the 64 KiB line "
          "of an input > 64 KiB. Distinct = FNV-1a-64 of the serialised case."),
    assumptions=["compress_bound(n) is the advertised bound; src/dst pointers are non-NULL also for empty inputs"],
    engines=[pbt("c09_codecs", libs=["rapidcheck", "snappy", "lz4"], quick=dict(cases=2000, size=100, procs=4), thorough=dict(cases=4000, size=200, procs=16))],
    min_evaluations=dict(quick=1500, thorough=30000),
)

PROPS["C10"] = dict(
    title="Built-in Snappy and LZ4 speak the standard formats",
    level="exploration",
    design_ref="DESIGN.md section 8, C10",
    level_text=("Differential testing against independent Snappy/LZ4 block codecs written from the format documents (ref/lz_ref.hpp) and "
                "cross-checked on every case with libsnappy 1.1.9 / liblz4 1.9.4: compressor output must decode (and satisfy the LZ4 "
                "end-of-block rules); grammar-generated valid streams with every tag kind, length encoding and overlap must be accepted; "
                "streams the formats define as invalid must be rejected. Exploration only."),
    level_note="trusts the format documents as read into ref/lz_ref.hpp; a case where the reference and the system library disagree is discarded and counted (oracle_disagreement)",
    technique="property-based differential testing (rapidcheck): grammar-based stream generation, independent decoders, libsnappy/liblz4 cross-check",
    rule=("(a) structured inputs -> carquet compressor -> reference decoder + system library; (b) element lists (Snappy: literals with 0..4 "
          "length bytes incl. non-minimal, copy-1/2/4, offset 1 / = produced / < length; LZ4: literal and match lengths around 15/19 and "
          "255-chains, overlapping matches, zero-literal sequences) serialised and fed to carquet; (c) one defect injected: offset 0, offset "
          "beyond output, truncation inside an element, output shorter/longer than declared, capacity too small. Non-trivial: (a) output "
          "contains a copy/match and input > 100 bytes; (b) stream uses a form carquet never emits (copy-4, multi-byte literal length, "
          "offset-1 / overlapping copy, 255-chain, zero-literal sequence); (c) every injected defect. Not asserted: whole Snappy elements "
          "after a complete output, LZ4 end-of-block rule violations on decode."),
    assumptions=["offset 0 is invalid per the LZ4 block format document although liblz4 does not check it",
                 "non-minimal Snappy literal length encodings are valid (libsnappy accepts them; cross-checked per case)"],
    engines=[pbt("c10_formats", libs=["rapidcheck", "snappy", "lz4"], quick=dict(cases=12000, size=100, procs=4), thorough=dict(cases=30000, size=200, procs=16))],
    min_evaluations=dict(quick=10000, thorough=200000),
)

PROPS["C13"] = dict(
    title="Thrift metadata round-trips and is genuine compact protocol",
    level="exploration",
    design_ref="DESIGN.md section 8, C13",
    level_text=("Generated FileMetaData / PageHeader values are written by carquet and (1) parsed back by carquet, (2) decoded by an independent "
                "compact-protocol decoder into a (field id, wire type, value) tree that must equal the tree built from the model with "
                "parquet.thrift's field ids; (3) the independent encoder serialises the same values with the protocol's freedom and with "
                "unknown fields of every wire type injected into every struct, and carquet must parse them to the same structure. Exploration only."),
    level_note="trusts ref/thrift_ref.hpp + ref/parquet_model.hpp as a faithful reading of the compact protocol and parquet.thrift (self-checked per case: reference decode(encode(x)) == x, else oracle_disagreement)",
    technique="property-based testing (rapidcheck): round trip + differential against an independent Thrift compact codec, unknown-field injection",
    rule=("case = (FileMetaData | PageHeader value as canonical reference bytes, seed for encoder freedoms and unknown fields, injection level). "
          "Values: 0..300 schema elements, 0..17 row groups x 0..20 chunks, names empty/long/non-ASCII (no NUL), every logical type, extreme "
          "integers, optional fields present/absent, statistics with arbitrary binary min/max, key/value metadata with absent values. "
          "Non-trivial: a list with >= 15 elements, a field-id gap > 15, a long-form field header, or an unknown field inside a nested struct "
          "(w2p_page: statistics / v2 / crc present). Page-header statistics content is not compared: parquet_parse_page_header has no way to "
          "return it (presence flag only)."),
    assumptions=["carquet models names as C strings, so generated names contain no NUL byte",
                 "fields carquet's writer omits by its own rules (type_length <= 0, zero-length min/max, num_children == 0, scale/precision == 0, column key/value metadata, encoding_stats, is_*_exact) are compared as absent on the write path"],
    engines=[pbt("c13_thrift", quick=dict(cases=1500, size=40, procs=8), thorough=dict(cases=30000, size=100, procs=16))],
    min_evaluations=dict(quick=8000, thorough=200000),
)

PROPS["C20"] = dict(
    title="Bloom filters have no false negatives and follow the Parquet algorithm",
    level="exploration",
    design_ref="DESIGN.md section 8, C20",
    level_text=("Generated filter sizes x typed value multisets: no false negatives (also after write/from_data/read reload and after merge), "
                "fresh filter empty, sizes whole 32-byte blocks, filter bytes identical to an independent split-block Bloom filter written from "
                "the Parquet specification, specification-built filters answer correctly when loaded into carquet; XXH64 compared with libxxhash "
                "for every length 0..300 (thorough ..1100) and random inputs up to 4 MiB at every misalignment 0..15. Exploration only."),
    level_note="trusts libxxhash 0.8.1 as reference XXH64 and ref/sbbf_ref.hpp as a faithful reading of the Parquet BloomFilter specification",
    technique="property-based testing (rapidcheck) + bounded-exhaustive lengths: model-based comparison with an independent split-block Bloom filter and libxxhash",
    rule=("sbbf case = (requested size | ndv, value type, inserted multiset, second multiset for merge/interchange, probes); non-trivial: filter with "
          ">= 2 blocks and >= 2 distinct inserted hashes. xxh64 case = (segment list, seed, misalignment); non-trivial: length >= 32 and not a "
          "multiple of 32. Distinct = FNV-1a-64 of the serialised case."),
    assumptions=["values are hashed as their PLAIN encoding (little-endian fixed width / raw bytes) with seed 0"],
    engines=[pbt("c20_bloom", libs=["rapidcheck", "xxhash"], quick=dict(cases=10000, size=100, enum=1, procs=4), thorough=dict(cases=80000, size=200, enum=2, procs=16))],
    min_evaluations=dict(quick=8000, thorough=200000),
)


_MASKS = ["none", "sse2,sse41,sse42", "sse2,sse41,sse42,avx,avx2", "sse2,sse41,sse42,avx,avx2,avx512f",
          "sse2,sse41,sse42,avx,avx2,avx512f,avx512bw,avx512vl,avx512vbmi", "avx2", "avx512f", "sse2,avx512f,avx512bw,avx512vl"]
PROPS["C15"] = dict(
    title="Every SIMD kernel equals its scalar definition at every ISA level",
    level="exploration",
    design_ref="DESIGN.md section 8, C15",
    level_text=("Bounded-exhaustive enumeration (every kernel x ISA variant x count 0..130 (thorough 0..200) x buffer placement: end flush against a "
                "PROT_NONE page, or start behind one at 16 (thorough 64) misalignments x 3 value patterns) plus random larger counts, against textbook "
                "scalar definitions written in the harness; the dispatcher is run in one process per CPU capability mask (hook CARQUET_VERIF_CPU_CAP), "
                "including inconsistent masks. Guard pages make any out-of-array read or write a fault; canaries catch writes on the unguarded side. "
                "Exhaustive only inside the stated count/misalignment bounds; values are sampled."),
    level_note="kernels are built as shipped (gcc -O2, prod variant); ISA variants the checking host cannot execute are skipped and listed (this image has AVX-512F/BW/VL); NEON/SVE are out of reach on x86",
    technique="bounded-exhaustive enumeration over count x alignment + random generation (rapidcheck), differential against scalar reference definitions, guard-page memory oracle, one process per dispatcher capability mask",
    rule=("case = (kernel, variant in sse/avx2/avx512/dispatch[mask], count, placement, src/dst misalignment, pattern, seed). Kernel domains follow the callers: "
          "gather indices < dictionary size, pack_bools inputs 0/1, levels in [0,max_def], zeroed null bitmap, match_copy src = dst - offset (offset >= 1) in one buffer, "
          "match < p <= limit, non-overlapping memcpy, wrapping prefix sums, fixed-width unpackers get exactly N*width/8 input bytes. Non-trivial: count not a "
          "multiple of the variant's byte lane count and (misaligned start or end flush against the guard page)."),
    assumptions=["the scalar definitions in harness/c15_simd.cpp are the kernels' specification (they mirror dispatch.c's scalar fallbacks, which are themselves checked under the 'none' mask)"],
    engines=[pbt("c15_simd", variant="prod", quick=dict(cases=15000, size=100, enum=1, procs=2), thorough=dict(cases=250000, size=100, enum=2, procs=6)),
             # the same kernels built with the VBMI code paths enabled (what -march=native gives on this class of CPU)
             pbt("c15_simd", variant="prodvbmi", name="c15_simd_vbmi_build", quick=dict(cases=6000, size=100, enum=1, procs=1), thorough=dict(cases=20000, size=100, enum=2, procs=2))] +
            [pbt("c15_simd", variant="prod", name="c15_dispatch_%d" % i, env={"CARQUET_VERIF_CPU_CAP": m},
                 quick=dict(cases=3000, size=100, enum=1, procs=1), thorough=dict(cases=10000, size=100, enum=2, procs=1)) for i, m in enumerate(_MASKS)],
    min_evaluations=dict(quick=300000, thorough=1500000),
)

PROPS["C06"] = dict(
    title="Spec-valid files from another writer decode to the values stored in them",
    level="exploration",
    design_ref="DESIGN.md section 8, C06",
    level_text=("An independent Parquet writer (ref/parquet_writer.hpp, written from the format specification, compressors from libsnappy/zlib/libzstd/liblz4) "
                "produces generated files - flat and nested schemas with optional/repeated ancestors, all eight physical types, PLAIN and dictionary pages "
                "(PLAIN_DICTIONARY/RLE_DICTIONARY, mixed with PLAIN fallback pages), 1..6 pages per chunk, hybrid level/index runs from a run planner, "
                "dictionary_page_offset present or absent, wider-than-needed index widths, unused dictionary entries, five codecs, CRCs, page/chunk statistics, "
                "unknown Thrift fields in footer and page headers - and carquet must return exactly the stored levels and dense values, in all three I/O "
                "modes, read whole and in small batches. One unsupported feature injected (data page v2, four other encodings, BIT_PACKED levels, "
                "LZO/BROTLI/unknown codec) must yield an error or the correct data, never different data. Exploration only."),
    level_note="trusts ref/parquet_writer.hpp as spec-conformant; nested columns are generated per leaf from the Dremel validity rule on (rep, def) sequences rather than by shredding common records, which is all a column reader can observe",
    technique="property-based differential testing (rapidcheck): independent reference writer with generated layouts vs carquet's reader; negative feature injection",
    rule=("case = (file spec, I/O mode, batch size[, unsupported feature + target]). Non-trivial: the file uses a feature carquet's own writer never emits "
          "(dictionary page, nested levels, INT96, bit-packed/cut level runs, unknown Thrift fields) or carries an injected unsupported feature. "
          "Values are compared densely: the k-th entry at the maximum definition level owns the k-th value (documented writer contract and "
          "examples/nullable_columns.c)."),
    assumptions=["nullable reads return non-null values densely packed from slot 0 of the caller's buffer (carquet.h write_batch contract, examples/nullable_columns.c)",
                 "value buffers are sized max_values x slot size from the schema node's physical type / type length"],
    engines=[pbt("c06_foreign", libs=["rapidcheck", "snappy", "lz4"], quick=dict(cases=900, size=60, procs=8), thorough=dict(cases=12000, size=100, procs=16))],
    min_evaluations=dict(quick=5000, thorough=150000),
)

PROPS["C17"] = dict(
    title="Schema trees map to the right leaf columns and def/rep levels",
    level="exploration",
    design_ref="DESIGN.md section 8, C17",
    level_text=("Bounded-exhaustive enumeration of every ordered schema forest with up to 4 nodes (quick; every 5th with 5 nodes) / up to 6 nodes (thorough, "
                "about 110 000 schemas) under every labeling by REQUIRED/OPTIONAL/REPEATED, plus random deep (depth 25), wide (400 leaves) and 1000+ leaf "
                "trees, each written as a file by the reference writer with valid level sequences; oracle = textbook level counts, element accessors, "
                "find_column and the levels returned when the chunks are read. Builder: generated add_column sequences of 0..300 calls past the "
                "capacities 64 and 128. Exhaustive only within the node bound; leaf types and contents are sampled."),
    level_note="trusts ref/parquet_writer.hpp; dotted-path lookup is exercised but not asserted (the property does not state it)",
    technique="bounded-exhaustive enumeration of labelled schema trees + property-based testing (rapidcheck), reference writer, textbook level oracle",
    rule=("tree case = (schema tree, per-leaf level entries and values, I/O mode); non-trivial: depth >= 2 with at least one OPTIONAL or REPEATED interior node. "
          "builder case = list of (type, repetition, type length, logical type) columns; non-trivial: >= 64 columns (growth past the initial capacity)."),
    assumptions=["leaf names used for find_column are unique in the schema"],
    engines=[pbt("c17_schema", libs=["rapidcheck", "snappy", "lz4"], quick=dict(cases=2500, size=60, enum=1, procs=4), thorough=dict(cases=25000, size=100, enum=2, procs=16, timeout=7200))],
    min_evaluations=dict(quick=5000, thorough=150000),
)

PROPS["C02"] = dict(
    title="What a reader returns does not depend on how the caller consumes it",
    level="exploration",
    design_ref="DESIGN.md section 8, C02",
    level_text=("Model-based testing over reference-written files (REQUIRED/OPTIONAL columns of all types, 1..6 pages per chunk, dictionary and plain pages, "
                "all codecs, 1..3 row groups): generated call histories of read_batch(k) with and without level buffers, skip(k), has_next, remaining and "
                "re-creation of the column reader are checked step by step against a cursor over the stored content; every sequence of read/skip sizes "
                "that consumes a chunk of up to 5 (thorough 6) rows in 1..3 pages is enumerated. The batch reader is run for generated batch sizes and "
                "projections (by index and by name) and compared row by row with the same content, including equal row counts in all columns of a batch, "
                "END_OF_DATA exactly at the end, and one fixed null-bitmap polarity across all columns, batches and I/O paths of the campaign. Exploration only."),
    level_note="histories are plain generated command lists run against an explicit model (equivalent to state-machine testing here because every command is valid in every state); trusts ref/parquet_writer.hpp",
    technique="model-based property testing (rapidcheck command sequences against a cursor model) + bounded-exhaustive small-scope histories + differential batch reader vs column content",
    rule=("col_history case = (file, I/O mode, chunk, op list); non-trivial: a read that ends strictly inside a page of an OPTIONAL column with a null before the "
          "cursor and is followed by another read, or a skip that crosses a page boundary. batches case = (file, mode, batch_size, projection); non-trivial: "
          "more rows than batch_size and a page whose row count is not a multiple of batch_size."),
    assumptions=["read_batch(k) may return fewer than k rows ('up to'); only content, order, totals, skip = min(n, remaining) and remaining() are asserted",
                 "level buffers are omitted only for REQUIRED columns", "the null bitmap polarity is not imposed, only required to be the same everywhere"],
    engines=[pbt("c02_histories", libs=["rapidcheck", "snappy", "lz4"], quick=dict(cases=2500, size=60, enum=1, procs=6), thorough=dict(cases=50000, size=100, enum=2, procs=16)),
             # the same histories with harness and library built the way clients build them (gcc -O2, no sanitizer): what the
             # public header promises the optimiser (pure / const / nonnull attributes) takes effect on the calling code
             pbt("c02_histories", variant="prod", libs=["rapidcheck", "snappy", "lz4"], name="c02_histories_o2", quick=dict(cases=2500, size=60, procs=2), thorough=dict(cases=12000, size=100, procs=4))],
    min_evaluations=dict(quick=6000, thorough=150000),
)

PROPS["C03"] = dict(
    title="File, mmap and in-memory-buffer reading are observationally equivalent",
    level="exploration",
    design_ref="DESIGN.md section 8, C03",
    level_text=("Differential testing: one generated script (all metadata getters, schema accessors, row-group metadata incl. out-of-range indices, the statistics API, "
                "a generated column-reader history on every chunk, a batch-reader run with generated batch size and projection) is executed on the same "
                "reference-written file through carquet_reader_open, open with use_mmap, and open_buffer on an exact-size heap copy; the three transcripts must be "
                "byte-identical. In every mode the row batches are retained while the batch reader is freed and are read again (ASan flags dangling views). "
                "Half of the files consist of REQUIRED fixed-width uncompressed PLAIN columns so that zero-copy paths are actually taken. Exploration only."),
    level_note="carquet_reader_is_mmap / can_zero_copy are called but excluded from the comparison (they describe how, not what); the retained-batch re-read relies on carquet.h ('pointers remain valid until the batch is freed')",
    technique="property-based differential testing (rapidcheck) across the three I/O modes with transcript comparison under ASan",
    rule=("case = (file, history ops, batch size, projection, verify_checksums). Non-trivial: some chunk has >= 2 pages, the file mixes zero-copy-eligible "
          "(REQUIRED, fixed-width, uncompressed, PLAIN) and non-eligible columns, and batch_size exceeds the smallest page."),
    assumptions=["transcripts contain only observable results (return values, levels, dense values, bitmaps, statuses), never addresses"],
    engines=[pbt("c03_iomodes", libs=["rapidcheck", "snappy", "lz4"], quick=dict(cases=1500, size=60, procs=8), thorough=dict(cases=30000, size=100, procs=16))],
    min_evaluations=dict(quick=2500, thorough=100000),
)

PROPS["C16"] = dict(
    title="Statistics are true bounds and pruning never discards matching data",
    level="exploration",
    design_ref="DESIGN.md section 8, C16",
    level_text=("Model-based and brute-force checks: (builder) generated op sequences over add_values/add_nulls/add_byte_arrays/reset/build for all eight physical "
                "types (NaN first, all-NaN, -0/+0, extremes, byte arrays of unequal length incl. > 256 bytes) against the multiset of values since the last reset; "
                "(pruning) reference-written files with 1..12 row groups whose chunk statistics are true bounds - exact, loosened, in the new fields, in the "
                "deprecated fields, or absent, mixed per group - queried with all six operators and probes at, between and beyond the bounds: row_group_matches "
                "must say 'might match' for every group holding a matching row (brute force over the stored values) and for groups without statistics, and "
                "filter_row_groups must return exactly the ascending might-match list capped at max_indices in {1,2,n-1,n,n+1}; (helpers) statistics_compare, "
                "range_overlaps and column-index page_might_match with true per-page bounds, no false negative against brute force. The writer's page "
                "statistics are checked by the C01/C05 engine. Exploration only."),
    level_note="float pruning files contain no NaN (order undefined by the format); deprecated-field byte arrays use bytes < 0x80 where signed and unsigned orders agree; FIXED_LEN values stay <= 256 bytes (the builder's own buffer size)",
    technique="model-based property testing (rapidcheck) with brute-force ground truth over the actual values; reference writer for files with controlled statistics",
    rule=("builder: non-trivial = sequence containing a NaN or byte arrays of unequal length. pruning: non-trivial = >= 2 row groups and a probe equal to a group's "
          "min or max. helpers: non-trivial = >= 2 distinct values. Distinct = FNV-1a-64 of the serialised case."),
    assumptions=["value order: signed for INT32/INT64, IEEE for FLOAT/DOUBLE, unsigned lexicographic for BYTE_ARRAY/FIXED_LEN_BYTE_ARRAY",
                 "builder bounds are accepted under IEEE comparison ignoring NaN or under the total order 'NaN greatest, -0 = +0' that the builder documents"],
    engines=[pbt("c16_stats", libs=["rapidcheck", "snappy", "lz4"], quick=dict(cases=3000, size=60, procs=6), thorough=dict(cases=40000, size=100, procs=16))],
    min_evaluations=dict(quick=6000, thorough=150000),
)


_W_LIBS = ["rapidcheck", "snappy", "lz4"]
PROPS["C01"] = dict(
    title="Write-then-read round trip returns exactly the table that was written",
    level="exploration",
    design_ref="DESIGN.md section 8, C01",
    level_text=("Generated write histories against an in-memory table model: flat schemas of 1..6 (occasionally 9..12) REQUIRED/OPTIONAL columns over the seven writable types, "
                "0..4 row groups of 0..300 (occasionally 1100..3000) rows, five codecs, page sizes 64 B..1 MiB, explicit new_row_group calls incl. on an empty group, every "
                "column's rows split into write_batch calls (one batch, singletons, random, many-tiny-then-large) with the columns' calls randomly interleaved, OPTIONAL columns "
                "optionally written without definition levels, path- and FILE*-based writers. If every writer call returned OK the file must re-open in the drawn I/O mode and "
                "read back (whole chunk and in generated batches) the same row counts, row-group partition, schema and per-column null positions and bit-identical values. "
                "Exploration only."),
    level_note="a non-OK writer status makes the case vacuous (class writer_refused, must stay rare); byte-array results are dereferenced after the call that returned them (ASan)",
    technique="property-based testing (rapidcheck): generated write histories, in-memory table model, round-trip oracle under ASan",
    rule=("case = (schema, table, codec, page size, row-group layout, per-column batch partition, interleaving seed, no-levels flags, writer kind, read mode, read batch). "
          "Non-trivial: an OPTIONAL column with both null and non-null rows and (two batches in one page, or a chunk larger than the page size, or two row groups)."),
    assumptions=["write_batch is never called with zero rows or a NULL value pointer", "all columns of a row group receive the same number of rows (documented precondition)"],
    engines=[pbt("c01_roundtrip", libs=_W_LIBS, only="roundtrip", quick=dict(cases=1500, size=60, procs=8), thorough=dict(cases=15000, size=100, procs=16))],
    min_evaluations=dict(quick=3000, thorough=150000),
)
def _c04_fuzz_args(runs, with_seeds=True):
    a = ["--out={out}", "-seed={seed}", "-runs=%d" % runs, "-max_len=65536", "-len_control=0", "-timeout=25", "-rss_limit_mb=4096",
         "-print_final_stats=1", "-artifact_prefix={out}/", "{out}/corpus"]
    if with_seeds:
        a.append("{scratch}/c04seeds")
    return a


PROPS["C04"] = dict(
    title="No input file can make the reader memory-unsafe, hang or leak",
    level="exploration",
    design_ref="DESIGN.md section 8, C04",
    level_text=("Generated-input search under ASan/UBSan(memory subset): (1) rapidcheck - a valid file from the independent reference writer (all codecs, dictionary and plain pages, "
                "nested schemas, several pages and row groups) receives 1..3 structure-aware mutations: any integer of the footer or of a page header set to a boundary value "
                "(0, +-1, INT32/INT64 extremes, file size +-1, a neighbouring field's value, ...) through the reference Thrift DOM with all offsets kept consistent, fields dropped, "
                "lists emptied / shortened / duplicated, binaries emptied or grown, wire types changed, level-length prefixes and dictionary bit widths overwritten, 32-bit words "
                "in page bodies set to boundary values, footer length / magic variants, truncation, unknown fields nested up to 250 000 deep, raw bit flips; (2) libFuzzer on whole "
                "files seeded with such files. Every input is opened in a generated I/O mode and driven through a generated script of valid API calls (metadata getters, every "
                "schema node through every accessor, get_column with in- and out-of-range indices, read_batch / skip into exact-size heap buffers sized from the schema node, "
                "statistics, predicate pushdown, batch reader). Oracle: no sanitizer report; failing calls fill the error struct (non-OK code, NUL-terminated message); "
                "out-of-range indices are errors; returned counts never exceed the request; byte-array results are dereferenced; live heap bytes after close equal those before "
                "open; no case uses more than 20 s of CPU. Shows the property on everything explored; cannot establish absence of a counterexample."),
    level_note="libFuzzer campaigns are only approximately reproducible from the seed (the saved artifact is the reproducible unit); the rapidcheck engine is exactly reproducible",
    technique="property-based testing with structure-aware file mutation through an independent Thrift DOM (rapidcheck) plus coverage-guided fuzzing of whole files (libFuzzer), API-script driver with contract oracle under ASan/UBSan",
    rule=("evaluations count (file, mode, script) runs. Non-trivial: the file carries at least one structural mutation (footer / page header / page body / nesting) or it opened "
          "successfully (page-level code was reachable); fuzz engine: the file opened. Distinct by FNV-1a-64 of the case / input."),
    assumptions=["columns whose schema node gives no usable value size (type length <= 0 or > 1 MiB) are not read: a caller cannot size a buffer for them",
                 "allocation requests above 1 GiB fail (allocator_may_return_null) instead of invoking the OOM killer"],
    engines=[pbt("c04_hostile", libs=["rapidcheck", "snappy", "lz4"], quick=dict(cases=500, size=100, procs=8), thorough=dict(cases=10000, size=100, procs=16),
                 asan_extra="max_allocation_size_mb=1024:max_malloc_fill_size=268435456:malloc_fill_byte=190"),
             fuzz("c04_fuzz", libs=["rapidcheck"], name="c04_fuzz_seeded", asan_extra="quarantine_size_mb=64:max_allocation_size_mb=1024:max_malloc_fill_size=268435456:malloc_fill_byte=190",
                  prepare=[dict(engine="c04_hostile", args=["--emit", "{scratch}/c04seeds", "800", "{seed}"], mkdirs=["{scratch}/c04seeds"])],
                  quick=dict(procs=6, args=_c04_fuzz_args(30000), timeout=900), thorough=dict(procs=12, args=_c04_fuzz_args(1200000), timeout=7200))],
    min_evaluations=dict(quick=100000, thorough=8000000),
)

PROPS["C05"] = dict(
    title="Every file the writer reports complete is structurally valid Parquet",
    level="exploration",
    design_ref="DESIGN.md section 8, C05",
    level_text=("The files of C01's generator are handed to an independent strict reader written from the format specification (ref/parquet_reader.hpp: own Thrift codec, "
                "own level/value decoders, decompression through libsnappy/zlib/libzstd/liblz4): magic, footer length, required Thrift fields, schema tree, chunks tiling "
                "[4, footer) in order without gap or overlap, page headers chaining exactly to the chunk end, page/chunk/row-group/file value and row counts, codec tag vs "
                "payload format, encodings listed, stored CRC = zlib crc32 of the stored page bytes, uncompressed sizes (page, chunk incl. headers, row group), and the "
                "decoded table must equal the model. The same table is then written a second time and the two files must be byte-identical. Exploration only."),
    level_note="a raw LZ4 block is accepted under codec tags 5 and 7 (tag 5 is historically ambiguous; tolerance stated on purpose)",
    technique="property-based differential testing (rapidcheck): carquet writer vs independent specification reader/validator; double-write determinism",
    rule="same generator and non-trivial rule as C01",
    assumptions=["parquet.thrift: total_uncompressed_size and total_compressed_size include page headers; RowGroup.total_byte_size is the uncompressed column data size"],
    engines=[pbt("c01_roundtrip", libs=_W_LIBS, only="structure", name="c05_structure", quick=dict(cases=1200, size=60, procs=8), thorough=dict(cases=15000, size=100, procs=16))],
    min_evaluations=dict(quick=3000, thorough=150000),
)
# C05, last sentence (byte-identical output, no uninitialised bytes): the same write history under polluted heaps, in the
# non-sanitizer build where glibc hands freed blocks back unchanged
PROPS["C05"]["engines"].append(pbt("c01_roundtrip", variant="prod", libs=_W_LIBS, only="determinism", name="c05_determinism_polluted_heap",
                                   quick=dict(cases=2500, size=60, procs=4), thorough=dict(cases=40000, size=100, procs=8)))
PROPS["C16"]["engines"].append(pbt("c01_roundtrip", libs=_W_LIBS, only="page_stats", name="c16_page_stats", quick=dict(cases=250, size=60, procs=4), thorough=dict(cases=5000, size=100, procs=8)))

PROPS["C14"] = dict(
    title="Page checksums are IEEE CRC-32 and page damage is always detected",
    level="fault_enumeration",
    design_ref="DESIGN.md section 8, C14",
    level_text=("Fault enumeration: for generated files from carquet's writer (all codecs, nullable columns, several pages per chunk through small page sizes) and from the "
                "reference writer (adds dictionary pages, CRC always present) the byte span of every page body is taken from the independent reader / writer manifest; every "
                "single bit of every body up to 48 bytes (40 sampled bits for larger ones), byte XORs {01,80,FF} and bursts of 2..32 bits are applied to a copy, which is opened "
                "in all three I/O modes with verify_checksums = true and read through the column reader (and, sampled, the batch reader): an error must be reported and only rows "
                "stored before the damaged page may be delivered (none for a dictionary page). CRC-32 detects every burst <= 32 bits, so a clean read is a certain violation. The "
                "undamaged copy must read without error; with verification disabled a sample of the damaged copies is read under ASan (memory safety only). The checksum function "
                "itself is compared with zlib for every length 0..300 (thorough ..1030) x alignment 0..15, random buffers up to 1 MiB and multi-way incremental splits, and - "
                "the lookup tables being built lazily - for the first checksums of a freshly exec'ed process computed by 2..8 threads released by a barrier (first_use)."),
    level_note="exhaustive over bit positions only for bodies <= 48 bytes of the generated files; files and larger-body positions are sampled",
    technique="fault injection enumerated over page-body bit positions (per generated file) + property-based testing of the CRC function against zlib",
    rule=("damage case = (file, read batch size, seed); evaluations count damaged reads (file x damage x mode). Non-trivial: the file has a damaged page that is not the first "
          "page of its chunk, or a dictionary page, or a compressed body. crc_fn case = (bytes, alignment, cut points); non-trivial: length >= 8 and not a multiple of 8. "
          "first_use case = (thread count, buffer seed, start skew); each is one fresh process."),
    assumptions=["only pages that carry a CRC are damaged (carquet's writer always writes one)", "damage is confined to page bodies; headers and footer are out of this property's scope"],
    engines=[pbt("c14_crc", libs=["rapidcheck", "snappy", "lz4"], confirm_tries=8, quick=dict(cases=120, size=60, enum=1, procs=8), thorough=dict(cases=3000, size=100, enum=2, procs=16))],
    min_evaluations=dict(quick=100000, thorough=2000000),
)

PROPS["C18"] = dict(
    title="Truncated files are rejected and failed writes are never reported OK",
    level="fault_enumeration",
    design_ref="DESIGN.md section 8, C18",
    level_text=("Fault enumeration over generated write histories: (prefixes) every proper prefix of files up to 4 KiB - for larger files the last 256 bytes, the first 64, every "
                "page/footer boundary +-2 and 300 random cuts - is opened by path with stdio, by path with mmap and from an exact-size buffer and must be rejected with an error "
                "code unless the independent reader accepts the prefix as a complete file; (sink) a fopencookie FILE* whose write callback fails (0 return or short write) once a "
                "byte budget is exhausted, for every budget 0..len+1 (files up to 1500 bytes) under unbuffered, line-buffered and fully buffered streams: budget < len requires a "
                "non-OK status from some writer call, budget >= len requires all OK and byte-identical sink contents; (stdio) for the path-based writer the n-th fwrite/fflush/fclose "
                "issued by carquet fails (link-time --wrap), every n; (pipe) the sink is the write end of a pipe (a stream with a real descriptor) drained by a consumer thread - "
                "blocking / non-blocking, 64 KiB / 4 KiB pipe, the writing thread interrupted by a periodic signal without SA_RESTART - including single row groups of 270-720 KB: "
                "if every call including close returns OK the consumer holds exactly the fault-free file; (abort) carquet_writer_abort after every prefix of the call script "
                "leaves no file, no open descriptor (/proc/self/fd count) and no leak (exact heap balance)."),
    level_note="exhaustive over cut positions / byte budgets / stream-operation indices / abort points of each generated file; the files themselves are sampled",
    technique="fault injection enumerated over cut positions, sink byte budgets, stdio call indices and abort points of generated write histories (rapidcheck generates the histories)",
    rule=("evaluations count (file, fault point[, mode]) executions. Non-trivial: prefixes - a cut inside the footer, between footer and length or inside the trailing magic; sink - a "
          "failure within the last 4096 bytes under full buffering (absorbed by stdio until close); stdio - at least 4 stream operations; abort - at least 2 calls; "
          "pipe - a file above 64 KiB for which at least two of the eight sink variants ended with all calls OK."),
    assumptions=["open_buffer is never given size 0 with a NULL pointer; a zero-length prefix is passed as a valid pointer of size 0"],
    engines=[pbt("c18_truncation", libs=["rapidcheck", "snappy", "lz4"], ldflags=["-Wl,--wrap=fwrite,--wrap=fflush,--wrap=fclose"], quick=dict(cases=200, size=60, procs=8), thorough=dict(cases=4000, size=100, procs=16))],
    min_evaluations=dict(quick=20000, thorough=400000),
)

PROPS["C19"] = dict(
    title="Allocation failure gives a clean error or correct result, nothing else",
    level="fault_enumeration",
    design_ref="DESIGN.md section 8, C19",
    level_text=("Fault enumeration: for each generated scenario (schema build past the capacities, write of a multi-type nullable two-row-group table per codec through the "
                "path and FILE* writers, open + metadata + full column read per I/O mode of carquet-written and of reference-written dictionary files, batch read with "
                "projection, statistics builder + column index builder + Bloom filter lifecycles) a counting run measures K, the number of malloc/calloc/realloc/strdup "
                "requests issued by carquet's objects (link-time --wrap; shared libraries and the C++ harness do not pass through the wrappers), and then the k-th request "
                "fails for every k < K. Oracle: no ASan/UBSan report; each API call returns an error, or reports success and then the effect equals the fault-free run's (the "
                "written file decodes in the independent reader to the same table / the values read are the same / the same batches); all handles are closed normally "
                "afterwards; LeakSanitizer's recoverable check finds nothing."),
    level_note="exhaustive over the allocation index k of each generated scenario; scenarios are sampled; a crash on an injected failure ends the process and is reported with the scenario as replay case",
    technique="fault injection enumerated over every allocation request of generated scenarios (link-time malloc wrap under ASan/LSan), error-or-identical-effect oracle",
    rule=("evaluations count (scenario, k) runs in which the k-th allocation really failed. Non-trivial: a scenario in which some failing request lies behind the third "
          "allocation (i.e. after the handle was created)."),
    assumptions=["only allocation requests made by carquet's own objects are failed; zlib/zstd/libc internals are not touched"],
    engines=[pbt("c19_alloc", libs=["rapidcheck", "snappy", "lz4"], ldflags=["-Wl,--wrap=malloc,--wrap=calloc,--wrap=realloc,--wrap=strdup"], quick=dict(cases=250, size=60, procs=8), thorough=dict(cases=6000, size=100, procs=16))],
    min_evaluations=dict(quick=5000, thorough=150000),
)
