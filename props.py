"""Per-property configuration used by check.py and tools/gen_manifest.py."""

def pbt(harness, variant="asan", libs=("rapidcheck",), quick=None, thorough=None, **kw):
    d = dict(type="pbt", harness=harness, variant=variant, libs=list(libs), quick=quick, thorough=thorough)
    d.update(kw)
    return d

PROPS = {}
NOT_APPLICABLE = {}
HOOK_COMMITS = []

PROPS["C11"] = dict(
    title="Every encoding decodes its own output back to the original sequence",
    level="exploration",
    design_ref="DESIGN.md section 8, C11",
    level_text=("Generated-input search with an executable round-trip oracle under ASan/UBSan: tens of thousands of random "
                "run-structured sequences per run plus exhaustive small scopes. Shows the property on everything explored; "
                "cannot establish absence of a counterexample outside the explored sizes."),
    level_note="trusts rapidcheck's generators/shrinking, clang sanitizers, and that the harness sizes buffers the way callers do",
    technique="property-based testing (rapidcheck): encode/decode round trip + byte-count oracle, model-based streaming-decoder histories, bounded-exhaustive small scope",
    rule=("cases: (encoding, bit width/type, value sequence[, get/get_batch/skip script]) from run-structured and boundary-value "
          "generators plus exhaustive small scopes (all 0/1 sequences at width 1, all 0/1/2 sequences at width 2, every single "
          "run boundary up to length 40 at 8 widths). Non-trivial: hybrid RLE - a run >= 8 starting at a position that is not a "
          "multiple of 8; streaming - a skip that lands inside the stream combined with reads; bit packing - count not a multiple "
          "of 8; delta - more than one 128-value block or a delta range wider than 32 bits; strings - shared prefixes / non-empty "
          "payload; BSS - count not a multiple of 16; dictionary - >= 2 distinct values with repeats; PLAIN - non-empty (boolean: "
          "count not a multiple of 8). Distinct = distinct FNV-1a-64 of the serialised case."),
    assumptions=["inputs stay in each encoder's documented domain (values fit the bit width; carquet_bitpack_32 widths 0..32)",
                 "an encoder that returns a non-OK status makes the case vacuous (counted), not a failure",
                 "clang ASan + UBSan (bounds, pointer-overflow, null, object-size ...) report any out-of-buffer access on exact-size heap blocks"],
    engines=[pbt("c11_encodings",
                 quick=dict(cases=9000, size=150, enum=1, procs=4),
                 thorough=dict(cases=45000, size=300, enum=2, procs=16))],
    min_evaluations=dict(quick=20000, thorough=400000),
)

PROPS["C12"] = dict(
    title="Encoded bytes follow the Parquet encoding specifications",
    level="exploration",
    design_ref="DESIGN.md section 8, C12",
    level_text=("Differential testing against independent codecs written from the Parquet encodings specification "
                "(ref/enc_ref.hpp, self-checked against the specification's example vectors at start-up), in both directions; "
                "the reference encoder explores the layout freedom the specification allows. Exploration only: it shows agreement "
                "on the generated streams."),
    level_note="trusts ref/enc_ref.hpp as a faithful reading of the specification (cross-checked by its own round trip on every direction-2 case; disagreement is counted as oracle_disagreement, never as a violation)",
    technique="property-based differential testing (rapidcheck) against independent specification encoders/decoders, both directions",
    rule=("direction 1: carquet encoder output (hybrid RLE, bit packing, DELTA_BINARY_PACKED int32/int64, DELTA_LENGTH, DELTA_BYTE_ARRAY, "
          "BYTE_STREAM_SPLIT, PLAIN) decoded by the reference decoder; direction 2: reference encoder with a generated layout plan "
          "(run cuts, zero-length runs, multi-group packed runs, padded final group, block size 128..1024 x 1..32 mini-blocks, widths "
          "wider than necessary, arbitrary width bytes for unused mini-blocks, prefix policies) decoded by carquet. Non-trivial: "
          "direction-2 stream using a form carquet's encoder never emits; direction-1 stream with an unaligned long run, more than one "
          "delta block, a delta width > 32 or a non-byte-multiple width. Distinct = FNV-1a-64 of the serialised case."),
    assumptions=["the reference codecs in ref/enc_ref.hpp implement the Parquet encodings specification",
                 "INT32 delta streams are compared modulo 2^32 (both delta conventions decode to the same values)"],
    engines=[pbt("c12_spec",
                 quick=dict(cases=10000, size=150, procs=4),
                 thorough=dict(cases=50000, size=300, procs=16))],
    min_evaluations=dict(quick=20000, thorough=400000),
)
