#!/usr/bin/env python3
"""Driver for every check registered in MANIFEST.json.

    python3 check.py <Cxx> --tier quick|thorough [--replay FILE]

Steps: build what is needed from /repo's current working tree (content-hashed
cache), replay the saved corpus and the known-finding regressions, run the
bounded-exhaustive scopes and the seeded random / fuzzing campaign, aggregate
per-case labels into evidence/<id>.json, and report.

Exit 0: property held on everything explored (KNOWN-FINDING lines may be printed).
Exit 1: a line "VIOLATION property=<id> replay=<path>" was printed.
Exit 3: the machinery itself broke (build failure, harness died without a case).
"""
import argparse, glob, hashlib, json, os, shutil, struct, subprocess, sys, tempfile, time
from concurrent.futures import ThreadPoolExecutor

VERIF = os.path.dirname(os.path.abspath(__file__))
sys.path.insert(0, os.path.join(VERIF, "tools"))
import build  # noqa: E402
from props import PROPS  # noqa: E402

# development aid (tools/seeded.py): evidence and saved failures can be redirected so that parallel runs against scratch
# worktrees do not overwrite the evidence of the real tree
OUTDIR = os.environ.get("VERIF_OUT") or VERIF

ASAN_OPTS = ("abort_on_error=0:exitcode=97:detect_leaks=1:allocator_may_return_null=1:"
             "max_allocation_size_mb=2048:handle_abort=1:print_summary=1:symbolize=1:"
             "detect_stack_use_after_return=0:malloc_context_size=12")
UBSAN_OPTS = "print_stacktrace=1:halt_on_error=1:exitcode=97"


def env_for(extra=None):
    e = dict(os.environ)
    e["ASAN_OPTIONS"] = ASAN_OPTS
    e["UBSAN_OPTIONS"] = UBSAN_OPTS
    e["LSAN_OPTIONS"] = "exitcode=97:print_suppressions=0"
    e["ASAN_SYMBOLIZER_PATH"] = shutil.which("llvm-symbolizer") or "/usr/bin/llvm-symbolizer-14"
    e.pop("RC_PARAMS", None)
    if extra:
        e.update(extra)
    return e


def scratch_root():
    base = "/dev/shm" if os.path.isdir("/dev/shm") and os.access("/dev/shm", os.W_OK) else tempfile.gettempdir()
    d = os.path.join(base, "verif-%d" % os.getpid())
    shutil.rmtree(d, ignore_errors=True)
    os.makedirs(d)
    return d


def load_findings(pid):
    p = os.path.join(VERIF, "known_findings.json")
    if not os.path.exists(p):
        return []
    with open(p) as f:
        return [x for x in json.load(f).get("findings", []) if x["property"] == pid]


def build_engine(eng):
    if eng["type"] in ("pbt", "fuzz", "custom"):
        return build.build_harness(eng["harness"], eng["variant"], libs=eng.get("libs", ["rapidcheck"]),
                                   extra=eng.get("cxxflags", []), ldflags=eng.get("ldflags", []))
    raise SystemExit("unknown engine type")


def build_all():
    jobs = []
    for pid, p in PROPS.items():
        for eng in p["engines"]:
            jobs.append(eng)
    seen = set()
    uniq = []
    for e in jobs:
        k = (e["harness"], e["variant"])
        if k not in seen:
            seen.add(k)
            uniq.append(e)
    for v in sorted({e["variant"] for e in uniq}):
        build.build_lib(v)
    with ThreadPoolExecutor(8) as ex:
        list(ex.map(build_engine, uniq))


def replay_once(binp, eng, path, scratch, timeout=600):
    """Returns (failed: bool, text) for one replay of a saved case."""
    if eng["type"] == "fuzz":
        cmd = [binp, path]
    else:
        cmd = [binp, "--replay", path]
    try:
        ex = dict(eng.get("env", {}))
        if eng.get("asan_extra"):
            ex["ASAN_OPTIONS"] = ASAN_OPTS + ":" + eng["asan_extra"]
        r = subprocess.run(cmd, env=env_for(ex), stdout=subprocess.PIPE, stderr=subprocess.STDOUT,
                           text=True, errors="replace", timeout=timeout, cwd=scratch)
    except subprocess.TimeoutExpired:
        return True, "replay timed out after %ds" % timeout
    return r.returncode != 0, r.stdout[-4000:]


def ekey(eng):
    return eng.get("name", eng["harness"])


def engines_for_case(p, path):
    """every engine built from the harness the directory names (a case is replayed on all of them)"""
    h = os.path.basename(os.path.dirname(path))
    return [e for e in p["engines"] if e["harness"] == h] or [p["engines"][0]]


def engine_for_case(p, path):
    """corpus/<id>/<harness>/<file>: the directory names the harness."""
    h = os.path.basename(os.path.dirname(path))
    for eng in p["engines"]:
        if eng["harness"] == h:
            return eng
    return p["engines"][0]


def run_campaign(pid, p, eng, binp, tier, seed, scratch, exclude, bins_all=None):
    """Runs one engine's campaign; returns dict(stats..., failures=[(case_path, msg)])."""
    cfg = eng[tier]
    procs = cfg.get("procs", 1)
    outs = []
    cmds = []
    for i in range(procs):
        out = os.path.join(scratch, "%s-%s-%d" % (eng.get("name", eng["harness"]), tier, i))
        os.makedirs(out, exist_ok=True)
        if eng["type"] == "fuzz":
            os.makedirs(os.path.join(out, "corpus"), exist_ok=True)
        outs.append(out)
        if eng["type"] == "pbt":
            cmd = [binp, "--run", "--out", out, "--seed", str(seed * 1000 + i), "--cases", str(cfg["cases"]),
                   "--size", str(cfg.get("size", 100))]
            if cfg.get("enum") and i == 0:
                cmd += ["--enum", str(cfg["enum"])]
            # the harness stops generating by itself (and writes its statistics) well before the driver's timeout would
            # kill it: on a loaded machine a campaign ends short ("budget exhausted", inconclusive), never as an error
            cmd += ["--budget", str(cfg.get("budget") or int(cfg.get("timeout", 3600) * 0.8))]
            if eng.get("only"):
                cmd += ["--only", eng["only"]]
        else:
            cmd = [binp] + [str(a).replace("{out}", out).replace("{seed}", str(seed * 1000 + i)).replace("{i}", str(i))
                            .replace("{procs}", str(procs)).replace("{verif}", VERIF).replace("{scratch}", scratch) for a in cfg["args"]]
            if not any(str(a).startswith("-max_total_time") for a in cfg["args"]):
                cmd.append("-max_total_time=%d" % int(cfg.get("timeout", 3600) * 0.8))   # libFuzzer then exits normally and the target writes its statistics
        cmds.append(cmd)
    extra = dict(eng.get("env", {}))
    extra["VERIF_EXCLUDE"] = ",".join(exclude)
    extra["VERIF_TIER"] = tier
    if eng.get("asan_extra"):
        extra["ASAN_OPTIONS"] = ASAN_OPTS + ":" + eng["asan_extra"]
    # optional preparation (e.g. a seed corpus emitted by another engine's binary of the same property)
    for prep in eng.get("prepare", []):
        pb = bins_all[prep["engine"]]
        pcmd = [pb] + [str(a).replace("{scratch}", scratch).replace("{seed}", str(seed)) for a in prep["args"]]
        for d in prep.get("mkdirs", []):
            os.makedirs(d.replace("{scratch}", scratch), exist_ok=True)
        r = subprocess.run(pcmd, env=env_for(extra), stdout=subprocess.PIPE, stderr=subprocess.STDOUT, text=True, errors="replace", timeout=900, cwd=scratch)
        if r.returncode != 0:
            return dict(evaluations=0, vacuous=0, excluded=0, classes={}, per_prop={}, excluded_by={}, samples=[], enum_scopes=[],
                        budget_exhausted=False, failures=[], errors=["prepare step failed: " + r.stdout[-2000:]], hashes=set())

    def one(i):
        log = os.path.join(outs[i], "log.txt")
        with open(log, "w") as lf:
            try:
                r = subprocess.run(cmds[i], env=env_for(extra), stdout=lf, stderr=subprocess.STDOUT,
                                   timeout=cfg.get("timeout", 3600), cwd=outs[i])
                return r.returncode
            except subprocess.TimeoutExpired:
                return -999
    with ThreadPoolExecutor(procs) as ex:
        rcs = list(ex.map(one, range(procs)))

    agg = dict(evaluations=0, vacuous=0, excluded=0, classes={}, per_prop={}, excluded_by={}, samples=[],
               enum_scopes=[], budget_exhausted=False, failures=[], errors=[], hashes=set())
    for i, out in enumerate(outs):
        sp = os.path.join(out, "stats.json")
        st = None
        if os.path.exists(sp):
            try:
                with open(sp) as f:
                    st = json.load(f)
            except Exception as e:  # noqa
                st = None
        if st:
            agg["evaluations"] += st.get("evaluations", 0)
            agg["vacuous"] += st.get("vacuous", 0)
            agg["excluded"] += st.get("excluded", 0)
            for k in ("classes", "per_prop", "excluded_by"):
                for a, b in st.get(k, {}).items():
                    agg[k][a] = agg[k].get(a, 0) + b
            if len(agg["samples"]) < 24:
                agg["samples"] += st.get("samples", [])[: max(2, 24 // procs)]
            agg["enum_scopes"] += st.get("enum_scopes", [])
            agg["budget_exhausted"] |= bool(st.get("budget_exhausted"))
        hp = os.path.join(out, "nontrivial.u64")
        if os.path.exists(hp):
            with open(hp, "rb") as f:
                b = f.read()
            agg["hashes"].update(struct.unpack("<%dQ" % (len(b) // 8), b[: len(b) // 8 * 8]))
        rc = rcs[i]
        case = None
        for nm in ("fail.case", "crash.case"):
            if os.path.exists(os.path.join(out, nm)):
                case = os.path.join(out, nm)
                break
        arts = sorted(glob.glob(os.path.join(out, "crash-*")) + glob.glob(os.path.join(out, "leak-*")))
        hangs = sorted(glob.glob(os.path.join(out, "timeout-*")))
        noise = sorted(glob.glob(os.path.join(out, "oom-*")) + glob.glob(os.path.join(out, "slow-unit-*")))
        if rc == 0 and not case and not arts and not hangs:
            continue
        for hp_ in hangs:
            # candidate hang (DESIGN.md 4.6): only an input that exceeds the bound on each of three solitary re-runs is reported
            slow = 0
            for _ in range(3):
                t1 = time.time()
                failed, _txt = replay_once(binp, eng, hp_, out, timeout=eng.get("hang_seconds", 20))
                if failed and time.time() - t1 >= eng.get("hang_seconds", 20) - 1:
                    slow += 1
            if slow == 3:
                agg["failures"].append((hp_, "candidate hang: the input runs longer than %d s on three solitary re-runs" % eng.get("hang_seconds", 20), ""))
            else:
                agg["errors"].append("libFuzzer reported a timeout under load that does not reproduce alone (inconclusive, timed out): " + os.path.basename(hp_))
        if not case and not arts and (hangs or noise):
            if noise:
                agg["errors"].append("libFuzzer stopped on %s (load noise, inconclusive, timed out)" % os.path.basename(noise[0]))
                agg["budget_exhausted"] = True
            continue
        logtxt = open(os.path.join(out, "log.txt"), errors="replace").read()
        # a crash is not shrunk by rapidcheck (the process died): re-run the same campaign with every case in a forked
        # child, where the crash is an ordinary failing verdict and gets minimised; the same seed regenerates the same cases
        if case and case.endswith("crash.case") and eng["type"] == "pbt" and eng.get("fork_shrink", True):
            sh_out = out + "-shrink"
            os.makedirs(sh_out, exist_ok=True)
            try:
                with open(os.path.join(sh_out, "log.txt"), "w") as lf:
                    subprocess.run([c_.replace(out, sh_out) if c_ == out else c_ for c_ in cmds[i]] + ["--fork"], env=env_for(extra), stdout=lf,
                                   stderr=subprocess.STDOUT, timeout=eng.get("shrink_timeout", 400 if tier == "quick" else 900), cwd=sh_out)
            except subprocess.TimeoutExpired:
                pass
            shrunk = os.path.join(sh_out, "fail.case")
            if os.path.exists(shrunk) and os.path.getsize(shrunk) <= os.path.getsize(case):
                case = shrunk
        if case:
            msg = ""
            mp = os.path.join(out, "fail.msg")
            if os.path.exists(mp):
                msg = open(mp, errors="replace").read()
            else:
                msg = "crash: " + " | ".join([l for l in logtxt.splitlines() if "ERROR:" in l or "SUMMARY:" in l or "runtime error" in l][:3])
            agg["failures"].append((case, msg, logtxt[-6000:]))
        elif arts:
            for a in arts:
                agg["failures"].append((a, "libFuzzer artifact " + os.path.basename(a), logtxt[-6000:]))
        elif rc == -999:
            agg["errors"].append("engine %s proc %d timed out (inconclusive)" % (eng["harness"], i))
            agg["budget_exhausted"] = True
        else:
            # a fuzz process that died with a sanitizer report but left no artifact (the report itself faulted: "nested bug"):
            # every input it can have been executing from disk - seed and corpus directories on its command line - is run alone;
            # the ones that fail alone are ordinary, reproducible failing inputs
            culprits = []
            if eng["type"] == "fuzz" and ("ERROR: AddressSanitizer" in logtxt or "runtime error" in logtxt or "CONTRACT VIOLATION" in logtxt):
                cands = []
                for a_ in cmds[i][1:]:
                    if os.path.isdir(a_):
                        cands += [os.path.join(a_, f) for f in sorted(os.listdir(a_)) if os.path.isfile(os.path.join(a_, f))]
                def alone(fp):
                    failed, _t = replay_once(binp, eng, fp, out, timeout=120)
                    return fp if failed else None
                with ThreadPoolExecutor(16) as ex2:
                    culprits = [c_ for c_ in ex2.map(alone, cands[:20000]) if c_]
            if culprits:
                culprits.sort(key=os.path.getsize)
                for c_ in culprits[:3]:
                    agg["failures"].append((c_, "input from the corpus directory on which the fuzz process died (no artifact was written): " +
                                            " | ".join([l for l in logtxt.splitlines() if "ERROR:" in l or "SUMMARY:" in l][:2]), logtxt[-6000:]))
            else:
                agg["errors"].append("engine %s proc %d exited %s without a case:\n%s" % (eng["harness"], i, rc, logtxt[-3000:]))
    return agg


def main():
    ap = argparse.ArgumentParser()
    ap.add_argument("pid")
    ap.add_argument("--tier", default=os.environ.get("VERIF_TIER", "quick"), choices=["quick", "thorough"])
    ap.add_argument("--replay")
    a = ap.parse_args()
    pid = a.pid
    if pid not in PROPS:
        print("unknown property", pid)
        return 3
    p = PROPS[pid]
    seed = int(os.environ.get("VERIF_SEED", "1") or 1)
    t0 = time.time()
    scratch = scratch_root()
    try:
        return run(pid, p, a, seed, t0, scratch)
    finally:
        shutil.rmtree(scratch, ignore_errors=True)


def save_failure(pid, eng, case_path):
    d = os.path.join(OUTDIR, "failures", pid, eng["harness"])
    os.makedirs(d, exist_ok=True)
    with open(case_path, "rb") as f:
        b = f.read()
    ext = ".case" if eng["type"] != "fuzz" else ".bin"
    dst = os.path.join(d, hashlib.sha256(b).hexdigest()[:16] + ext)
    with open(dst, "wb") as f:
        f.write(b)
    return dst


def run(pid, p, a, seed, t0, scratch):
    bins = {}
    for eng in p["engines"]:
        bins[ekey(eng)] = build_engine(eng)

    if a.replay:
        eng = engine_for_case(p, os.path.abspath(a.replay))
        failed, txt = replay_once(bins[ekey(eng)], eng, os.path.abspath(a.replay), scratch)
        print(txt)
        if failed:
            print("VIOLATION property=%s replay=%s" % (pid, a.replay))
            return 1
        return 0

    findings = load_findings(pid)
    open_f = [f for f in findings if f["status"] == "open"]
    violations = []
    known_lines = []
    notes = []
    replayed = 0

    # ---- known findings (open): deterministic regression must still fail to be announced
    open_paths = set()
    for f in open_f:
        path = os.path.join(VERIF, f["replay"])
        open_paths.add(os.path.abspath(path))
        eng = engine_for_case(p, path)
        failed, txt = replay_once(bins[ekey(eng)], eng, path, scratch)
        replayed += 1
        if failed:
            known_lines.append("KNOWN-FINDING: property=%s %s [%s]" % (pid, f["what"], f["id"]))
        else:
            notes.append("known finding %s no longer reproduces (repaired?)" % f["id"])

    # ---- corpus regressions (includes the cases of fixed findings)
    for path in sorted(glob.glob(os.path.join(VERIF, "corpus", pid, "*", "*"))):
        if os.path.abspath(path) in open_paths or os.path.isdir(path):
            continue
        for eng in engines_for_case(p, path):
            if eng["type"] == "fuzz" and not eng.get("replay_corpus", True):
                continue
            failed, txt = replay_once(bins[ekey(eng)], eng, path, scratch)
            replayed += 1
            if failed:
                # a saved case is a deterministic reproduction: it fails again when it is re-run.  A failure that two
                # further runs do not repeat is recorded as a note, not a violation.
                again = [replay_once(bins[ekey(eng)], eng, path, scratch) for _ in range(2)]
                replayed += 2
                if any(f for f, _ in again):
                    violations.append((path, "saved regression case fails: " + txt[-600:]))
                    break
                notes.append("saved case %s failed once and passed on two re-runs (not counted): %s" % (os.path.relpath(path, VERIF), txt[-300:].replace("\n", " | ")))

    # ---- campaigns
    exclude = [f["id"] for f in open_f]
    total = dict(evaluations=replayed, vacuous=0, excluded=0, classes={}, per_prop={}, excluded_by={},
                 samples=[], enum_scopes=[], budget_exhausted=False, hashes=set())
    errors = []
    unconfirmed = 0
    if not violations:
        for eng in p["engines"]:
            if not eng.get(a.tier):
                continue
            agg = run_campaign(pid, p, eng, bins[ekey(eng)], a.tier, seed, scratch, exclude, bins)
            for k in ("evaluations", "vacuous", "excluded"):
                total[k] += agg[k]
            for k in ("classes", "per_prop", "excluded_by"):
                for x, y in agg[k].items():
                    total[k][x] = total[k].get(x, 0) + y
            total["samples"] += agg["samples"][:12]
            total["enum_scopes"] += agg["enum_scopes"]
            total["budget_exhausted"] |= agg["budget_exhausted"]
            total["hashes"] |= agg["hashes"]
            errors += agg["errors"]
            for case, msg, log in agg["failures"]:
                # confirm by replaying the saved case (up to 3 times; one failing replay confirms)
                confirmed = False
                for _ in range(eng.get("confirm_tries", 3)):
                    failed, txt = replay_once(bins[ekey(eng)], eng, case, scratch)
                    if failed:
                        confirmed = True
                        break
                if confirmed:
                    dst = save_failure(pid, eng, case)
                    violations.append((dst, msg.strip()[:800]))
                else:
                    unconfirmed += 1
                    notes.append("a campaign failure did not reproduce on replay (not reported): " + msg.strip()[:300])
                    # kept for triage (never replayed by the driver, never a violation)
                    try:
                        ud = os.path.join(OUTDIR, "failures", pid, "unconfirmed")
                        os.makedirs(ud, exist_ok=True)
                        shutil.copy(case, os.path.join(ud, os.path.basename(case) + "." + ekey(eng)))
                        with open(os.path.join(ud, os.path.basename(case) + "." + ekey(eng) + ".log"), "w") as lf:
                            lf.write(log[-20000:])
                    except Exception:  # noqa
                        pass

    nt = len(total["hashes"])
    wall = time.time() - t0
    ev = {
        "property_id": pid,
        "tier": a.tier,
        "seed": seed,
        "level": p["level"],
        "coverage": {
            "evaluations": int(total["evaluations"]),
            "distinct_nontrivial": int(nt),
            "rule": p["rule"],
            "samples": total["samples"][:20] or ["(no sample recorded)"],
            "exhaustive": False,
            "exhaustive_subdomains": total["enum_scopes"],
            "classes": total["classes"],
            "per_subproperty": total["per_prop"],
            "vacuous": total["vacuous"],
            "excluded_by_known_finding": total["excluded_by"],
            "replayed_regressions": replayed,
            "budget_exhausted": total["budget_exhausted"],
            "unconfirmed_failures": unconfirmed,
            "known_findings_announced": known_lines,
            "notes": notes + errors,
        },
        "assumptions": p.get("assumptions", []),
        "wall_s": round(wall, 2),
        "violations": len(violations),
    }
    os.makedirs(os.path.join(OUTDIR, "evidence"), exist_ok=True)
    with open(os.path.join(OUTDIR, "evidence", pid + ".json"), "w") as f:
        json.dump(ev, f, indent=1, sort_keys=True)
        f.write("\n")

    for l in known_lines:
        print(l)
    for n in notes:
        print("note:", n)
    print("%s %s: %d evaluations, %d distinct non-trivial, %d vacuous, %.1fs" %
          (pid, a.tier, total["evaluations"], nt, total["vacuous"], wall))
    if violations:
        for path, msg in violations:
            print("  failure:", msg.replace("\n", " | ")[:600])
            print("VIOLATION property=%s replay=%s" % (pid, path))
        return 1
    if errors:
        for e in errors:
            print("HARNESS-ERROR:", e)
        if any("timed out" not in e for e in errors):
            return 3
    min_eval = p.get("min_evaluations", {}).get(a.tier, 1)
    if total["budget_exhausted"]:
        # a time budget was hit (loaded machine): the run is shorter than planned - inconclusive beyond what it covered, which
        # the evidence states; only a run that covered next to nothing is treated as a broken check
        print("note: a time budget was exhausted; the run covered %d evaluations (planned at least %d)" % (total["evaluations"], min_eval))
        min_eval = max(1, min_eval // 50)
    if total["evaluations"] < min_eval or nt < 2:
        print("HARNESS-ERROR: check ran vacuously (%d evaluations, %d non-trivial; need >= %d)" %
              (total["evaluations"], nt, min_eval))
        return 3
    return 0


if __name__ == "__main__":
    sys.exit(main())
