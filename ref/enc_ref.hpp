// Independent reference codecs for the Parquet value encodings, written from
// the Parquet "Encodings" specification.  No carquet code is used here.
//   - ULEB128 / zigzag
//   - LSB-first bit packing at widths 0..64
//   - RLE / bit-packed hybrid: explicit run plans (encoder) and a strict decoder
//   - DELTA_BINARY_PACKED with free block geometry, DELTA_LENGTH_BYTE_ARRAY, DELTA_BYTE_ARRAY
//   - BYTE_STREAM_SPLIT, PLAIN
#pragma once
#include <cstdint>
#include <cstring>
#include <string>
#include <vector>

namespace ref {
typedef std::vector<uint8_t> Bytes;

// ------------------------------------------------------------- varints
inline void put_uleb(Bytes &o, uint64_t v) {
  while (v >= 0x80) { o.push_back((uint8_t)(v | 0x80)); v >>= 7; }
  o.push_back((uint8_t)v);
}
inline bool get_uleb(const uint8_t *&p, const uint8_t *end, uint64_t &out) {
  out = 0;
  for (int shift = 0; shift < 70; shift += 7) {
    if (p >= end) return false;
    uint8_t b = *p++;
    if (shift < 64) out |= (uint64_t)(b & 0x7f) << shift;
    if (!(b & 0x80)) return true;
  }
  return false;
}
inline uint64_t zigzag(int64_t v) { return ((uint64_t)v << 1) ^ (uint64_t)(v >> 63); }
inline int64_t unzigzag(uint64_t u) { return (int64_t)(u >> 1) ^ -(int64_t)(u & 1); }

// ------------------------------------------------------------- bit packing (LSB first)
struct BitWriter {
  Bytes &o;
  unsigned __int128 acc = 0;
  int n = 0;
  explicit BitWriter(Bytes &out) : o(out) {}
  void put(uint64_t v, int w) {
    if (w == 0) return;
    if (w < 64) v &= ((1ull << w) - 1);
    acc |= (unsigned __int128)v << n;
    n += w;
    while (n >= 8) { o.push_back((uint8_t)acc); acc >>= 8; n -= 8; }
  }
  void flush() { if (n > 0) { o.push_back((uint8_t)acc); acc = 0; n = 0; } }
};
struct BitReader {
  const uint8_t *p, *end;
  unsigned __int128 acc = 0;
  int n = 0;
  BitReader(const uint8_t *b, const uint8_t *e) : p(b), end(e) {}
  bool get(int w, uint64_t &v) {
    while (n < w) { if (p >= end) return false; acc |= (unsigned __int128)(*p++) << n; n += 8; }
    v = w == 0 ? 0 : (w >= 64 ? (uint64_t)acc : (uint64_t)acc & ((1ull << w) - 1));
    acc >>= w;
    n -= w;
    return true;
  }
};
inline int bits_for(uint64_t v) { int w = 0; while (v) { w++; v >>= 1; } return w; }

// ------------------------------------------------------------- hybrid RLE / bit-packed
// A plan is a list of runs.  rle: `count` copies of vals[0]; count may be 0
// (zero-length run, legal).  bit-packed: vals.size() values, padded to a
// multiple of 8 with `pad` values; vals may be empty (zero groups, legal).
struct Run {
  bool rle = true;
  uint64_t count = 0;            // rle only
  std::vector<uint32_t> vals;    // rle: one value; packed: the values
};
inline Bytes hybrid_encode(const std::vector<Run> &plan, int width, uint32_t pad = 0) {
  Bytes o;
  for (auto &r : plan) {
    if (r.rle) {
      put_uleb(o, r.count << 1);
      uint32_t v = r.vals.empty() ? 0 : r.vals[0];
      for (int i = 0; i < (width + 7) / 8; i++) o.push_back((uint8_t)(v >> (8 * i)));
    } else {
      size_t groups = (r.vals.size() + 7) / 8;
      put_uleb(o, (groups << 1) | 1);
      BitWriter bw(o);
      for (size_t i = 0; i < groups * 8; i++) bw.put(i < r.vals.size() ? r.vals[i] : pad, width);
      bw.flush();
    }
  }
  return o;
}
// canonical plan: runs >= 8 as RLE (after completing any open group), the rest packed
inline std::vector<Run> hybrid_plan_simple(const std::vector<uint32_t> &v) {
  std::vector<Run> plan;
  Run cur; cur.rle = false;
  size_t i = 0;
  while (i < v.size()) {
    size_t j = i;
    while (j < v.size() && v[j] == v[i]) j++;
    size_t len = j - i;
    while (len > 0 && cur.vals.size() % 8 != 0) { cur.vals.push_back(v[i]); len--; }
    if (len >= 8) {
      if (!cur.vals.empty()) { plan.push_back(cur); cur.vals.clear(); }
      Run r; r.rle = true; r.count = len; r.vals = {v[i]}; plan.push_back(r);
    } else {
      for (size_t k = 0; k < len; k++) cur.vals.push_back(v[i]);
    }
    i = j;
  }
  if (!cur.vals.empty()) plan.push_back(cur);
  return plan;
}
// Strict decoder: yields exactly `want` values; only the final bit-packed run
// may contain more (padding).  Errors: truncated header/value/group, RLE value
// with bits above `width`, stream ends before `want` values, and (if
// `exact_end`) bytes left over after the run that completed `want`.
inline bool hybrid_decode(const uint8_t *p, size_t n, int width, size_t want, std::vector<uint32_t> &out,
                          std::string &err, bool exact_end = true, size_t *consumed = nullptr) {
  const uint8_t *b = p, *end = p + n;
  out.clear();
  uint64_t mask = width >= 32 ? 0xffffffffull : ((1ull << width) - 1);
  while (out.size() < want) {
    if (p >= end) { err = "stream ends after " + std::to_string(out.size()) + " of " + std::to_string(want) + " values"; return false; }
    uint64_t h;
    if (!get_uleb(p, end, h)) { err = "truncated run header"; return false; }
    if ((h & 1) == 0) {
      uint64_t cnt = h >> 1;
      int vb = (width + 7) / 8;
      if (end - p < vb) { err = "truncated RLE value"; return false; }
      uint64_t v = 0;
      for (int i = 0; i < vb; i++) v |= (uint64_t)p[i] << (8 * i);
      p += vb;
      if (v & ~mask) { err = "RLE value has bits above the bit width"; return false; }
      for (uint64_t i = 0; i < cnt && out.size() < want; i++) out.push_back((uint32_t)v);
    } else {
      uint64_t groups = h >> 1;
      uint64_t bytes = groups * (uint64_t)width;
      if ((uint64_t)(end - p) < bytes) { err = "truncated bit-packed run"; return false; }
      BitReader br(p, p + bytes);
      for (uint64_t i = 0; i < groups * 8; i++) {
        uint64_t v;
        br.get(width, v);
        if (out.size() < want) out.push_back((uint32_t)v);
      }
      p += bytes;
    }
  }
  if (consumed) *consumed = (size_t)(p - b);
  if (exact_end && want > 0 && p != end) { err = "bytes left after the last run: " + std::to_string(end - p); return false; }
  return true;
}

// ------------------------------------------------------------- DELTA_BINARY_PACKED
struct DeltaGeom {
  uint32_t block = 128, mini = 4;
  int widen = 0;              // add this many bits to every mini-block width (capped)
  uint8_t unused_width = 0;   // width byte written for mini-blocks that hold no values
};
// values are handled as 64-bit two's-complement; for INT32 columns pass
// is32=true so that deltas are computed modulo 2^32 (both conventions decode
// to the same 32-bit values).
inline Bytes delta_encode(const std::vector<int64_t> &v, bool is32, const DeltaGeom &g = DeltaGeom()) {
  Bytes o;
  put_uleb(o, g.block);
  put_uleb(o, g.mini);
  put_uleb(o, v.size());
  put_uleb(o, zigzag(v.empty() ? 0 : v[0]));
  size_t msz = g.block / g.mini;
  int cap = is32 ? 32 : 64;
  for (size_t b = 1; b < v.size(); b += g.block) {
    size_t e = std::min(v.size(), b + g.block);
    std::vector<int64_t> d;
    for (size_t i = b; i < e; i++) {
      if (is32) d.push_back((int64_t)(int32_t)((uint32_t)v[i] - (uint32_t)v[i - 1]));
      else d.push_back((int64_t)((uint64_t)v[i] - (uint64_t)v[i - 1]));
    }
    int64_t mn = d[0];
    for (auto x : d) mn = std::min(mn, x);
    put_uleb(o, zigzag(mn));
    std::vector<int> widths(g.mini, (int)g.unused_width);
    for (size_t m = 0; m < g.mini; m++) {
      if (m * msz >= d.size()) continue;
      uint64_t mx = 0;
      for (size_t i = m * msz; i < std::min(d.size(), (m + 1) * msz); i++) {
        uint64_t a = (uint64_t)d[i] - (uint64_t)mn;
        if (is32) a &= 0xffffffffull;
        mx = std::max(mx, a);
      }
      widths[m] = std::min(cap, bits_for(mx) + g.widen);
    }
    for (size_t m = 0; m < g.mini; m++) o.push_back((uint8_t)widths[m]);
    for (size_t m = 0; m < g.mini; m++) {
      if (m * msz >= d.size()) break;   // mini-blocks without values are not written
      BitWriter bw(o);
      for (size_t i = m * msz; i < (m + 1) * msz; i++) {
        uint64_t a = i < d.size() ? (uint64_t)d[i] - (uint64_t)mn : 0;
        if (is32) a &= 0xffffffffull;
        bw.put(a, widths[m]);
      }
      bw.flush();
    }
  }
  return o;
}
inline bool delta_decode(const uint8_t *p, size_t n, bool is32, std::vector<int64_t> &out, std::string &err,
                         size_t *consumed = nullptr, size_t *max_width = nullptr) {
  const uint8_t *b = p, *end = p + n;
  uint64_t block, mini, total, first;
  out.clear();
  if (!get_uleb(p, end, block) || !get_uleb(p, end, mini) || !get_uleb(p, end, total) || !get_uleb(p, end, first)) { err = "truncated delta header"; return false; }
  if (block == 0 || block % 128 != 0) { err = "block size " + std::to_string(block) + " is not a positive multiple of 128"; return false; }
  if (mini == 0 || block % mini != 0 || (block / mini) % 32 != 0) { err = "mini-block size not a multiple of 32"; return false; }
  if (total > (1u << 28)) { err = "absurd value count"; return false; }
  size_t msz = block / mini;
  uint64_t last = (uint64_t)unzigzag(first);
  if (total > 0) out.push_back(is32 ? (int64_t)(int32_t)(uint32_t)last : (int64_t)last);
  size_t mw = 0;
  while (out.size() < total) {
    uint64_t zz;
    if (!get_uleb(p, end, zz)) { err = "truncated block header"; return false; }
    uint64_t mn = (uint64_t)unzigzag(zz);
    if ((uint64_t)(end - p) < mini) { err = "truncated width list"; return false; }
    const uint8_t *w = p;
    p += mini;
    for (size_t m = 0; m < mini && out.size() < total; m++) {
      int width = w[m];
      if (width > 64) { err = "mini-block width " + std::to_string(width) + " > 64"; return false; }
      mw = std::max<size_t>(mw, (size_t)width);
      size_t bytes = (msz * (size_t)width + 7) / 8;
      if ((size_t)(end - p) < bytes) { err = "truncated mini-block (width " + std::to_string(width) + ", need " + std::to_string(bytes) + " bytes, have " + std::to_string(end - p) + ")"; return false; }
      BitReader br(p, p + bytes);
      for (size_t i = 0; i < msz; i++) {
        uint64_t a;
        br.get(width, a);
        if (out.size() < total) {
          last = last + mn + a;
          out.push_back(is32 ? (int64_t)(int32_t)(uint32_t)last : (int64_t)last);
        }
      }
      p += bytes;
    }
  }
  if (consumed) *consumed = (size_t)(p - b);
  if (max_width) *max_width = mw;
  return true;
}

// ------------------------------------------------------------- DELTA_LENGTH_BYTE_ARRAY / DELTA_BYTE_ARRAY
inline Bytes delta_length_encode(const std::vector<Bytes> &v, const DeltaGeom &g = DeltaGeom()) {
  std::vector<int64_t> lens;
  for (auto &s : v) lens.push_back((int64_t)s.size());
  Bytes o = delta_encode(lens, true, g);
  for (auto &s : v) o.insert(o.end(), s.begin(), s.end());
  return o;
}
inline bool delta_length_decode(const uint8_t *p, size_t n, std::vector<Bytes> &out, std::string &err, size_t *consumed = nullptr) {
  std::vector<int64_t> lens;
  size_t c = 0;
  out.clear();
  if (!delta_decode(p, n, true, lens, err, &c)) return false;
  size_t pos = c;
  for (auto L : lens) {
    if (L < 0 || (size_t)L > n - pos) { err = "length " + std::to_string(L) + " runs past the data"; return false; }
    out.emplace_back(p + pos, p + pos + L);
    pos += (size_t)L;
  }
  if (consumed) *consumed = pos;
  return true;
}
// prefix policy: 0 = longest common prefix, 1 = no prefixes at all, 2 = half of the longest
inline Bytes delta_strings_encode(const std::vector<Bytes> &v, int policy = 0, const DeltaGeom &g = DeltaGeom()) {
  std::vector<int64_t> pre;
  std::vector<Bytes> suf;
  for (size_t i = 0; i < v.size(); i++) {
    size_t k = 0;
    if (i > 0 && policy != 1) {
      while (k < v[i].size() && k < v[i - 1].size() && v[i][k] == v[i - 1][k]) k++;
      if (policy == 2) k /= 2;
    }
    pre.push_back((int64_t)k);
    suf.emplace_back(v[i].begin() + k, v[i].end());
  }
  Bytes o = delta_encode(pre, true, g);
  Bytes s = delta_length_encode(suf, g);
  o.insert(o.end(), s.begin(), s.end());
  return o;
}
inline bool delta_strings_decode(const uint8_t *p, size_t n, std::vector<Bytes> &out, std::string &err, size_t *consumed = nullptr) {
  std::vector<int64_t> pre;
  size_t c = 0, c2 = 0;
  out.clear();
  if (!delta_decode(p, n, true, pre, err, &c)) return false;
  std::vector<Bytes> suf;
  if (!delta_length_decode(p + c, n - c, suf, err, &c2)) return false;
  if (suf.size() != pre.size()) { err = "prefix and suffix counts differ"; return false; }
  Bytes prev;
  for (size_t i = 0; i < pre.size(); i++) {
    if (pre[i] < 0 || (size_t)pre[i] > prev.size()) { err = "prefix length exceeds previous value"; return false; }
    Bytes s(prev.begin(), prev.begin() + pre[i]);
    s.insert(s.end(), suf[i].begin(), suf[i].end());
    out.push_back(s);
    prev = s;
  }
  if (consumed) *consumed = c + c2;
  return true;
}

// ------------------------------------------------------------- BYTE_STREAM_SPLIT
inline Bytes bss_encode(const Bytes &flat, size_t width) {
  size_t n = width ? flat.size() / width : 0;
  Bytes o(n * width);
  for (size_t i = 0; i < n; i++) for (size_t k = 0; k < width; k++) o[k * n + i] = flat[i * width + k];
  return o;
}
inline Bytes bss_decode(const Bytes &enc, size_t width) {
  size_t n = width ? enc.size() / width : 0;
  Bytes o(n * width);
  for (size_t i = 0; i < n; i++) for (size_t k = 0; k < width; k++) o[i * width + k] = enc[k * n + i];
  return o;
}

// ------------------------------------------------------------- PLAIN
inline Bytes plain_bool(const std::vector<uint8_t> &v) {
  Bytes o((v.size() + 7) / 8, 0);
  for (size_t i = 0; i < v.size(); i++) if (v[i]) o[i / 8] |= (uint8_t)(1u << (i % 8));
  return o;
}
inline Bytes plain_byte_arrays(const std::vector<Bytes> &v) {
  Bytes o;
  for (auto &s : v) {
    uint32_t L = (uint32_t)s.size();
    for (int i = 0; i < 4; i++) o.push_back((uint8_t)(L >> (8 * i)));
    o.insert(o.end(), s.begin(), s.end());
  }
  return o;
}
template <class T> Bytes plain_le(const std::vector<T> &v) {   // little-endian fixed-width values
  Bytes o;
  for (auto x : v) for (size_t i = 0; i < sizeof(T); i++) o.push_back((uint8_t)((uint64_t)x >> (8 * i)));
  return o;
}

}  // namespace ref
