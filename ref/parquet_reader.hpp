// Independent strict Parquet reader / structural validator, written from the format
// specification.  No carquet code.  Decompression through the system libraries.
// Supports what carquet's writer and the reference writer emit: data page v1, dictionary
// pages, PLAIN / PLAIN_DICTIONARY / RLE_DICTIONARY, RLE levels, five codecs.
#pragma once
#include <lz4.h>
#include <snappy.h>
#include <zlib.h>
#include <zstd.h>
#include "ref/enc_ref.hpp"
#include "ref/parquet_writer.hpp"   // pw::Leaf, fixed_width, crc32_zlib

namespace prd {
using ref::Bytes;

struct PageOut { bool is_dict = false; size_t header_off = 0, header_len = 0, body_off = 0, body_len = 0; int32_t num_values = 0; size_t first_entry = 0; pq::PageHeader hdr; };
struct ChunkOut { std::vector<int16_t> def, rep; std::vector<Bytes> values; std::vector<PageOut> pages; size_t start = 0, end = 0; };
struct FileOut {
  pq::FileMetaData meta;
  std::vector<pw::Leaf> leaves;
  std::vector<std::vector<ChunkOut>> chunks;   // [rg][leaf]
  size_t footer_off = 0, footer_len = 0;
};
struct Strict {
  bool check_total_uncompressed = true;   // total_uncompressed_size == sum(header + uncompressed body), per parquet.thrift "including the headers"
  bool check_rg_total_byte_size = true;   // RowGroup.total_byte_size == sum of the chunks' total_uncompressed_size
  bool require_tiling = true;             // chunks tile [4, footer) without gap or overlap
  bool check_page_null_count = true;      // Statistics.null_count of a data page header == nulls in that page (C16 switches it off and asserts it itself)
};

inline bool decompress(int codec, const uint8_t *p, size_t n, size_t want, Bytes &out, std::string &err) {
  out.assign(want, 0);
  switch (codec) {
    case pq::UNCOMPRESSED: if (n != want) { err = "uncompressed page: compressed_page_size != uncompressed_page_size"; return false; } out.assign(p, p + n); return true;
    case pq::SNAPPY: { size_t ul = 0; if (!snappy::GetUncompressedLength((const char *)p, n, &ul)) { err = "payload is not a raw Snappy block"; return false; } if (ul != want) { err = "Snappy length " + std::to_string(ul) + " != uncompressed_page_size " + std::to_string(want); return false; }
      if (!snappy::RawUncompress((const char *)p, n, (char *)out.data())) { err = "invalid Snappy block"; return false; } return true; }
    case pq::GZIP: { if (n < 18 || p[0] != 0x1f || p[1] != 0x8b) { err = "payload is not an RFC 1952 gzip member"; return false; }
      z_stream z; memset(&z, 0, sizeof z); if (inflateInit2(&z, 15 + 16) != Z_OK) { err = "zlib init"; return false; }
      Bytes tmp(want + 1); z.next_in = (Bytef *)p; z.avail_in = (uInt)n; z.next_out = tmp.data(); z.avail_out = (uInt)tmp.size();
      int r = inflate(&z, Z_FINISH); size_t got = z.total_out; size_t used = z.total_in; inflateEnd(&z);
      if (r != Z_STREAM_END) { err = "gzip stream does not end cleanly"; return false; } if (got != want) { err = "gzip length " + std::to_string(got) + " != uncompressed_page_size " + std::to_string(want); return false; }
      if (used != n) { err = "bytes left after the gzip member"; return false; } out.assign(tmp.begin(), tmp.begin() + got); return true; }
    case pq::ZSTD: { if (n < 4 || !(p[0] == 0x28 && p[1] == 0xb5 && p[2] == 0x2f && p[3] == 0xfd)) { err = "payload is not a Zstandard frame"; return false; }
      size_t r = ZSTD_decompress(out.data(), want, p, n); if (ZSTD_isError(r)) { err = std::string("zstd: ") + ZSTD_getErrorName(r); return false; } if (r != want) { err = "zstd length mismatch"; return false; } return true; }
    case pq::LZ4: case pq::LZ4_RAW: {   // tag 5 is historically ambiguous: a raw LZ4 block is accepted under both tags (stated tolerance)
      if (want == 0) { if (n == 1 && p[0] == 0) return true; if (n == 0) return true; }
      Bytes tmp(want ? want : 1);
      int r = LZ4_decompress_safe((const char *)p, (char *)tmp.data(), (int)n, (int)want);
      if (r < 0 || (size_t)r != want) { err = "payload is not an LZ4 block of the declared length (liblz4 returns " + std::to_string(r) + ")"; return false; }
      out.assign(tmp.begin(), tmp.begin() + want); return true; }
    default: err = "unknown codec " + std::to_string(codec); return false;
  }
}

inline bool leaves_from_schema(const std::vector<pq::SchemaElement> &sch, std::vector<pw::Leaf> &out, std::string &err) {
  if (sch.empty()) { err = "schema list is empty"; return false; }
  size_t pos = 0;
  std::function<bool(std::vector<std::string>, int, int, std::vector<int>, bool)> rec = [&](std::vector<std::string> path, int def, int rp, std::vector<int> rd, bool root) -> bool {
    if (pos >= sch.size()) { err = "schema list shorter than its num_children claim"; return false; }
    const pq::SchemaElement &e = sch[pos++];
    if (!root) {
      if (!e.repetition) { err = "non-root element '" + e.name + "' without repetition_type"; return false; }
      path.push_back(e.name);
      if (*e.repetition == pq::OPTIONAL) def++;
      if (*e.repetition == pq::REPEATED) { def++; rp++; rd.push_back(def); }
    }
    int nk = e.num_children.value_or(0);
    if (nk == 0) {
      if (root) return true;
      if (!e.type) { err = "leaf '" + e.name + "' without type"; return false; }
      pw::Leaf l; l.path = path; l.type = *e.type; l.type_length = e.type_length.value_or(0); l.rep = *e.repetition; l.max_def = def; l.max_rep = rp; l.rep_def = rd; l.lt = e.lt;
      if (l.type == pq::FIXED_LEN_BYTE_ARRAY && l.type_length <= 0) { err = "FIXED_LEN_BYTE_ARRAY leaf without type_length"; return false; }
      out.push_back(l);
      return true;
    }
    if (e.type) { err = "group '" + e.name + "' carries a physical type"; return false; }
    for (int i = 0; i < nk; i++) if (!rec(path, def, rp, rd, false)) return false;
    return true;
  };
  if (!rec({}, 0, 0, {}, true)) return false;
  if (pos != sch.size()) { err = "schema list has " + std::to_string(sch.size() - pos) + " elements beyond the tree"; return false; }
  return true;
}

inline bool decode_plain(int type, int tl, const uint8_t *p, size_t n, size_t count, std::vector<Bytes> &out, size_t &used, std::string &err) {
  used = 0;
  if (type == pq::BOOLEAN) { size_t nb = (count + 7) / 8; if (n < nb) { err = "PLAIN booleans truncated"; return false; } for (size_t i = 0; i < count; i++) out.push_back(Bytes{(uint8_t)((p[i / 8] >> (i % 8)) & 1)}); used = nb; return true; }
  if (type == pq::BYTE_ARRAY) { for (size_t i = 0; i < count; i++) { if (n - used < 4) { err = "PLAIN byte array length truncated"; return false; } uint32_t L = p[used] | (p[used + 1] << 8) | (p[used + 2] << 16) | ((uint32_t)p[used + 3] << 24); used += 4; if (n - used < L) { err = "PLAIN byte array runs past the page"; return false; } out.emplace_back(p + used, p + used + L); used += L; } return true; }
  size_t w = pw::fixed_width(type, tl);
  if (n < w * count) { err = "PLAIN values truncated (" + std::to_string(n) + " bytes for " + std::to_string(count) + " values of " + std::to_string(w) + ")"; return false; }
  for (size_t i = 0; i < count; i++) out.emplace_back(p + i * w, p + (i + 1) * w);
  used = w * count;
  return true;
}

inline bool read_file(const Bytes &f, FileOut &out, std::string &err, const Strict &st = Strict()) {
  auto fail = [&](const std::string &m) { err = m; return false; };
  if (f.size() < 12) return fail("file shorter than 12 bytes");
  if (memcmp(f.data(), "PAR1", 4) != 0) return fail("leading magic is not PAR1");
  if (memcmp(f.data() + f.size() - 4, "PAR1", 4) != 0) return fail("trailing magic is not PAR1");
  uint32_t flen = f[f.size() - 8] | (f[f.size() - 7] << 8) | (f[f.size() - 6] << 16) | ((uint32_t)f[f.size() - 5] << 24);
  if ((uint64_t)flen + 12 > f.size()) return fail("footer length " + std::to_string(flen) + " exceeds the file");
  out.footer_len = flen; out.footer_off = f.size() - 8 - flen;
  tr::TVal dom; size_t used = 0; std::string e2;
  if (!tr::decode(f.data() + out.footer_off, flen, dom, e2, &used)) return fail("footer is not compact-protocol Thrift: " + e2);
  if (used != flen) return fail("footer length field says " + std::to_string(flen) + " bytes, FileMetaData ends after " + std::to_string(used));
  pq::FromDom fd;
  if (!fd.read(dom, out.meta)) return fail("FileMetaData: " + fd.err);
  if (!leaves_from_schema(out.meta.schema, out.leaves, e2)) return fail("schema: " + e2);
  int64_t rows = 0;
  struct Span { size_t a, b; int g, c; };
  std::vector<Span> spans;
  for (size_t g = 0; g < out.meta.row_groups.size(); g++) {
    const pq::RowGroup &rg = out.meta.row_groups[g];
    if (rg.num_rows <= 0) return fail("row group " + std::to_string(g) + " has num_rows " + std::to_string(rg.num_rows) + " (row groups must be non-empty)");
    rows += rg.num_rows;
    if (rg.columns.size() != out.leaves.size()) return fail("row group " + std::to_string(g) + " has " + std::to_string(rg.columns.size()) + " chunks for " + std::to_string(out.leaves.size()) + " leaf columns");
    std::vector<ChunkOut> chunks;
    int64_t rg_unc = 0;
    for (size_t c = 0; c < rg.columns.size(); c++) {
      const pw::Leaf &lf = out.leaves[c];
      std::string where = "row group " + std::to_string(g) + " column " + std::to_string(c) + ": ";
      if (!rg.columns[c].meta) return fail(where + "no ColumnMetaData");
      const pq::ColumnMetaData &cm = *rg.columns[c].meta;
      if (cm.type != lf.type) return fail(where + "chunk type " + std::to_string(cm.type) + " differs from schema type " + std::to_string(lf.type));
      if (cm.path != lf.path) return fail(where + "path_in_schema differs from the schema path");
      int64_t start64 = cm.dictionary_page_offset && *cm.dictionary_page_offset > 0 && *cm.dictionary_page_offset < cm.data_page_offset ? *cm.dictionary_page_offset : cm.data_page_offset;
      if (start64 < 4 || (uint64_t)start64 > out.footer_off) return fail(where + "chunk starts at " + std::to_string(start64) + ", outside the data region");
      if (cm.total_compressed_size < 0 || (uint64_t)start64 + (uint64_t)cm.total_compressed_size > out.footer_off) return fail(where + "chunk [" + std::to_string(start64) + ", +" + std::to_string(cm.total_compressed_size) + ") runs into the footer");
      ChunkOut co; co.start = (size_t)start64; co.end = co.start + (size_t)cm.total_compressed_size;
      spans.push_back(Span{co.start, co.end, (int)g, (int)c});
      size_t pos = co.start;
      int64_t seen = 0, unc = 0;
      std::vector<Bytes> dict; bool have_dict = false;
      std::set<int> used_enc;
      while (pos < co.end) {
        tr::TVal hd; size_t hl = 0;
        if (!tr::decode(f.data() + pos, co.end - pos, hd, e2, &hl)) return fail(where + "page header at " + std::to_string(pos) + " does not parse: " + e2);
        pq::PageHeader ph; pq::FromDom fh;
        if (!fh.read(hd, ph)) return fail(where + "PageHeader at " + std::to_string(pos) + ": " + fh.err);
        if (ph.compressed_size < 0 || ph.uncompressed_size < 0) return fail(where + "negative page size");
        if (pos + hl + (size_t)ph.compressed_size > co.end) return fail(where + "page at " + std::to_string(pos) + " (header " + std::to_string(hl) + " + body " + std::to_string(ph.compressed_size) + ") runs past the chunk end " + std::to_string(co.end) + ": page sizes do not chain");
        const uint8_t *body = f.data() + pos + hl;
        PageOut po; po.header_off = pos; po.header_len = hl; po.body_off = pos + hl; po.body_len = (size_t)ph.compressed_size; po.hdr = ph; po.first_entry = (size_t)seen;
        if (ph.crc) { uint32_t c32 = (uint32_t)::crc32(::crc32(0L, Z_NULL, 0), body, (uInt)ph.compressed_size); if (c32 != (uint32_t)*ph.crc) return fail(where + "stored CRC " + std::to_string((uint32_t)*ph.crc) + " != IEEE CRC-32 of the stored page bytes " + std::to_string(c32)); }
        Bytes raw;
        if (!decompress(cm.codec, body, (size_t)ph.compressed_size, (size_t)ph.uncompressed_size, raw, e2)) return fail(where + "page at " + std::to_string(pos) + ": " + e2);
        unc += (int64_t)hl + ph.uncompressed_size;
        if (ph.type == pq::DICTIONARY_PAGE) {
          if (!ph.dict) return fail(where + "dictionary page without DictionaryPageHeader");
          if (have_dict || seen > 0) return fail(where + "dictionary page is not the first page of the chunk");
          if (ph.dict->num_values < 0) return fail(where + "negative dictionary size");
          size_t u = 0;
          if (!decode_plain(lf.type, lf.type_length, raw.data(), raw.size(), (size_t)ph.dict->num_values, dict, u, e2)) return fail(where + "dictionary: " + e2);
          if (u != raw.size()) return fail(where + "dictionary page has " + std::to_string(raw.size() - u) + " bytes beyond its values");
          have_dict = true; po.is_dict = true; used_enc.insert(ph.dict->encoding);
        } else if (ph.type == pq::DATA_PAGE) {
          if (!ph.data) return fail(where + "data page without DataPageHeader");
          int32_t nv = ph.data->num_values;
          if (nv < 0) return fail(where + "negative num_values");
          po.num_values = nv;
          size_t off = 0;
          std::vector<uint32_t> rl, dl;
          auto levels = [&](int maxl, std::vector<uint32_t> &o, const char *nm) -> bool {
            if (maxl == 0) return true;
            if (raw.size() - off < 4) { e2 = std::string(nm) + " level length prefix truncated"; return false; }
            uint32_t L = raw[off] | (raw[off + 1] << 8) | (raw[off + 2] << 16) | ((uint32_t)raw[off + 3] << 24); off += 4;
            if (raw.size() - off < L) { e2 = std::string(nm) + " level block (" + std::to_string(L) + " bytes) runs past the page"; return false; }
            std::string e3;
            if (!ref::hybrid_decode(raw.data() + off, L, pw::bits_for_max(maxl), (size_t)nv, o, e3, true)) { e2 = std::string(nm) + " levels: " + e3; return false; }
            for (auto x : o) if ((int)x > maxl) { e2 = std::string(nm) + " level " + std::to_string(x) + " above the maximum " + std::to_string(maxl); return false; }
            off += L; return true;
          };
          if (ph.data->rep_enc != pq::RLE && lf.max_rep) return fail(where + "unsupported repetition level encoding");
          if (ph.data->def_enc != pq::RLE && lf.max_def) return fail(where + "unsupported definition level encoding");
          if (!levels(lf.max_rep, rl, "repetition") || !levels(lf.max_def, dl, "definition")) return fail(where + "page at " + std::to_string(pos) + ": " + e2);
          size_t nn = 0;
          for (int32_t i = 0; i < nv; i++) { int d = lf.max_def ? (int)dl[(size_t)i] : 0; co.def.push_back((int16_t)d); co.rep.push_back(lf.max_rep ? (int16_t)rl[(size_t)i] : 0); if (d == lf.max_def) nn++; }
          used_enc.insert(ph.data->encoding); if (lf.max_def || lf.max_rep) used_enc.insert(pq::RLE);
          if (ph.data->encoding == pq::PLAIN) { size_t u = 0; if (!decode_plain(lf.type, lf.type_length, raw.data() + off, raw.size() - off, nn, co.values, u, e2)) return fail(where + "page at " + std::to_string(pos) + ": " + e2);
            if (off + u != raw.size()) return fail(where + "page at " + std::to_string(pos) + " has " + std::to_string(raw.size() - off - u) + " bytes beyond its " + std::to_string(nn) + " values"); }
          else if (ph.data->encoding == pq::PLAIN_DICTIONARY || ph.data->encoding == pq::RLE_DICTIONARY) {
            if (!have_dict) return fail(where + "dictionary-encoded page without dictionary page");
            if (raw.size() - off < 1) return fail(where + "missing index bit width");
            int wd = raw[off++]; if (wd > 32) return fail(where + "index bit width " + std::to_string(wd));
            std::vector<uint32_t> idx; std::string e3;
            if (!ref::hybrid_decode(raw.data() + off, raw.size() - off, wd, nn, idx, e3, nn > 0)) return fail(where + "dictionary indices: " + e3);
            for (auto x : idx) { if (x >= dict.size()) return fail(where + "dictionary index " + std::to_string(x) + " out of range"); co.values.push_back(dict[x]); }
          } else return fail(where + "unsupported data encoding " + std::to_string(ph.data->encoding));
          if (st.check_page_null_count && ph.data->statistics && ph.data->statistics->null_count && *ph.data->statistics->null_count != (int64_t)((size_t)nv - nn)) return fail(where + "page statistics null_count " + std::to_string(*ph.data->statistics->null_count) + " != " + std::to_string((size_t)nv - nn) + " nulls in the page");
          seen += nv;
        } else return fail(where + "unsupported page type " + std::to_string(ph.type));
        co.pages.push_back(po);
        pos += hl + (size_t)ph.compressed_size;
      }
      if (pos != co.end) return fail(where + "pages end at " + std::to_string(pos) + ", total_compressed_size says " + std::to_string(co.end));
      if (seen != cm.num_values) return fail(where + "pages hold " + std::to_string(seen) + " values, ColumnMetaData.num_values is " + std::to_string(cm.num_values));
      int64_t chunk_rows = 0; for (auto r : co.rep) if (r == 0) chunk_rows++;
      if (chunk_rows != rg.num_rows) return fail(where + "chunk holds " + std::to_string(chunk_rows) + " rows, row group num_rows is " + std::to_string(rg.num_rows));
      if (st.check_total_uncompressed && cm.total_uncompressed_size != unc) return fail(where + "total_uncompressed_size " + std::to_string(cm.total_uncompressed_size) + " != sum over pages of header + uncompressed body = " + std::to_string(unc));
      for (int e : used_enc) if (std::find(cm.encodings.begin(), cm.encodings.end(), e) == cm.encodings.end()) return fail(where + "encoding " + std::to_string(e) + " is used but not listed in ColumnMetaData.encodings");
      rg_unc += cm.total_uncompressed_size;
      chunks.push_back(co);
    }
    if (st.check_rg_total_byte_size && rg.total_byte_size != rg_unc) return fail("row group " + std::to_string(g) + ": total_byte_size " + std::to_string(rg.total_byte_size) + " != sum of the chunks' total_uncompressed_size " + std::to_string(rg_unc));
    out.chunks.push_back(chunks);
  }
  if (rows != out.meta.num_rows) return fail("row groups hold " + std::to_string(rows) + " rows, FileMetaData.num_rows is " + std::to_string(out.meta.num_rows));
  if (st.require_tiling) {
    std::sort(spans.begin(), spans.end(), [](const Span &a, const Span &b) { return a.a < b.a; });
    size_t at = 4;
    for (size_t i = 0; i < spans.size(); i++) {
      if (spans[i].a != at) return fail(std::string(spans[i].a < at ? "overlap" : "gap") + " before the chunk of row group " + std::to_string(spans[i].g) + " column " + std::to_string(spans[i].c) + ": data region continues at " + std::to_string(at) + ", chunk starts at " + std::to_string(spans[i].a));
      if (i && (spans[i].g < spans[i - 1].g || (spans[i].g == spans[i - 1].g && spans[i].c < spans[i - 1].c))) return fail("chunks are not in row-group/column order in the file");
      at = spans[i].b;
    }
    if (at != out.footer_off) return fail("data region ends at " + std::to_string(at) + ", footer starts at " + std::to_string(out.footer_off));
  }
  return true;
}

}  // namespace prd
