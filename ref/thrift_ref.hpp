// Independent Thrift compact-protocol codec over a generic DOM, written from
// the Thrift compact protocol specification (thrift/doc/specs/thrift-compact-protocol.md).
// No carquet code.  The encoder exposes the freedom the protocol allows
// (long-form field headers, long-form list sizes, arbitrary field order).
#pragma once
#include <cstdint>
#include <cstring>
#include <memory>
#include <string>
#include <vector>

namespace tr {
typedef std::vector<uint8_t> Bytes;

enum : int { T_STOP = 0, T_TRUE = 1, T_FALSE = 2, T_BYTE = 3, T_I16 = 4, T_I32 = 5, T_I64 = 6, T_DOUBLE = 7, T_BINARY = 8, T_LIST = 9, T_SET = 10, T_MAP = 11, T_STRUCT = 12 };

struct TVal;
struct TField {
  int16_t id = 0;
  std::shared_ptr<TVal> v;
  bool long_form = false;     // encoder: force the explicit-id header
};
struct TVal {
  int type = T_STOP;          // for bools: T_TRUE (value in b)
  bool b = false;
  int64_t i = 0;              // BYTE / I16 / I32 / I64
  uint64_t dbits = 0;         // DOUBLE
  Bytes bin;                  // BINARY
  int etype = T_STOP;         // LIST / SET element type
  std::vector<TVal> elems;
  int ktype = T_STOP, vtype = T_STOP;   // MAP
  std::vector<std::pair<TVal, TVal>> kv;
  std::vector<TField> fields; // STRUCT
  bool long_size = false;     // encoder: LIST/SET size as varint even when < 15

  static TVal Bool(bool x) { TVal v; v.type = T_TRUE; v.b = x; return v; }
  static TVal Int(int t, int64_t x) { TVal v; v.type = t; v.i = x; return v; }
  static TVal Dbl(uint64_t bits) { TVal v; v.type = T_DOUBLE; v.dbits = bits; return v; }
  static TVal Bin(const Bytes &b) { TVal v; v.type = T_BINARY; v.bin = b; return v; }
  static TVal Str(const std::string &s) { TVal v; v.type = T_BINARY; v.bin.assign(s.begin(), s.end()); return v; }
  static TVal List(int et) { TVal v; v.type = T_LIST; v.etype = et; return v; }
  static TVal Struct() { TVal v; v.type = T_STRUCT; return v; }
  TVal &add(int16_t id, const TVal &x, bool lf = false) { TField f; f.id = id; f.v = std::make_shared<TVal>(x); f.long_form = lf; fields.push_back(f); return *this; }
  const TVal *get(int16_t id) const { for (auto &f : fields) if (f.id == id) return f.v.get(); return nullptr; }
};

inline int wire_type(const TVal &v) { return v.type == T_TRUE || v.type == T_FALSE ? (v.b ? T_TRUE : T_FALSE) : v.type; }
// element type nibble for containers: bools are type 1 (some writers use 2; both are accepted by readers)
inline int elem_wire(int t) { return t == T_FALSE ? T_TRUE : t; }

inline void put_varint(Bytes &o, uint64_t v) { while (v >= 0x80) { o.push_back((uint8_t)(v | 0x80)); v >>= 7; } o.push_back((uint8_t)v); }
inline uint64_t zz(int64_t v) { return ((uint64_t)v << 1) ^ (uint64_t)(v >> 63); }
inline int64_t unzz(uint64_t u) { return (int64_t)(u >> 1) ^ -(int64_t)(u & 1); }

inline void encode_value(Bytes &o, const TVal &v, bool in_container);
inline void encode_struct(Bytes &o, const TVal &s) {
  int16_t last = 0;
  for (auto &f : s.fields) {
    int wt = wire_type(*f.v);
    int delta = (int)f.id - (int)last;
    if (!f.long_form && delta > 0 && delta <= 15) o.push_back((uint8_t)((delta << 4) | wt));
    else { o.push_back((uint8_t)wt); put_varint(o, zz(f.id)); }
    last = f.id;
    if (wt != T_TRUE && wt != T_FALSE) encode_value(o, *f.v, false);
  }
  o.push_back(0);
}
inline void encode_value(Bytes &o, const TVal &v, bool in_container) {
  switch (v.type) {
    case T_TRUE: case T_FALSE: if (in_container) o.push_back(v.b ? 1 : 2); break;   // field bools live in the header
    case T_BYTE: o.push_back((uint8_t)v.i); break;
    case T_I16: case T_I32: case T_I64: put_varint(o, zz(v.i)); break;
    case T_DOUBLE: for (int k = 0; k < 8; k++) o.push_back((uint8_t)(v.dbits >> (8 * k))); break;
    case T_BINARY: put_varint(o, v.bin.size()); o.insert(o.end(), v.bin.begin(), v.bin.end()); break;
    case T_LIST: case T_SET: {
      size_t n = v.elems.size();
      if (n < 15 && !v.long_size) o.push_back((uint8_t)((n << 4) | elem_wire(v.etype)));
      else { o.push_back((uint8_t)(0xF0 | elem_wire(v.etype))); put_varint(o, n); }
      for (auto &e : v.elems) encode_value(o, e, true);
      break;
    }
    case T_MAP: {
      put_varint(o, v.kv.size());
      if (!v.kv.empty()) { o.push_back((uint8_t)((elem_wire(v.ktype) << 4) | elem_wire(v.vtype))); for (auto &p : v.kv) { encode_value(o, p.first, true); encode_value(o, p.second, true); } }
      break;
    }
    case T_STRUCT: encode_struct(o, v); break;
    default: break;
  }
}
inline Bytes encode(const TVal &s) { Bytes o; encode_struct(o, s); return o; }

struct Decoder {
  const uint8_t *p, *end;
  std::string err;
  int depth = 0;
  bool fail(const std::string &m) { if (err.empty()) err = m; return false; }
  bool varint(uint64_t &v) {
    v = 0;
    for (int sh = 0; sh < 70; sh += 7) { if (p >= end) return fail("truncated varint"); uint8_t b = *p++; if (sh < 64) v |= (uint64_t)(b & 0x7f) << sh; if (!(b & 0x80)) return true; }
    return fail("varint too long");
  }
  bool value(int t, TVal &v, bool in_container) {
    v = TVal();
    v.type = t;
    if (++depth > 64) return fail("nesting too deep");
    bool ok = value2(t, v, in_container);
    depth--;
    return ok;
  }
  bool value2(int t, TVal &v, bool in_container) {
    uint64_t u;
    switch (t) {
      case T_TRUE: case T_FALSE:
        v.type = T_TRUE;
        if (in_container) { if (p >= end) return fail("truncated bool"); uint8_t b = *p++; if (b != 1 && b != 2) return fail("bool element is neither 1 nor 2"); v.b = b == 1; }
        else v.b = t == T_TRUE;
        return true;
      case T_BYTE: if (p >= end) return fail("truncated byte"); v.i = (int8_t)*p++; return true;
      case T_I16: case T_I32: case T_I64: if (!varint(u)) return false; v.i = unzz(u); return true;
      case T_DOUBLE: if (end - p < 8) return fail("truncated double"); for (int k = 0; k < 8; k++) v.dbits |= (uint64_t)p[k] << (8 * k); p += 8; return true;
      case T_BINARY: if (!varint(u)) return false; if ((uint64_t)(end - p) < u) return fail("binary runs past the input"); v.bin.assign(p, p + u); p += u; return true;
      case T_LIST: case T_SET: {
        if (p >= end) return fail("truncated list header");
        uint8_t h = *p++;
        v.etype = h & 15;
        uint64_t n = h >> 4;
        if (n == 15) { if (!varint(n)) return false; v.long_size = true; }
        if (n > (uint64_t)(end - p) + 1 && v.etype != T_STRUCT) return fail("list longer than the input");
        if (n > 10000000) return fail("absurd list size");
        for (uint64_t k = 0; k < n; k++) { TVal e; if (!value(v.etype, e, true)) return false; v.elems.push_back(e); }
        return true;
      }
      case T_MAP: {
        if (!varint(u)) return false;
        if (u == 0) return true;
        if (p >= end) return fail("truncated map header");
        uint8_t h = *p++;
        v.ktype = h >> 4; v.vtype = h & 15;
        if (u > (uint64_t)(end - p)) return fail("map longer than the input");
        for (uint64_t k = 0; k < u; k++) { TVal a, b; if (!value(v.ktype, a, true) || !value(v.vtype, b, true)) return false; v.kv.emplace_back(a, b); }
        return true;
      }
      case T_STRUCT: return strct(v);
      default: return fail("unknown wire type " + std::to_string(t));
    }
  }
  bool strct(TVal &s) {
    s.type = T_STRUCT;
    int16_t last = 0;
    for (;;) {
      if (p >= end) return fail("struct not terminated");
      uint8_t h = *p++;
      if (h == 0) return true;
      int wt = h & 15, delta = h >> 4;
      TField f;
      if (delta == 0) { uint64_t u; if (!varint(u)) return false; f.id = (int16_t)unzz(u); f.long_form = true; }
      else f.id = (int16_t)(last + delta);
      last = f.id;
      TVal v;
      if (!value(wt, v, false)) return false;
      f.v = std::make_shared<TVal>(v);
      s.fields.push_back(f);
    }
  }
};
// decodes one struct starting at data; *consumed = bytes used
inline bool decode(const uint8_t *data, size_t n, TVal &out, std::string &err, size_t *consumed = nullptr) {
  Decoder d{data, data + n};
  bool ok = d.strct(out);
  err = d.err;
  if (consumed) *consumed = (size_t)(d.p - data);
  return ok;
}

// structural equality (ignores encoder hints)
inline bool equal(const TVal &a, const TVal &b, std::string &why, const std::string &path = "");
inline bool equal(const TVal &a, const TVal &b, std::string &why, const std::string &path) {
  auto no = [&](const std::string &m) { if (why.empty()) why = path + ": " + m; return false; };
  int ta = a.type == T_FALSE ? T_TRUE : a.type, tb = b.type == T_FALSE ? T_TRUE : b.type;
  if (ta != tb) return no("wire type " + std::to_string(ta) + " vs " + std::to_string(tb));
  switch (ta) {
    case T_TRUE: return a.b == b.b ? true : no("bool differs");
    case T_BYTE: case T_I16: case T_I32: case T_I64: return a.i == b.i ? true : no("integer " + std::to_string(a.i) + " vs " + std::to_string(b.i));
    case T_DOUBLE: return a.dbits == b.dbits ? true : no("double differs");
    case T_BINARY: return a.bin == b.bin ? true : no("binary differs (" + std::to_string(a.bin.size()) + " vs " + std::to_string(b.bin.size()) + " bytes)");
    case T_LIST: case T_SET:
      if (a.elems.size() != b.elems.size()) return no("list size " + std::to_string(a.elems.size()) + " vs " + std::to_string(b.elems.size()));
      if (!a.elems.empty() && elem_wire(a.etype) != elem_wire(b.etype)) return no("element type differs");
      for (size_t i = 0; i < a.elems.size(); i++) if (!equal(a.elems[i], b.elems[i], why, path + "[" + std::to_string(i) + "]")) return false;
      return true;
    case T_MAP:
      if (a.kv.size() != b.kv.size()) return no("map size differs");
      for (size_t i = 0; i < a.kv.size(); i++) if (!equal(a.kv[i].first, b.kv[i].first, why, path + "{k}") || !equal(a.kv[i].second, b.kv[i].second, why, path + "{v}")) return false;
      return true;
    case T_STRUCT:
      if (a.fields.size() != b.fields.size()) {
        std::string ia, ib; for (auto &f : a.fields) ia += std::to_string(f.id) + ","; for (auto &f : b.fields) ib += std::to_string(f.id) + ",";
        return no("field ids {" + ia + "} vs {" + ib + "}");
      }
      for (size_t i = 0; i < a.fields.size(); i++) {
        if (a.fields[i].id != b.fields[i].id) return no("field id " + std::to_string(a.fields[i].id) + " vs " + std::to_string(b.fields[i].id));
        if (!equal(*a.fields[i].v, *b.fields[i].v, why, path + "." + std::to_string(a.fields[i].id))) return false;
      }
      return true;
    default: return true;
  }
}

}  // namespace tr
