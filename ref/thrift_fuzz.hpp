// Encoder freedoms and unknown-field injection for Thrift DOMs (shared by C13 and the reference Parquet writer).
// Everything is a pure function of the seed.
#pragma once
#include <set>
#include <string>
#include "ref/thrift_ref.hpp"

namespace tf {
using tr::TVal;
using tr::TField;
typedef tr::Bytes Bytes;
// unknown-field payloads of every wire type, derived from the seed
inline std::set<std::string> &feat();
inline TVal unknownValue(uint64_t &s, int depth) {
  uint64_t r = (s ^= s << 13, s ^= s >> 7, s ^= s << 17, s);
  // rarely a chain of nested structs / lists 4..16 deep (below carquet's documented nesting limit of 32 even inside the
  // deepest known structure): a reader must skip it like any other unknown value
  if (depth == 0 && (r >> 40) % 24 == 0) {
    int d = 4 + (int)((r >> 48) % 13);
    TVal inner = TVal::Int(tr::T_I32, 7);
    for (int i = 0; i < d; i++) {
      if ((r >> (i % 30)) & 1) { TVal st = TVal::Struct(); st.add((int16_t)(1 + i % 3), inner); inner = st; }
      else { TVal l = TVal::List(inner.type == tr::T_FALSE ? tr::T_TRUE : inner.type); l.elems.push_back(inner); inner = l; }
    }
    feat().insert("unknown_nesting>=4");
    return inner;
  }
  unsigned sel = (unsigned)((r >> 8) % (depth > 2 ? 8 : 12));
  switch (sel) {
    case 0: return TVal::Bool(true);
    case 1: return TVal::Bool(false);
    case 2: return TVal::Int(tr::T_BYTE, (int8_t)(r >> 16));
    case 3: return TVal::Int(tr::T_I16, (int16_t)(r >> 16));
    case 4: return TVal::Int(tr::T_I32, (r & 1) ? INT32_MIN : (int32_t)(r >> 16));
    case 5: return TVal::Int(tr::T_I64, (r & 1) ? INT64_MIN : (r & 2) ? INT64_MAX : (int64_t)r);
    case 6: return TVal::Dbl(r);
    case 7: { Bytes b; for (int i = 0; i < (int)((r >> 20) % 40); i++) b.push_back((uint8_t)(r >> (i % 50))); return TVal::Bin(b); }
    case 8: { TVal st = TVal::Struct(); int n = (int)((r >> 20) % 4); int16_t id = 0; for (int i = 0; i < n; i++) { id = (int16_t)(id + 1 + (r >> (24 + i)) % 20); st.add(id, unknownValue(s, depth + 1)); } return st; }
    case 9: case 10: { static const int ets[] = {tr::T_TRUE, tr::T_BYTE, tr::T_I16, tr::T_I32, tr::T_I64, tr::T_DOUBLE, tr::T_BINARY, tr::T_STRUCT, tr::T_LIST, tr::T_MAP, tr::T_SET};
      TVal l = TVal::List(ets[(r >> 20) % 11]); if (((r >> 8) % 12) == 10) l.type = tr::T_SET;
      int n = (int)((r >> 28) % 3 == 0 ? 14 + (r >> 32) % 4 : (r >> 32) % 5);
      for (int i = 0; i < n; i++) { TVal e;
        for (int tries = 0; tries < 50; tries++) { e = unknownValue(s, depth + 1); int wt = e.type == tr::T_FALSE ? tr::T_TRUE : e.type; if (wt == l.etype) break; e = TVal(); }
        if (e.type == tr::T_STOP) { // could not draw the wanted type: synthesise
          switch (l.etype) { case tr::T_TRUE: e = TVal::Bool(i & 1); break; case tr::T_STRUCT: e = TVal::Struct(); break; case tr::T_LIST: e = TVal::List(tr::T_I32); break; case tr::T_SET: e = TVal::List(tr::T_I32); e.type = tr::T_SET; break;
            case tr::T_MAP: e.type = tr::T_MAP; break; case tr::T_DOUBLE: e = TVal::Dbl(i); break; case tr::T_BINARY: e = TVal::Bin(Bytes(i, 7)); break; default: e = TVal::Int(l.etype, i - 2); } }
        l.elems.push_back(e); }
      return l; }
    default: { TVal m; m.type = tr::T_MAP; m.ktype = tr::T_I32; m.vtype = (r & 4) ? tr::T_TRUE : tr::T_BINARY; int n = (int)((r >> 20) % 4);
      for (int i = 0; i < n; i++) m.kv.emplace_back(TVal::Int(tr::T_I32, i * 1000 - 5), (r & 4) ? TVal::Bool(i & 1) : TVal::Bin(Bytes(i + 1, 9)));
      return m; }
  }
}
inline std::set<std::string> &feat() { static std::set<std::string> f; return f; }
// rewrite a DOM with encoder freedoms and unknown fields (ids that parquet.thrift does not use: >= 40)
inline TVal decorate(const TVal &v, uint64_t &s, int inject, int depth) {
  TVal o = v;
  if (v.type == tr::T_STRUCT) {
    o.fields.clear();
    int16_t last = 0;
    for (auto &f : v.fields) {
      uint64_t r = (s ^= s << 13, s ^= s >> 7, s ^= s << 17, s);
      TField nf = f;
      nf.v = std::make_shared<TVal>(decorate(*f.v, s, inject, depth + 1));
      if (inject >= 2 && (r & 7) == 0) { nf.long_form = true; feat().insert("long_form_field_header"); }
      if (f.id - last > 15) feat().insert("field_id_gap>15");
      last = f.id;
      o.fields.push_back(nf);
    }
    if (inject >= 1) {
      uint64_t r = (s ^= s << 13, s ^= s >> 7, s ^= s << 17, s);
      int n = (int)(r % 3);
      int16_t id = (int16_t)std::max<int>(last, 39);
      for (int i = 0; i < n; i++) {
        id = (int16_t)(id + 1 + (r >> (8 + 4 * i)) % 40);
        TVal u = unknownValue(s, depth);
        o.add(id, u);
        feat().insert("field_id_gap>15");
        feat().insert(depth == 0 ? "unknown_field_top_level" : "unknown_field_in_nested_struct");
        static const char *tn[] = {"", "bool", "bool", "byte", "i16", "i32", "i64", "double", "binary", "list", "set", "map", "struct"};
        feat().insert(std::string("unknown_") + tn[u.type]);
        if ((u.type == tr::T_LIST || u.type == tr::T_SET) && u.etype == tr::T_TRUE && !u.elems.empty()) feat().insert("unknown_list_of_bool");
      }
    }
  } else if (v.type == tr::T_LIST) {
    o.elems.clear();
    for (auto &e : v.elems) o.elems.push_back(decorate(e, s, inject, depth + 1));
    if (inject >= 3 && v.elems.size() < 15) { o.long_size = true; feat().insert("list_size_long_form"); }
    if (v.elems.size() >= 15) feat().insert("list>=15");
  }
  return o;
}
}  // namespace tf
