// Parquet metadata model (FileMetaData, PageHeader, ...) as plain C++ values,
// with conversion to and from the generic Thrift DOM.  Field ids and enum
// values are taken from parquet.thrift (parquet-format 2.x).  No carquet code.
#pragma once
#include <optional>
#include "ref/thrift_ref.hpp"

namespace pq {
using tr::Bytes;
using tr::TVal;
template <class T> using Opt = std::optional<T>;

// parquet.thrift enums
enum Type : int { BOOLEAN = 0, INT32 = 1, INT64 = 2, INT96 = 3, FLOAT = 4, DOUBLE = 5, BYTE_ARRAY = 6, FIXED_LEN_BYTE_ARRAY = 7 };
enum Rep : int { REQUIRED = 0, OPTIONAL = 1, REPEATED = 2 };
enum Enc : int { PLAIN = 0, PLAIN_DICTIONARY = 2, RLE = 3, BIT_PACKED = 4, DELTA_BINARY_PACKED = 5, DELTA_LENGTH_BYTE_ARRAY = 6, DELTA_BYTE_ARRAY = 7, RLE_DICTIONARY = 8, BYTE_STREAM_SPLIT = 9 };
enum Codec : int { UNCOMPRESSED = 0, SNAPPY = 1, GZIP = 2, LZO = 3, BROTLI = 4, LZ4 = 5, ZSTD = 6, LZ4_RAW = 7 };
enum PageType : int { DATA_PAGE = 0, INDEX_PAGE = 1, DICTIONARY_PAGE = 2, DATA_PAGE_V2 = 3 };

struct LogicalType {
  int kind = 0;   // 0 = absent; otherwise the union field id: 1 STRING 2 MAP 3 LIST 4 ENUM 5 DECIMAL 6 DATE 7 TIME 8 TIMESTAMP 10 INTEGER 11 UNKNOWN 12 JSON 13 BSON 14 UUID 15 FLOAT16
  int32_t scale = 0, precision = 0;
  bool utc = false;
  int unit = 1;   // 1 MILLIS 2 MICROS 3 NANOS
  int bit_width = 0;
  bool is_signed = false;
};
struct SchemaElement {
  Opt<int32_t> type, type_length, repetition;
  std::string name;
  Opt<int32_t> num_children, converted_type, scale, precision, field_id;
  LogicalType lt;
};
struct Statistics {
  Opt<Bytes> max, min, max_value, min_value;
  Opt<int64_t> null_count, distinct_count;
  Opt<bool> is_max_value_exact, is_min_value_exact;
};
struct KeyValue { std::string key; Opt<std::string> value; };
struct PageEncodingStats { int32_t page_type = 0, encoding = 0, count = 0; };
struct ColumnMetaData {
  int32_t type = 0;
  std::vector<int32_t> encodings;
  std::vector<std::string> path;
  int32_t codec = 0;
  int64_t num_values = 0, total_uncompressed_size = 0, total_compressed_size = 0;
  Opt<std::vector<KeyValue>> key_value;
  int64_t data_page_offset = 0;
  Opt<int64_t> index_page_offset, dictionary_page_offset;
  Opt<Statistics> statistics;
  Opt<std::vector<PageEncodingStats>> encoding_stats;
  Opt<int64_t> bloom_filter_offset;
  Opt<int32_t> bloom_filter_length;
};
struct ColumnChunk {
  Opt<std::string> file_path;
  int64_t file_offset = 0;
  Opt<ColumnMetaData> meta;
  Opt<int64_t> offset_index_offset, column_index_offset;
  Opt<int32_t> offset_index_length, column_index_length;
};
struct RowGroup {
  std::vector<ColumnChunk> columns;
  int64_t total_byte_size = 0, num_rows = 0;
  Opt<int64_t> file_offset, total_compressed_size;
  Opt<int16_t> ordinal;
};
struct FileMetaData {
  int32_t version = 1;
  std::vector<SchemaElement> schema;
  int64_t num_rows = 0;
  std::vector<RowGroup> row_groups;
  Opt<std::vector<KeyValue>> key_value;
  Opt<std::string> created_by;
};
struct DataPageHeader { int32_t num_values = 0, encoding = 0, def_enc = RLE, rep_enc = RLE; Opt<Statistics> statistics; };
struct DictPageHeader { int32_t num_values = 0, encoding = 0; Opt<bool> is_sorted; };
struct DataPageHeaderV2 { int32_t num_values = 0, num_nulls = 0, num_rows = 0, encoding = 0, def_len = 0, rep_len = 0; Opt<bool> is_compressed; Opt<Statistics> statistics; };
struct PageHeader {
  int32_t type = 0, uncompressed_size = 0, compressed_size = 0;
  Opt<int32_t> crc;
  Opt<DataPageHeader> data;
  Opt<DictPageHeader> dict;
  Opt<DataPageHeaderV2> v2;
};

// ------------------------------------------------------------------ to DOM
inline TVal I32(int64_t v) { return TVal::Int(tr::T_I32, v); }
inline TVal I64(int64_t v) { return TVal::Int(tr::T_I64, v); }
inline TVal dom(const LogicalType &l) {
  TVal u = TVal::Struct(), in = TVal::Struct();
  auto unitv = [&]() { TVal t = TVal::Struct(); t.add((int16_t)l.unit, TVal::Struct()); return t; };
  if (l.kind == 5) { in.add(1, I32(l.scale)); in.add(2, I32(l.precision)); }
  else if (l.kind == 7 || l.kind == 8) { in.add(1, TVal::Bool(l.utc)); in.add(2, unitv()); }
  else if (l.kind == 10) { in.add(1, TVal::Int(tr::T_BYTE, (int8_t)l.bit_width)); in.add(2, TVal::Bool(l.is_signed)); }
  u.add((int16_t)l.kind, in);
  return u;
}
inline TVal dom(const SchemaElement &e) {
  TVal s = TVal::Struct();
  if (e.type) s.add(1, I32(*e.type));
  if (e.type_length) s.add(2, I32(*e.type_length));
  if (e.repetition) s.add(3, I32(*e.repetition));
  s.add(4, TVal::Str(e.name));
  if (e.num_children) s.add(5, I32(*e.num_children));
  if (e.converted_type) s.add(6, I32(*e.converted_type));
  if (e.scale) s.add(7, I32(*e.scale));
  if (e.precision) s.add(8, I32(*e.precision));
  if (e.field_id) s.add(9, I32(*e.field_id));
  if (e.lt.kind) s.add(10, dom(e.lt));
  return s;
}
inline TVal dom(const Statistics &st) {
  TVal s = TVal::Struct();
  if (st.max) s.add(1, TVal::Bin(*st.max));
  if (st.min) s.add(2, TVal::Bin(*st.min));
  if (st.null_count) s.add(3, I64(*st.null_count));
  if (st.distinct_count) s.add(4, I64(*st.distinct_count));
  if (st.max_value) s.add(5, TVal::Bin(*st.max_value));
  if (st.min_value) s.add(6, TVal::Bin(*st.min_value));
  if (st.is_max_value_exact) s.add(7, TVal::Bool(*st.is_max_value_exact));
  if (st.is_min_value_exact) s.add(8, TVal::Bool(*st.is_min_value_exact));
  return s;
}
inline TVal dom(const std::vector<KeyValue> &kv) {
  TVal l = TVal::List(tr::T_STRUCT);
  for (auto &k : kv) { TVal s = TVal::Struct(); s.add(1, TVal::Str(k.key)); if (k.value) s.add(2, TVal::Str(*k.value)); l.elems.push_back(s); }
  return l;
}
inline TVal dom(const ColumnMetaData &m) {
  TVal s = TVal::Struct();
  s.add(1, I32(m.type));
  TVal e = TVal::List(tr::T_I32); for (auto x : m.encodings) e.elems.push_back(I32(x)); s.add(2, e);
  TVal p = TVal::List(tr::T_BINARY); for (auto &x : m.path) p.elems.push_back(TVal::Str(x)); s.add(3, p);
  s.add(4, I32(m.codec)); s.add(5, I64(m.num_values)); s.add(6, I64(m.total_uncompressed_size)); s.add(7, I64(m.total_compressed_size));
  if (m.key_value) s.add(8, dom(*m.key_value));
  s.add(9, I64(m.data_page_offset));
  if (m.index_page_offset) s.add(10, I64(*m.index_page_offset));
  if (m.dictionary_page_offset) s.add(11, I64(*m.dictionary_page_offset));
  if (m.statistics) s.add(12, dom(*m.statistics));
  if (m.encoding_stats) { TVal l = TVal::List(tr::T_STRUCT); for (auto &x : *m.encoding_stats) { TVal t = TVal::Struct(); t.add(1, I32(x.page_type)); t.add(2, I32(x.encoding)); t.add(3, I32(x.count)); l.elems.push_back(t); } s.add(13, l); }
  if (m.bloom_filter_offset) s.add(14, I64(*m.bloom_filter_offset));
  if (m.bloom_filter_length) s.add(15, I32(*m.bloom_filter_length));
  return s;
}
inline TVal dom(const ColumnChunk &c) {
  TVal s = TVal::Struct();
  if (c.file_path) s.add(1, TVal::Str(*c.file_path));
  s.add(2, I64(c.file_offset));
  if (c.meta) s.add(3, dom(*c.meta));
  if (c.offset_index_offset) s.add(4, I64(*c.offset_index_offset));
  if (c.offset_index_length) s.add(5, I32(*c.offset_index_length));
  if (c.column_index_offset) s.add(6, I64(*c.column_index_offset));
  if (c.column_index_length) s.add(7, I32(*c.column_index_length));
  return s;
}
inline TVal dom(const RowGroup &g) {
  TVal s = TVal::Struct();
  TVal l = TVal::List(tr::T_STRUCT); for (auto &c : g.columns) l.elems.push_back(dom(c)); s.add(1, l);
  s.add(2, I64(g.total_byte_size)); s.add(3, I64(g.num_rows));
  if (g.file_offset) s.add(5, I64(*g.file_offset));
  if (g.total_compressed_size) s.add(6, I64(*g.total_compressed_size));
  if (g.ordinal) s.add(7, TVal::Int(tr::T_I16, *g.ordinal));
  return s;
}
inline TVal dom(const FileMetaData &f) {
  TVal s = TVal::Struct();
  s.add(1, I32(f.version));
  TVal l = TVal::List(tr::T_STRUCT); for (auto &e : f.schema) l.elems.push_back(dom(e)); s.add(2, l);
  s.add(3, I64(f.num_rows));
  TVal r = TVal::List(tr::T_STRUCT); for (auto &g : f.row_groups) r.elems.push_back(dom(g)); s.add(4, r);
  if (f.key_value) s.add(5, dom(*f.key_value));
  if (f.created_by) s.add(6, TVal::Str(*f.created_by));
  return s;
}
inline TVal dom(const PageHeader &h) {
  TVal s = TVal::Struct();
  s.add(1, I32(h.type)); s.add(2, I32(h.uncompressed_size)); s.add(3, I32(h.compressed_size));
  if (h.crc) s.add(4, I32(*h.crc));
  if (h.data) { TVal d = TVal::Struct(); d.add(1, I32(h.data->num_values)); d.add(2, I32(h.data->encoding)); d.add(3, I32(h.data->def_enc)); d.add(4, I32(h.data->rep_enc)); if (h.data->statistics) d.add(5, dom(*h.data->statistics)); s.add(5, d); }
  if (h.dict) { TVal d = TVal::Struct(); d.add(1, I32(h.dict->num_values)); d.add(2, I32(h.dict->encoding)); if (h.dict->is_sorted) d.add(3, TVal::Bool(*h.dict->is_sorted)); s.add(7, d); }
  if (h.v2) { TVal d = TVal::Struct(); d.add(1, I32(h.v2->num_values)); d.add(2, I32(h.v2->num_nulls)); d.add(3, I32(h.v2->num_rows)); d.add(4, I32(h.v2->encoding)); d.add(5, I32(h.v2->def_len)); d.add(6, I32(h.v2->rep_len));
    if (h.v2->is_compressed) d.add(7, TVal::Bool(*h.v2->is_compressed)); if (h.v2->statistics) d.add(8, dom(*h.v2->statistics)); s.add(8, d); }
  return s;
}

// ---------------------------------------------------------------- from DOM
// Strict reader: wrong wire types and missing required fields are errors.
struct FromDom {
  std::string err;
  bool fail(const std::string &m) { if (err.empty()) err = m; return false; }
  bool i32(const TVal *v, int32_t &o, const char *n) { if (!v) return fail(std::string("required field missing: ") + n); if (v->type != tr::T_I32) return fail(std::string(n) + ": wire type is not i32"); o = (int32_t)v->i; return true; }
  bool i64(const TVal *v, int64_t &o, const char *n) { if (!v) return fail(std::string("required field missing: ") + n); if (v->type != tr::T_I64) return fail(std::string(n) + ": wire type is not i64"); o = v->i; return true; }
  template <class T> bool oi(const TVal *v, Opt<T> &o, int wt, const char *n) { if (!v) return true; if (v->type != wt) return fail(std::string(n) + ": unexpected wire type"); o = (T)v->i; return true; }
  bool ob(const TVal *v, Opt<bool> &o, const char *n) { if (!v) return true; if (v->type != tr::T_TRUE) return fail(std::string(n) + ": not a bool"); o = v->b; return true; }
  bool obin(const TVal *v, Opt<Bytes> &o, const char *n) { if (!v) return true; if (v->type != tr::T_BINARY) return fail(std::string(n) + ": not binary"); o = v->bin; return true; }
  bool str(const TVal *v, std::string &o, const char *n) { if (!v) return fail(std::string("required field missing: ") + n); if (v->type != tr::T_BINARY) return fail(std::string(n) + ": not binary"); o.assign(v->bin.begin(), v->bin.end()); return true; }
  bool ostr(const TVal *v, Opt<std::string> &o, const char *n) { if (!v) return true; std::string s; if (!str(v, s, n)) return false; o = s; return true; }
  bool list(const TVal *v, int et, const char *n) { if (!v) return fail(std::string("required field missing: ") + n); if (v->type != tr::T_LIST) return fail(std::string(n) + ": not a list"); if (!v->elems.empty() && tr::elem_wire(v->etype) != et) return fail(std::string(n) + ": wrong element type"); return true; }

  bool read(const TVal &s, Statistics &st) {
    return obin(s.get(1), st.max, "max") && obin(s.get(2), st.min, "min") && oi(s.get(3), st.null_count, tr::T_I64, "null_count") && oi(s.get(4), st.distinct_count, tr::T_I64, "distinct_count") &&
           obin(s.get(5), st.max_value, "max_value") && obin(s.get(6), st.min_value, "min_value") && ob(s.get(7), st.is_max_value_exact, "is_max_value_exact") && ob(s.get(8), st.is_min_value_exact, "is_min_value_exact");
  }
  bool read(const TVal &s, LogicalType &l) {
    if (s.fields.size() != 1) return fail("LogicalType union must have exactly one field");
    l.kind = s.fields[0].id;
    const TVal &in = *s.fields[0].v;
    if (in.type != tr::T_STRUCT) return fail("LogicalType member is not a struct");
    if (l.kind == 5) { return i32(in.get(1), l.scale, "decimal.scale") && i32(in.get(2), l.precision, "decimal.precision"); }
    if (l.kind == 7 || l.kind == 8) {
      const TVal *a = in.get(1), *u = in.get(2);
      if (!a || a->type != tr::T_TRUE) return fail("isAdjustedToUTC missing or not bool");
      l.utc = a->b;
      if (!u || u->type != tr::T_STRUCT || u->fields.size() != 1) return fail("TimeUnit union malformed");
      l.unit = u->fields[0].id;
      return true;
    }
    if (l.kind == 10) {
      const TVal *w = in.get(1), *sg = in.get(2);
      if (!w || w->type != tr::T_BYTE) return fail("IntType.bitWidth missing or not byte");
      if (!sg || sg->type != tr::T_TRUE) return fail("IntType.isSigned missing or not bool");
      l.bit_width = (int)w->i; l.is_signed = sg->b;
      return true;
    }
    return true;
  }
  bool read(const TVal &s, SchemaElement &e) {
    if (!oi(s.get(1), e.type, tr::T_I32, "type") || !oi(s.get(2), e.type_length, tr::T_I32, "type_length") || !oi(s.get(3), e.repetition, tr::T_I32, "repetition_type")) return false;
    if (!str(s.get(4), e.name, "SchemaElement.name")) return false;
    if (!oi(s.get(5), e.num_children, tr::T_I32, "num_children") || !oi(s.get(6), e.converted_type, tr::T_I32, "converted_type") || !oi(s.get(7), e.scale, tr::T_I32, "scale") ||
        !oi(s.get(8), e.precision, tr::T_I32, "precision") || !oi(s.get(9), e.field_id, tr::T_I32, "field_id")) return false;
    if (const TVal *l = s.get(10)) { if (l->type != tr::T_STRUCT) return fail("logicalType not a struct"); if (!read(*l, e.lt)) return false; }
    return true;
  }
  bool read(const TVal *v, std::vector<KeyValue> &kv, const char *n) {
    if (!list(v, tr::T_STRUCT, n)) return false;
    for (auto &e : v->elems) { KeyValue k; if (!str(e.get(1), k.key, "KeyValue.key") || !ostr(e.get(2), k.value, "KeyValue.value")) return false; kv.push_back(k); }
    return true;
  }
  bool read(const TVal &s, ColumnMetaData &m) {
    if (!i32(s.get(1), m.type, "ColumnMetaData.type")) return false;
    if (!list(s.get(2), tr::T_I32, "ColumnMetaData.encodings")) return false;
    for (auto &e : s.get(2)->elems) m.encodings.push_back((int32_t)e.i);
    if (!list(s.get(3), tr::T_BINARY, "ColumnMetaData.path_in_schema")) return false;
    for (auto &e : s.get(3)->elems) m.path.emplace_back(e.bin.begin(), e.bin.end());
    if (!i32(s.get(4), m.codec, "ColumnMetaData.codec") || !i64(s.get(5), m.num_values, "ColumnMetaData.num_values") || !i64(s.get(6), m.total_uncompressed_size, "ColumnMetaData.total_uncompressed_size") ||
        !i64(s.get(7), m.total_compressed_size, "ColumnMetaData.total_compressed_size") || !i64(s.get(9), m.data_page_offset, "ColumnMetaData.data_page_offset")) return false;
    if (s.get(8)) { std::vector<KeyValue> kv; if (!read(s.get(8), kv, "key_value_metadata")) return false; m.key_value = kv; }
    if (!oi(s.get(10), m.index_page_offset, tr::T_I64, "index_page_offset") || !oi(s.get(11), m.dictionary_page_offset, tr::T_I64, "dictionary_page_offset")) return false;
    if (const TVal *st = s.get(12)) { if (st->type != tr::T_STRUCT) return fail("statistics not a struct"); Statistics x; if (!read(*st, x)) return false; m.statistics = x; }
    if (const TVal *es = s.get(13)) { if (!list(es, tr::T_STRUCT, "encoding_stats")) return false; std::vector<PageEncodingStats> v;
      for (auto &e : es->elems) { PageEncodingStats x; if (!i32(e.get(1), x.page_type, "page_type") || !i32(e.get(2), x.encoding, "encoding") || !i32(e.get(3), x.count, "count")) return false; v.push_back(x); } m.encoding_stats = v; }
    return oi(s.get(14), m.bloom_filter_offset, tr::T_I64, "bloom_filter_offset") && oi(s.get(15), m.bloom_filter_length, tr::T_I32, "bloom_filter_length");
  }
  bool read(const TVal &s, ColumnChunk &c) {
    if (!ostr(s.get(1), c.file_path, "file_path") || !i64(s.get(2), c.file_offset, "ColumnChunk.file_offset")) return false;
    if (const TVal *m = s.get(3)) { if (m->type != tr::T_STRUCT) return fail("meta_data not a struct"); ColumnMetaData x; if (!read(*m, x)) return false; c.meta = x; }
    return oi(s.get(4), c.offset_index_offset, tr::T_I64, "offset_index_offset") && oi(s.get(5), c.offset_index_length, tr::T_I32, "offset_index_length") &&
           oi(s.get(6), c.column_index_offset, tr::T_I64, "column_index_offset") && oi(s.get(7), c.column_index_length, tr::T_I32, "column_index_length");
  }
  bool read(const TVal &s, RowGroup &g) {
    if (!list(s.get(1), tr::T_STRUCT, "RowGroup.columns")) return false;
    for (auto &e : s.get(1)->elems) { ColumnChunk c; if (!read(e, c)) return false; g.columns.push_back(c); }
    if (!i64(s.get(2), g.total_byte_size, "RowGroup.total_byte_size") || !i64(s.get(3), g.num_rows, "RowGroup.num_rows")) return false;
    return oi(s.get(5), g.file_offset, tr::T_I64, "file_offset") && oi(s.get(6), g.total_compressed_size, tr::T_I64, "total_compressed_size") && oi(s.get(7), g.ordinal, tr::T_I16, "ordinal");
  }
  bool read(const TVal &s, FileMetaData &f) {
    if (!i32(s.get(1), f.version, "FileMetaData.version")) return false;
    if (!list(s.get(2), tr::T_STRUCT, "FileMetaData.schema")) return false;
    for (auto &e : s.get(2)->elems) { SchemaElement x; if (!read(e, x)) return false; f.schema.push_back(x); }
    if (!i64(s.get(3), f.num_rows, "FileMetaData.num_rows")) return false;
    if (!list(s.get(4), tr::T_STRUCT, "FileMetaData.row_groups")) return false;
    for (auto &e : s.get(4)->elems) { RowGroup g; if (!read(e, g)) return false; f.row_groups.push_back(g); }
    if (s.get(5)) { std::vector<KeyValue> kv; if (!read(s.get(5), kv, "key_value_metadata")) return false; f.key_value = kv; }
    return ostr(s.get(6), f.created_by, "created_by");
  }
  bool read(const TVal &s, PageHeader &h) {
    if (!i32(s.get(1), h.type, "PageHeader.type") || !i32(s.get(2), h.uncompressed_size, "PageHeader.uncompressed_page_size") || !i32(s.get(3), h.compressed_size, "PageHeader.compressed_page_size")) return false;
    if (!oi(s.get(4), h.crc, tr::T_I32, "crc")) return false;
    if (const TVal *d = s.get(5)) { if (d->type != tr::T_STRUCT) return fail("data_page_header not a struct"); DataPageHeader x;
      if (!i32(d->get(1), x.num_values, "DataPageHeader.num_values") || !i32(d->get(2), x.encoding, "DataPageHeader.encoding") || !i32(d->get(3), x.def_enc, "DataPageHeader.definition_level_encoding") || !i32(d->get(4), x.rep_enc, "DataPageHeader.repetition_level_encoding")) return false;
      if (const TVal *st = d->get(5)) { Statistics y; if (st->type != tr::T_STRUCT || !read(*st, y)) return fail("page statistics malformed"); x.statistics = y; }
      h.data = x; }
    if (const TVal *d = s.get(7)) { if (d->type != tr::T_STRUCT) return fail("dictionary_page_header not a struct"); DictPageHeader x;
      if (!i32(d->get(1), x.num_values, "DictionaryPageHeader.num_values") || !i32(d->get(2), x.encoding, "DictionaryPageHeader.encoding") || !ob(d->get(3), x.is_sorted, "is_sorted")) return false; h.dict = x; }
    if (const TVal *d = s.get(8)) { if (d->type != tr::T_STRUCT) return fail("data_page_header_v2 not a struct"); DataPageHeaderV2 x;
      if (!i32(d->get(1), x.num_values, "v2.num_values") || !i32(d->get(2), x.num_nulls, "v2.num_nulls") || !i32(d->get(3), x.num_rows, "v2.num_rows") || !i32(d->get(4), x.encoding, "v2.encoding") ||
          !i32(d->get(5), x.def_len, "v2.definition_levels_byte_length") || !i32(d->get(6), x.rep_len, "v2.repetition_levels_byte_length") || !ob(d->get(7), x.is_compressed, "v2.is_compressed")) return false;
      if (const TVal *st = d->get(8)) { Statistics y; if (st->type != tr::T_STRUCT || !read(*st, y)) return fail("v2 statistics malformed"); x.statistics = y; }
      h.v2 = x; }
    return true;
  }
};

}  // namespace pq
