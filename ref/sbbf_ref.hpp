// Parquet split-block Bloom filter, written from the Parquet BloomFilter
// specification: block = ((h >> 32) * num_blocks) >> 32; eight 32-bit words per
// block; word i gets bit ((uint32)h * SALT[i]) >> 27.  Hash = XXH64(seed 0) of
// the PLAIN-encoded value (supplied by the caller, here from libxxhash).
#pragma once
#include <cstdint>
#include <cstring>
#include <vector>
namespace sbbf {
static const uint32_t SALT[8] = {0x47b6137bU, 0x44974d91U, 0x8824ad5bU, 0xa2b7289dU, 0x705495c7U, 0x2df1424bU, 0x9efc4947U, 0x5c6bfb31U};
struct Filter {
  std::vector<uint8_t> bytes;   // little-endian words
  explicit Filter(size_t nbytes) : bytes(nbytes, 0) {}
  size_t blocks() const { return bytes.size() / 32; }
  size_t block_of(uint64_t h) const { return (size_t)(((h >> 32) * (uint64_t)blocks()) >> 32); }
  void insert(uint64_t h) {
    size_t b = block_of(h);
    uint32_t key = (uint32_t)h;
    for (int i = 0; i < 8; i++) {
      uint32_t bit = (key * SALT[i]) >> 27;
      size_t off = b * 32 + (size_t)i * 4;
      uint32_t w; memcpy(&w, &bytes[off], 4); w |= 1u << bit; memcpy(&bytes[off], &w, 4);
    }
  }
  bool check(uint64_t h) const {
    size_t b = block_of(h);
    uint32_t key = (uint32_t)h;
    for (int i = 0; i < 8; i++) {
      uint32_t bit = (key * SALT[i]) >> 27;
      uint32_t w; memcpy(&w, &bytes[b * 32 + (size_t)i * 4], 4);
      if (!(w & (1u << bit))) return false;
    }
    return true;
  }
};
}  // namespace sbbf
