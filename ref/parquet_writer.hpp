// Independent Parquet writer with layout knobs, written from the Parquet format
// specification (file layout, data page v1/v2, dictionary pages, level encoding).
// Shares no code with carquet.  Compressors come from the system libraries
// (libsnappy, zlib, libzstd, liblz4).  Produces the file bytes plus a manifest of
// where every page lies, for damage / truncation enumeration.
#pragma once
#include <lz4.h>
#include <snappy.h>
#include <zlib.h>
#include <zstd.h>
#include <algorithm>
#include <map>
#include "ref/enc_ref.hpp"
#include "ref/parquet_model.hpp"
#include "ref/thrift_fuzz.hpp"

namespace pw {
using ref::Bytes;

// ------------------------------------------------------------------ schema
struct Node {
  std::string name;
  int rep = pq::REQUIRED;
  bool group = false;
  int type = pq::INT32;
  int type_length = 0;
  pq::LogicalType lt;
  pq::Opt<int32_t> converted;
  std::vector<Node> kids;
};
struct Leaf {
  std::vector<std::string> path;
  int type = 0, type_length = 0, rep = 0;
  int max_def = 0, max_rep = 0;
  std::vector<int> rep_def;   // rep_def[k-1] = definition level at which the k-th repeated node on the path is present
  pq::LogicalType lt;
};
inline void collect(const Node &n, std::vector<std::string> path, int def, int rp, std::vector<int> rd, std::vector<Leaf> &out, bool root) {
  if (!root) {
    path.push_back(n.name);
    if (n.rep == pq::OPTIONAL) def++;
    if (n.rep == pq::REPEATED) { def++; rp++; rd.push_back(def); }
  }
  if (!n.group) { Leaf l; l.path = path; l.type = n.type; l.type_length = n.type_length; l.rep = n.rep; l.max_def = def; l.max_rep = rp; l.rep_def = rd; l.lt = n.lt; out.push_back(l); return; }
  for (auto &k : n.kids) collect(k, path, def, rp, rd, out, false);
}
inline std::vector<Leaf> leaves(const Node &root) { std::vector<Leaf> o; collect(root, {}, 0, 0, {}, o, true); return o; }
inline void flatten(const Node &n, bool root, std::vector<pq::SchemaElement> &out) {
  pq::SchemaElement e;
  e.name = n.name;
  if (!root) e.repetition = n.rep;
  if (n.group) e.num_children = (int32_t)n.kids.size();
  else { e.type = n.type; if (n.type == pq::FIXED_LEN_BYTE_ARRAY) e.type_length = n.type_length; }
  e.lt = n.lt; e.converted_type = n.converted;
  out.push_back(e);
  for (auto &k : n.kids) flatten(k, false, out);
}
inline size_t fixed_width(int type, int type_length) {
  switch (type) { case pq::BOOLEAN: return 1; case pq::INT32: case pq::FLOAT: return 4; case pq::INT64: case pq::DOUBLE: return 8; case pq::INT96: return 12; case pq::FIXED_LEN_BYTE_ARRAY: return (size_t)type_length; default: return 0; }
}

// --------------------------------------------------------------- chunk spec
struct PageSpec {
  size_t end = 0;          // level-entry index (exclusive) where the page ends
  int encoding = pq::PLAIN;  // PLAIN, PLAIN_DICTIONARY or RLE_DICTIONARY (needs a dictionary page) -- or an unsupported one for negative tests
  int version = 1;         // data page v1 / v2
};
struct ChunkSpec {
  std::vector<int16_t> def, rep;     // level entries (def empty if max_def == 0: then n entries come from `n`)
  size_t n = 0;                      // number of level entries (= rows for flat columns)
  std::vector<Bytes> values;         // dense non-null values (BOOLEAN: one byte 0/1; fixed types: little-endian bytes)
  std::vector<PageSpec> pages;       // at least one when n > 0
  bool dict = false;                 // write a dictionary page
  int dict_page_encoding = pq::PLAIN;       // PLAIN or PLAIN_DICTIONARY in the dictionary page header
  bool dict_offset_present = true;   // false: dictionary_page_offset absent, data_page_offset points at the dictionary page
  int dict_extra_entries = 0;        // unused entries appended to the dictionary
  int index_width_extra = 0;         // index bit width = minimum + extra
  int codec = pq::UNCOMPRESSED;
  bool crc = false;
  int level_style = 0;               // 0 canonical runs, 1 bit-packed only, 2 seeded random cuts
  uint32_t seed = 1;
  bool page_stats = false, chunk_stats = false;
  int stats_mode = 0;                // 0 exact new fields, 1 loosened new fields, 2 deprecated fields, 3 both
  int def_level_encoding = pq::RLE;  // BIT_PACKED for the negative test
  int codec_tag_override = -1;       // write this codec id in the metadata (negative tests: LZO/BROTLI/unknown)
  int extra_header_fields = 0;       // unknown thrift fields injected into page headers (0..3 = injection level)
  int index_width_per_page = 0;      // 1: a data page's index width fits the largest index used in that page (parquet-mr / Arrow flush pages while the dictionary still grows: early pages are narrower than the final dictionary needs)
  int codec_flavour = 0;             // ZSTD: 1 = frame without the content-size field, as streaming writers (parquet-mr, zstd-jni streams) produce
};
struct PageInfo { int rg = 0, col = 0, page = 0; bool is_dict = false; size_t header_off = 0, header_len = 0, body_off = 0, body_len = 0; size_t first_entry = 0, num_entries = 0; size_t first_row = 0; };
struct FileSpec {
  Node root;
  std::vector<std::vector<ChunkSpec>> row_groups;   // [rg][leaf]
  std::vector<int64_t> rg_rows;
  pq::Opt<std::string> created_by;
  pq::Opt<std::vector<pq::KeyValue>> kv;
  int footer_inject = 0;    // unknown-field injection level for the footer (0 none)
  uint32_t footer_seed = 1;
  int32_t version = 1;
};
struct Written { Bytes bytes; std::vector<PageInfo> pages; pq::FileMetaData meta; size_t footer_off = 0, footer_len = 0; };

// ------------------------------------------------------------- compression
inline bool compress(int codec, const Bytes &in, Bytes &out, int flavour = 0) {
  switch (codec) {
    case pq::UNCOMPRESSED: out = in; return true;
    case pq::SNAPPY: { std::string s; snappy::Compress((const char *)in.data(), in.size(), &s); out.assign(s.begin(), s.end()); return true; }
    case pq::GZIP: {
      z_stream z; memset(&z, 0, sizeof z);
      if (deflateInit2(&z, 6, Z_DEFLATED, 15 + 16, 8, Z_DEFAULT_STRATEGY) != Z_OK) return false;
      out.resize(deflateBound(&z, in.size()) + 32);
      z.next_in = (Bytef *)in.data(); z.avail_in = (uInt)in.size(); z.next_out = out.data(); z.avail_out = (uInt)out.size();
      int r = deflate(&z, Z_FINISH); out.resize(z.total_out); deflateEnd(&z); return r == Z_STREAM_END;
    }
    case pq::ZSTD: if (flavour == 1) {
      ZSTD_CCtx *cx = ZSTD_createCCtx(); if (!cx) return false;
      ZSTD_CCtx_setParameter(cx, ZSTD_c_contentSizeFlag, 0); ZSTD_CCtx_setParameter(cx, ZSTD_c_compressionLevel, 3);
      out.resize(ZSTD_compressBound(in.size()) + 64);
      size_t r = ZSTD_compress2(cx, out.data(), out.size(), in.data(), in.size()); ZSTD_freeCCtx(cx);
      if (ZSTD_isError(r)) return false; out.resize(r);
      return true; }
    { out.resize(ZSTD_compressBound(in.size())); size_t r = ZSTD_compress(out.data(), out.size(), in.data(), in.size(), 3); if (ZSTD_isError(r)) return false; out.resize(r); return true; }
    case pq::LZ4_RAW: { out.resize((size_t)LZ4_compressBound((int)in.size()) + 1); int r = LZ4_compress_default((const char *)in.data(), (char *)out.data(), (int)in.size(), (int)out.size()); if (r <= 0 && !in.empty()) return false; out.resize((size_t)std::max(r, 0)); if (in.empty()) out = Bytes{0}; return true; }
    default: out = in; return true;   // unknown codec id (negative tests): store as is
  }
}
inline uint32_t crc32_zlib(const Bytes &b) { return (uint32_t)::crc32(::crc32(0L, Z_NULL, 0), b.data(), (uInt)b.size()); }

// --------------------------------------------------------------- helpers
inline uint64_t xs(uint64_t &s) { s ^= s << 13; s ^= s >> 7; s ^= s << 17; return s; }
inline int bits_for_max(int m) { int w = 0; while (m > 0) { w++; m >>= 1; } return w; }
inline std::vector<ref::Run> plan_levels(const std::vector<uint32_t> &v, int style, uint64_t &s) {
  if (style == 0 || v.empty()) return ref::hybrid_plan_simple(v);
  std::vector<ref::Run> plan;
  if (style == 1) { ref::Run r; r.rle = false; r.vals = v; plan.push_back(r); return plan; }
  size_t pos = 0;
  while (pos < v.size()) {
    uint64_t r = xs(s);
    size_t want = 1 + (size_t)((r >> 8) % ((r & 3) == 0 ? 40 : 10));
    size_t len = std::min(want, v.size() - pos);
    if ((r & 4) && true) {   // try RLE on the equal prefix
      size_t k = 0; while (k < len && v[pos + k] == v[pos]) k++;
      if ((r & 0x30) == 0) { ref::Run z; z.rle = true; z.count = 0; z.vals = {v[pos]}; plan.push_back(z); }   // zero-length run
      ref::Run q; q.rle = true; q.count = k; q.vals = {v[pos]}; plan.push_back(q); pos += k;
    } else {
      bool last = pos + len == v.size();
      if (!last) len = len / 8 * 8;
      if (len == 0) { if ((r & 0x40) == 0) { ref::Run z; z.rle = false; plan.push_back(z); } len = std::min<size_t>(8, v.size() - pos); if (pos + len != v.size()) len = len / 8 * 8; if (len == 0) { len = v.size() - pos; } }
      ref::Run q; q.rle = false; q.vals.assign(v.begin() + pos, v.begin() + pos + len); plan.push_back(q); pos += len;
    }
  }
  return plan;
}
inline Bytes plain_values(int type, const std::vector<Bytes> &vals, size_t from, size_t to) {
  Bytes o;
  if (type == pq::BOOLEAN) { std::vector<uint8_t> b; for (size_t i = from; i < to; i++) b.push_back(vals[i][0]); return ref::plain_bool(b); }
  for (size_t i = from; i < to; i++) {
    if (type == pq::BYTE_ARRAY) { uint32_t L = (uint32_t)vals[i].size(); for (int k = 0; k < 4; k++) o.push_back((uint8_t)(L >> (8 * k))); }
    o.insert(o.end(), vals[i].begin(), vals[i].end());
  }
  return o;
}
// order of a physical type (for statistics): returns <0, 0, >0
inline int cmp_values(int type, const Bytes &a, const Bytes &b) {
  auto ld = [](const Bytes &x, size_t n) { uint64_t v = 0; for (size_t i = 0; i < n && i < x.size(); i++) v |= (uint64_t)x[i] << (8 * i); return v; };
  switch (type) {
    case pq::BOOLEAN: return (int)a[0] - (int)b[0];
    case pq::INT32: { int32_t x = (int32_t)ld(a, 4), y = (int32_t)ld(b, 4); return x < y ? -1 : x > y; }
    case pq::INT64: { int64_t x = (int64_t)ld(a, 8), y = (int64_t)ld(b, 8); return x < y ? -1 : x > y; }
    case pq::FLOAT: { uint32_t u = (uint32_t)ld(a, 4), w = (uint32_t)ld(b, 4); float x, y; memcpy(&x, &u, 4); memcpy(&y, &w, 4); return x < y ? -1 : x > y; }
    case pq::DOUBLE: { uint64_t u = ld(a, 8), w = ld(b, 8); double x, y; memcpy(&x, &u, 8); memcpy(&y, &w, 8); return x < y ? -1 : x > y; }
    default: { size_t n = std::min(a.size(), b.size()); int c = n ? memcmp(a.data(), b.data(), n) : 0; if (c) return c; return a.size() < b.size() ? -1 : a.size() > b.size(); }   // unsigned lexicographic
  }
}
inline bool is_nan(int type, const Bytes &a) {
  if (type == pq::FLOAT) { uint32_t u; memcpy(&u, a.data(), 4); return (u & 0x7fffffffu) > 0x7f800000u; }
  if (type == pq::DOUBLE) { uint64_t u; memcpy(&u, a.data(), 8); return (u & 0x7fffffffffffffffull) > 0x7ff0000000000000ull; }
  return false;
}
inline pq::Opt<pq::Statistics> make_stats(int type, const std::vector<Bytes> &vals, size_t from, size_t to, int64_t nulls, int mode) {
  pq::Statistics st;
  st.null_count = nulls;
  const Bytes *mn = nullptr, *mx = nullptr;
  for (size_t i = from; i < to; i++) { if (is_nan(type, vals[i])) continue; if (!mn || cmp_values(type, vals[i], *mn) < 0) mn = &vals[i]; if (!mx || cmp_values(type, vals[i], *mx) > 0) mx = &vals[i]; }
  if (mn && type != pq::INT96) {
    Bytes lo = *mn, hi = *mx;
    if (mode == 1) {   // loosened but still true bounds
      if (type == pq::INT32 || type == pq::INT64) { size_t w = type == pq::INT32 ? 4 : 8; int64_t a = 0, b = 0; for (size_t i = 0; i < w; i++) { a |= (int64_t)lo[i] << (8 * i); b |= (int64_t)hi[i] << (8 * i); } if (w == 4) { a = (int32_t)a; b = (int32_t)b; }
        int64_t lim_lo = w == 4 ? INT32_MIN : INT64_MIN, lim_hi = w == 4 ? INT32_MAX : INT64_MAX; if (a > lim_lo + 10) a -= 7; if (b < lim_hi - 10) b += 7; for (size_t i = 0; i < w; i++) { lo[i] = (uint8_t)((uint64_t)a >> (8 * i)); hi[i] = (uint8_t)((uint64_t)b >> (8 * i)); } }
      else if (type == pq::BYTE_ARRAY) { if (!lo.empty()) lo.pop_back(); hi.push_back(0x7f); }
    }
    if (mode == 0 || mode == 1 || mode == 3) { st.min_value = lo; st.max_value = hi; }
    if (mode == 2 || mode == 3) { st.min = lo; st.max = hi; }
  }
  return st;
}

// ---------------------------------------------------------------- writer
struct Inject { int level = 0; uint64_t seed = 1; };
inline tr::TVal decorate_dom(const tr::TVal &v, uint64_t &s, int inject, int depth) { return tf::decorate(v, s, inject, depth); }

inline Written write_file(const FileSpec &fs) {
  Written w;
  Bytes &o = w.bytes;
  o = {'P', 'A', 'R', '1'};
  std::vector<Leaf> lv = leaves(fs.root);
  pq::FileMetaData &fm = w.meta;
  fm.version = fs.version;
  flatten(fs.root, true, fm.schema);
  fm.created_by = fs.created_by;
  fm.key_value = fs.kv;
  int64_t total_rows = 0;
  for (size_t g = 0; g < fs.row_groups.size(); g++) {
    pq::RowGroup rg;
    rg.num_rows = fs.rg_rows[g];
    total_rows += rg.num_rows;
    int64_t rg_uncomp = 0, rg_comp = 0;
    rg.file_offset = (int64_t)o.size();
    for (size_t c = 0; c < lv.size(); c++) {
      const ChunkSpec &cs = fs.row_groups[g][c];
      const Leaf &lf = lv[c];
      uint64_t seed = 0x9E3779B97F4A7C15ull ^ ((uint64_t)cs.seed << 1 | 1);
      pq::ColumnMetaData cm;
      cm.type = lf.type; cm.path = lf.path; cm.codec = cs.codec_tag_override >= 0 ? cs.codec_tag_override : cs.codec;
      cm.num_values = (int64_t)cs.n;
      size_t chunk_start = o.size();
      int64_t unc = 0;
      std::set<int> encs;
      // dictionary
      std::vector<Bytes> dict; std::map<Bytes, uint32_t> dict_idx;
      if (cs.dict) {
        for (auto &v : cs.values) if (!dict_idx.count(v)) { dict_idx[v] = (uint32_t)dict.size(); dict.push_back(v); }
        for (int i = 0; i < cs.dict_extra_entries; i++) { Bytes e = dict.empty() ? Bytes(fixed_width(lf.type, lf.type_length) ? fixed_width(lf.type, lf.type_length) : 3, 0x41) : dict[i % dict.size()]; if (!e.empty()) e[0] ^= (uint8_t)(0x80 + i); else e.push_back((uint8_t)i); dict.push_back(e); }
        Bytes body = plain_values(lf.type, dict, 0, dict.size()), comp;
        compress(cs.codec, body, comp, cs.codec_flavour);
        pq::PageHeader ph; ph.type = pq::DICTIONARY_PAGE; ph.uncompressed_size = (int32_t)body.size(); ph.compressed_size = (int32_t)comp.size();
        if (cs.crc) ph.crc = (int32_t)crc32_zlib(comp);
        pq::DictPageHeader dh; dh.num_values = (int32_t)dict.size(); dh.encoding = cs.dict_page_encoding; ph.dict = dh;
        tr::TVal hd = pq::dom(ph);
        if (cs.extra_header_fields) hd = decorate_dom(hd, seed, cs.extra_header_fields, 0);
        Bytes hb = tr::encode(hd);
        PageInfo pi; pi.rg = (int)g; pi.col = (int)c; pi.page = -1; pi.is_dict = true; pi.header_off = o.size(); pi.header_len = hb.size(); pi.body_off = o.size() + hb.size(); pi.body_len = comp.size();
        if (cs.dict_offset_present) cm.dictionary_page_offset = (int64_t)o.size();
        o.insert(o.end(), hb.begin(), hb.end()); o.insert(o.end(), comp.begin(), comp.end());
        w.pages.push_back(pi);
        unc += (int64_t)(hb.size() + body.size());
        encs.insert(cs.dict_page_encoding);
      }
      cm.data_page_offset = cs.dict && !cs.dict_offset_present ? (int64_t)chunk_start : (int64_t)o.size();
      // data pages
      size_t entry = 0, vpos = 0, row = 0;
      int pageno = 0;
      for (auto &pg : cs.pages) {
        size_t e0 = entry, e1 = pg.end;
        std::vector<uint32_t> dl, rl;
        size_t nn = 0, nulls = 0, rows = 0;
        for (size_t i = e0; i < e1; i++) {
          int d = lf.max_def ? cs.def[i] : 0; if (lf.max_def) dl.push_back((uint32_t)d);
          if (d == lf.max_def) nn++; else nulls++;
          int r = lf.max_rep ? cs.rep[i] : 0; if (lf.max_rep) rl.push_back((uint32_t)r);
          if (r == 0) rows++;
        }
        Bytes repb, defb;
        if (lf.max_rep) repb = ref::hybrid_encode(plan_levels(rl, cs.level_style, seed), bits_for_max(lf.max_rep));
        if (lf.max_def) {
          if (cs.def_level_encoding == pq::BIT_PACKED) { ref::BitWriter bw(defb); int wd = bits_for_max(lf.max_def); for (auto x : dl) for (int b = wd - 1; b >= 0; b--) bw.put((x >> b) & 1, 1); bw.flush(); }   // deprecated MSB-first packing, no length prefix
          else defb = ref::hybrid_encode(plan_levels(dl, cs.level_style, seed), bits_for_max(lf.max_def));
        }
        Bytes vals;
        if (pg.encoding == pq::PLAIN_DICTIONARY || pg.encoding == pq::RLE_DICTIONARY) {
          std::vector<uint32_t> idx; for (size_t i = vpos; i < vpos + nn; i++) idx.push_back(dict_idx[cs.values[i]]);
          uint32_t maxidx = 0; for (uint32_t x : idx) maxidx = std::max(maxidx, x);
          int wd = std::min(32, bits_for_max(cs.index_width_per_page ? (int)maxidx : dict.empty() ? 0 : (int)dict.size() - 1) + cs.index_width_extra);
          vals.push_back((uint8_t)wd);
          Bytes h = ref::hybrid_encode(plan_levels(idx, cs.level_style, seed), wd);
          vals.insert(vals.end(), h.begin(), h.end());
        } else if (pg.encoding == pq::PLAIN) vals = plain_values(lf.type, cs.values, vpos, vpos + nn);
        else if (pg.encoding == pq::DELTA_BINARY_PACKED && (lf.type == pq::INT32 || lf.type == pq::INT64)) {
          std::vector<int64_t> iv; size_t wdt = lf.type == pq::INT32 ? 4 : 8;
          for (size_t i = vpos; i < vpos + nn; i++) { uint64_t x = 0; for (size_t k = 0; k < wdt; k++) x |= (uint64_t)cs.values[i][k] << (8 * k); iv.push_back(wdt == 4 ? (int64_t)(int32_t)x : (int64_t)x); }
          vals = ref::delta_encode(iv, wdt == 4);
        } else if (pg.encoding == pq::BYTE_STREAM_SPLIT && fixed_width(lf.type, lf.type_length) > 1) { Bytes flat; for (size_t i = vpos; i < vpos + nn; i++) flat.insert(flat.end(), cs.values[i].begin(), cs.values[i].end()); vals = ref::bss_encode(flat, fixed_width(lf.type, lf.type_length)); }
        else if (pg.encoding == pq::DELTA_LENGTH_BYTE_ARRAY && lf.type == pq::BYTE_ARRAY) vals = ref::delta_length_encode(std::vector<Bytes>(cs.values.begin() + vpos, cs.values.begin() + vpos + nn));
        else if (pg.encoding == pq::DELTA_BYTE_ARRAY && lf.type == pq::BYTE_ARRAY) vals = ref::delta_strings_encode(std::vector<Bytes>(cs.values.begin() + vpos, cs.values.begin() + vpos + nn));
        else vals = plain_values(lf.type, cs.values, vpos, vpos + nn);
        encs.insert(pg.encoding); if (lf.max_def || lf.max_rep) encs.insert(pq::RLE);
        pq::PageHeader ph; Bytes body, comp;
        auto le32 = [](Bytes &b, uint32_t v) { for (int k = 0; k < 4; k++) b.push_back((uint8_t)(v >> (8 * k))); };
        if (pg.version == 1) {
          if (lf.max_rep) { le32(body, (uint32_t)repb.size()); body.insert(body.end(), repb.begin(), repb.end()); }
          if (lf.max_def) { if (cs.def_level_encoding == pq::RLE) le32(body, (uint32_t)defb.size()); body.insert(body.end(), defb.begin(), defb.end()); }
          body.insert(body.end(), vals.begin(), vals.end());
          compress(cs.codec, body, comp, cs.codec_flavour);
          ph.type = pq::DATA_PAGE;
          pq::DataPageHeader dh; dh.num_values = (int32_t)(e1 - e0); dh.encoding = pg.encoding; dh.def_enc = cs.def_level_encoding; dh.rep_enc = pq::RLE;
          if (cs.page_stats) dh.statistics = make_stats(lf.type, cs.values, vpos, vpos + nn, (int64_t)nulls, cs.stats_mode);
          ph.data = dh;
        } else {   // v2: levels uncompressed and unprefixed in front, values compressed
          Bytes cv; compress(cs.codec, vals, cv, cs.codec_flavour);
          body = repb; body.insert(body.end(), defb.begin(), defb.end()); body.insert(body.end(), vals.begin(), vals.end());
          comp = repb; comp.insert(comp.end(), defb.begin(), defb.end()); comp.insert(comp.end(), cv.begin(), cv.end());
          ph.type = pq::DATA_PAGE_V2;
          pq::DataPageHeaderV2 dh; dh.num_values = (int32_t)(e1 - e0); dh.num_nulls = (int32_t)nulls; dh.num_rows = (int32_t)rows; dh.encoding = pg.encoding; dh.def_len = (int32_t)defb.size(); dh.rep_len = (int32_t)repb.size(); dh.is_compressed = cs.codec != pq::UNCOMPRESSED;
          ph.v2 = dh;
        }
        ph.uncompressed_size = (int32_t)body.size(); ph.compressed_size = (int32_t)comp.size();
        if (cs.crc) ph.crc = (int32_t)crc32_zlib(comp);
        tr::TVal hd = pq::dom(ph);
        if (cs.extra_header_fields) hd = decorate_dom(hd, seed, cs.extra_header_fields, 0);
        Bytes hb = tr::encode(hd);
        PageInfo pi; pi.rg = (int)g; pi.col = (int)c; pi.page = pageno++; pi.header_off = o.size(); pi.header_len = hb.size(); pi.body_off = o.size() + hb.size(); pi.body_len = comp.size(); pi.first_entry = e0; pi.num_entries = e1 - e0; pi.first_row = row;
        o.insert(o.end(), hb.begin(), hb.end()); o.insert(o.end(), comp.begin(), comp.end());
        w.pages.push_back(pi);
        unc += (int64_t)(hb.size() + body.size());
        entry = e1; vpos += nn; row += rows;
      }
      cm.encodings.assign(encs.begin(), encs.end());
      cm.total_uncompressed_size = unc; cm.total_compressed_size = (int64_t)(o.size() - chunk_start);
      if (cs.chunk_stats) { int64_t nulls = 0; for (size_t i = 0; i < cs.n; i++) if (lf.max_def && cs.def[i] != lf.max_def) nulls++; cm.statistics = make_stats(lf.type, cs.values, 0, cs.values.size(), nulls, cs.stats_mode); }
      pq::ColumnChunk cc; cc.file_offset = (int64_t)chunk_start; cc.meta = cm;
      rg.columns.push_back(cc);
      rg_uncomp += unc; rg_comp += cm.total_compressed_size;
    }
    rg.total_byte_size = rg_uncomp; rg.total_compressed_size = rg_comp; rg.ordinal = (int16_t)g;
    fm.row_groups.push_back(rg);
  }
  fm.num_rows = total_rows;
  tr::TVal fd = pq::dom(fm);
  if (fs.footer_inject) { uint64_t s = 0x1234567ull ^ ((uint64_t)fs.footer_seed << 1 | 1); fd = decorate_dom(fd, s, fs.footer_inject, 0); }
  Bytes fb = tr::encode(fd);
  w.footer_off = o.size(); w.footer_len = fb.size();
  o.insert(o.end(), fb.begin(), fb.end());
  uint32_t L = (uint32_t)fb.size();
  for (int k = 0; k < 4; k++) o.push_back((uint8_t)(L >> (8 * k)));
  o.insert(o.end(), {'P', 'A', 'R', '1'});
  return w;
}

}  // namespace pw
