// Independent Snappy raw-block and LZ4 block codecs written from the format
// descriptions (snappy/format_description.txt, lz4_Block_format.md).
//   - grammar-driven encoders: serialise an explicit element list, including
//     forms carquet's compressors never emit
//   - strict decoders that also report structure (for the LZ4 end-of-block rules)
#pragma once
#include <cstdint>
#include <cstring>
#include <string>
#include <vector>

namespace ref {
typedef std::vector<uint8_t> Bytes;

// ------------------------------------------------------------------ Snappy
struct SnEl {
  int kind = 0;          // 0 literal, 1 copy-1, 2 copy-2, 4 copy-4
  uint32_t len = 0;      // literal: number of bytes; copy: length
  uint32_t off = 0;      // copy offset
  int lenbytes = 0;      // literal: 0 = length in the tag (len <= 60), 1..4 = extra length bytes
  Bytes lit;
};
inline void sn_varint(Bytes &o, uint32_t v) { while (v >= 0x80) { o.push_back((uint8_t)(v | 0x80)); v >>= 7; } o.push_back((uint8_t)v); }
// serialise elements; `declared` is the preamble (normally the real output length)
inline Bytes snappy_serialize(const std::vector<SnEl> &els, uint32_t declared) {
  Bytes o;
  sn_varint(o, declared);
  for (auto &e : els) {
    if (e.kind == 0) {
      uint32_t L = e.len - 1;
      if (e.lenbytes == 0) o.push_back((uint8_t)(L << 2));
      else { o.push_back((uint8_t)((59 + e.lenbytes) << 2)); for (int i = 0; i < e.lenbytes; i++) o.push_back((uint8_t)(L >> (8 * i))); }
      o.insert(o.end(), e.lit.begin(), e.lit.end());
    } else if (e.kind == 1) {
      o.push_back((uint8_t)(((e.off >> 8) << 5) | ((e.len - 4) << 2) | 1));
      o.push_back((uint8_t)e.off);
    } else if (e.kind == 2) {
      o.push_back((uint8_t)(((e.len - 1) << 2) | 2));
      o.push_back((uint8_t)e.off); o.push_back((uint8_t)(e.off >> 8));
    } else {
      o.push_back((uint8_t)(((e.len - 1) << 2) | 3));
      for (int i = 0; i < 4; i++) o.push_back((uint8_t)(e.off >> (8 * i)));
    }
  }
  return o;
}
// the output the element list denotes (model); false if an element is invalid (offset 0 / beyond output)
inline bool snappy_model(const std::vector<SnEl> &els, Bytes &out) {
  out.clear();
  for (auto &e : els) {
    if (e.kind == 0) out.insert(out.end(), e.lit.begin(), e.lit.end());
    else { if (e.off == 0 || e.off > out.size()) return false; for (uint32_t i = 0; i < e.len; i++) out.push_back(out[out.size() - e.off]); }
  }
  return true;
}
struct SnStats { size_t lit_ext[5] = {0, 0, 0, 0, 0}; size_t copy1 = 0, copy2 = 0, copy4 = 0, overlap = 0; };
// strict decoder: every element must be complete, offsets valid, output == preamble exactly, no trailing bytes
inline bool snappy_decode(const uint8_t *p, size_t n, Bytes &out, std::string &err, SnStats *st = nullptr) {
  const uint8_t *end = p + n;
  out.clear();
  uint64_t declared = 0; int shift = 0; bool done = false;
  while (p < end && shift <= 28) { uint8_t b = *p++; declared |= (uint64_t)(b & 0x7f) << shift; shift += 7; if (!(b & 0x80)) { done = true; break; } }
  if (!done || declared > 0xffffffffull) { err = "bad preamble"; return false; }
  while (p < end) {
    uint8_t tag = *p++;
    int type = tag & 3;
    if (type == 0) {
      uint32_t L = tag >> 2;
      int ext = 0;
      if (L >= 60) { ext = (int)L - 59; if (end - p < ext) { err = "truncated literal length"; return false; } L = 0; for (int i = 0; i < ext; i++) L |= (uint32_t)p[i] << (8 * i); p += ext; }
      uint64_t len = (uint64_t)L + 1;
      if ((uint64_t)(end - p) < len) { err = "literal runs past the input"; return false; }
      if (out.size() + len > declared) { err = "output exceeds the declared length"; return false; }
      out.insert(out.end(), p, p + len);
      p += len;
      if (st) st->lit_ext[ext]++;
    } else {
      uint32_t len, off;
      if (type == 1) { if (end - p < 1) { err = "truncated copy-1"; return false; } len = ((tag >> 2) & 7) + 4; off = ((uint32_t)(tag >> 5) << 8) | p[0]; p += 1; if (st) st->copy1++; }
      else if (type == 2) { if (end - p < 2) { err = "truncated copy-2"; return false; } len = (tag >> 2) + 1; off = p[0] | ((uint32_t)p[1] << 8); p += 2; if (st) st->copy2++; }
      else { if (end - p < 4) { err = "truncated copy-4"; return false; } len = (tag >> 2) + 1; off = p[0] | ((uint32_t)p[1] << 8) | ((uint32_t)p[2] << 16) | ((uint32_t)p[3] << 24); p += 4; if (st) st->copy4++; }
      if (off == 0) { err = "copy offset 0"; return false; }
      if (off > out.size()) { err = "copy offset beyond the output produced"; return false; }
      if (out.size() + len > declared) { err = "output exceeds the declared length"; return false; }
      if (st && off < len) st->overlap++;
      for (uint32_t i = 0; i < len; i++) out.push_back(out[out.size() - off]);
    }
  }
  if (out.size() != declared) { err = "output shorter than the declared length"; return false; }
  return true;
}

// --------------------------------------------------------------------- LZ4
struct LzSeq {
  Bytes lit;
  uint32_t off = 0;        // 0 = no match (only legal for the last sequence)
  uint32_t mlen = 0;       // >= 4 when off != 0
};
inline void lz_len(Bytes &o, size_t v) { while (v >= 255) { o.push_back(255); v -= 255; } o.push_back((uint8_t)v); }
inline Bytes lz4_serialize(const std::vector<LzSeq> &seqs) {
  Bytes o;
  for (auto &s : seqs) {
    size_t ll = s.lit.size();
    size_t ml = s.off ? s.mlen - 4 : 0;
    o.push_back((uint8_t)((std::min<size_t>(ll, 15) << 4) | (s.off ? std::min<size_t>(ml, 15) : 0)));
    if (ll >= 15) lz_len(o, ll - 15);
    o.insert(o.end(), s.lit.begin(), s.lit.end());
    if (s.off) { o.push_back((uint8_t)s.off); o.push_back((uint8_t)(s.off >> 8)); if (ml >= 15) lz_len(o, ml - 15); }
  }
  return o;
}
inline bool lz4_model(const std::vector<LzSeq> &seqs, Bytes &out) {
  out.clear();
  for (size_t i = 0; i < seqs.size(); i++) {
    auto &s = seqs[i];
    out.insert(out.end(), s.lit.begin(), s.lit.end());
    if (s.off) { if (s.off > out.size()) return false; for (uint32_t k = 0; k < s.mlen; k++) out.push_back(out[out.size() - s.off]); }
    else if (i + 1 != seqs.size()) return false;
  }
  return true;
}
struct LzInfo {
  size_t nseq = 0, nmatch = 0;
  size_t last_match_start = 0;   // output offset where the last match starts
  size_t last_literals = 0;      // literal count of the final sequence
  bool ends_with_literals = false;
  size_t ext255 = 0, overlap = 0;
};
// strict structural decoder (no capacity): errors on truncation / bad offsets
inline bool lz4_decode(const uint8_t *p, size_t n, Bytes &out, std::string &err, LzInfo *info = nullptr) {
  const uint8_t *end = p + n;
  out.clear();
  LzInfo in;
  if (n == 0) { err = "empty block (a block needs at least a token)"; return false; }
  while (p < end) {
    uint8_t tok = *p++;
    in.nseq++;
    size_t ll = tok >> 4;
    if (ll == 15) { uint8_t s; do { if (p >= end) { err = "truncated literal length"; return false; } s = *p++; ll += s; if (s == 255) in.ext255++; } while (s == 255); }
    if ((size_t)(end - p) < ll) { err = "literals run past the input"; return false; }
    out.insert(out.end(), p, p + ll);
    p += ll;
    if (p == end) { in.ends_with_literals = true; in.last_literals = ll; break; }
    if (end - p < 2) { err = "truncated offset"; return false; }
    size_t off = p[0] | ((size_t)p[1] << 8);
    p += 2;
    if (off == 0) { err = "offset 0"; return false; }
    if (off > out.size()) { err = "offset beyond the output produced"; return false; }
    size_t ml = tok & 15;
    if (ml == 15) { uint8_t s; do { if (p >= end) { err = "truncated match length"; return false; } s = *p++; ml += s; if (s == 255) in.ext255++; } while (s == 255); }
    ml += 4;
    in.nmatch++;
    in.last_match_start = out.size();
    if (off < ml) in.overlap++;
    for (size_t k = 0; k < ml; k++) out.push_back(out[out.size() - off]);
  }
  if (!in.ends_with_literals) { err = "block does not end with a literals-only sequence"; return false; }
  if (info) *info = in;
  return true;
}
// end-of-block rules of the LZ4 block format (what a conformant *encoder* must respect)
inline bool lz4_end_rules(const LzInfo &in, size_t outlen, std::string &err) {
  if (in.nmatch == 0) return true;
  if (outlen < 13) { err = "block shorter than 13 bytes contains a match"; return false; }
  if (in.last_literals < 5) { err = "last " + std::to_string(in.last_literals) + " bytes are not all literals (need 5)"; return false; }
  if (in.last_match_start + 12 > outlen) { err = "last match starts " + std::to_string(outlen - in.last_match_start) + " bytes before the end (need >= 12)"; return false; }
  return true;
}

}  // namespace ref
