// Generators and (de)serialisation for reference-writer file specifications (pw::FileSpec).
#pragma once
#include <set>
#include "harness/common/pbt.hpp"
#include "gen/seqs.hpp"
#include "ref/parquet_writer.hpp"

namespace gf {
using pbt::Bytes;
using pbt::CaseText;
using pbt::irange;

// ------------------------------------------------------------ serialisation
inline void putNode(std::string &o, const pw::Node &n) {
  o += pbt::hex((const uint8_t *)n.name.data(), n.name.size()) + "|" + std::to_string(n.rep) + "|" + std::to_string(n.group ? 1 : 0) + "|" + std::to_string(n.type) + "|" + std::to_string(n.type_length) + "|" +
       std::to_string(n.lt.kind) + "|" + std::to_string(n.kids.size()) + ";";
  for (auto &k : n.kids) putNode(o, k);
}
inline pw::Node getNode(const std::vector<std::string> &toks, size_t &i) {
  pw::Node n;
  std::vector<std::string> f; { std::string t = toks.at(i++); size_t a = 0; while (true) { size_t b = t.find('|', a); f.push_back(t.substr(a, b == std::string::npos ? b : b - a)); if (b == std::string::npos) break; a = b + 1; } }
  Bytes nm = pbt::unhex(f.at(0)); n.name.assign(nm.begin(), nm.end());
  n.rep = std::stoi(f.at(1)); n.group = f.at(2) == "1"; n.type = std::stoi(f.at(3)); n.type_length = std::stoi(f.at(4)); n.lt.kind = std::stoi(f.at(5));
  if (n.lt.kind == 5) { n.lt.scale = 2; n.lt.precision = 9; } if (n.lt.kind == 10) { n.lt.bit_width = n.type == pq::INT64 ? 64 : 32; n.lt.is_signed = true; }
  size_t nk = (size_t)std::stoul(f.at(6));
  for (size_t k = 0; k < nk; k++) n.kids.push_back(getNode(toks, i));
  return n;
}
inline void putSpec(CaseText &t, const pw::FileSpec &fs) {
  std::string sch; putNode(sch, fs.root); t.put("schema", sch);
  t.put_i("nrg", (long long)fs.row_groups.size());
  t.put_ints("rg_rows", fs.rg_rows);
  std::vector<long long> ff = {fs.footer_inject, (long long)fs.footer_seed, fs.version, fs.created_by ? 1 : 0, fs.kv ? (long long)fs.kv->size() : -1};
  t.put_ints("file_flags", ff);
  if (fs.created_by) t.put_bytes("created_by", Bytes(fs.created_by->begin(), fs.created_by->end()));
  for (size_t g = 0; g < fs.row_groups.size(); g++)
    for (size_t c = 0; c < fs.row_groups[g].size(); c++) {
      const pw::ChunkSpec &cs = fs.row_groups[g][c];
      std::string p = "c" + std::to_string(g) + "_" + std::to_string(c) + "_";
      t.put_i(p + "n", (long long)cs.n);
      t.put_ints(p + "def", cs.def); t.put_ints(p + "rep", cs.rep);
      std::string vs; for (size_t i = 0; i < cs.values.size(); i++) { if (i) vs.push_back(','); vs += pbt::hex(cs.values[i]); if (cs.values[i].empty()) vs += "-"; }
      t.put(p + "vals", vs);
      std::string ps; for (auto &pg : cs.pages) ps += std::to_string(pg.end) + ":" + std::to_string(pg.encoding) + ":" + std::to_string(pg.version) + ",";
      t.put(p + "pages", ps);
      std::vector<long long> fl = {cs.dict, cs.dict_page_encoding, cs.dict_offset_present, cs.dict_extra_entries, cs.index_width_extra, cs.codec, cs.crc, cs.level_style, (long long)cs.seed, cs.page_stats, cs.chunk_stats,
                                   cs.stats_mode, cs.def_level_encoding, cs.codec_tag_override, cs.extra_header_fields, cs.codec_flavour, cs.index_width_per_page};
      t.put_ints(p + "flags", fl);
    }
}
inline std::vector<std::string> splitc(const std::string &s, char sep) { std::vector<std::string> o; size_t a = 0; if (s.empty()) return o; while (true) { size_t b = s.find(sep, a); o.push_back(s.substr(a, b == std::string::npos ? b : b - a)); if (b == std::string::npos) break; a = b + 1; } return o; }
inline pw::FileSpec getSpec(const CaseText &t) {
  pw::FileSpec fs;
  { auto toks = splitc(t.get("schema"), ';'); if (!toks.empty() && toks.back().empty()) toks.pop_back(); size_t i = 0; fs.root = getNode(toks, i); }
  size_t nrg = (size_t)t.get_i("nrg");
  fs.rg_rows = t.get_ints<int64_t>("rg_rows");
  auto ff = t.get_ints<long long>("file_flags");
  fs.footer_inject = (int)ff.at(0); fs.footer_seed = (uint32_t)ff.at(1); fs.version = (int32_t)ff.at(2);
  if (ff.at(3)) { Bytes b = t.get_bytes("created_by"); fs.created_by = std::string(b.begin(), b.end()); }
  if (ff.at(4) >= 0) { std::vector<pq::KeyValue> kv; for (long long i = 0; i < ff.at(4); i++) { pq::KeyValue k; k.key = "k" + std::to_string(i); if (i % 2 == 0) k.value = "v" + std::to_string(i); kv.push_back(k); } fs.kv = kv; }
  size_t nleaf = pw::leaves(fs.root).size();
  fs.row_groups.resize(nrg);
  for (size_t g = 0; g < nrg; g++)
    for (size_t c = 0; c < nleaf; c++) {
      pw::ChunkSpec cs;
      std::string p = "c" + std::to_string(g) + "_" + std::to_string(c) + "_";
      cs.n = (size_t)t.get_i(p + "n");
      cs.def = t.get_ints<int16_t>(p + "def"); cs.rep = t.get_ints<int16_t>(p + "rep");
      for (auto &v : splitc(t.get(p + "vals"), ',')) cs.values.push_back(v == "-" ? Bytes{} : pbt::unhex(v));
      for (auto &pgs : splitc(t.get(p + "pages"), ',')) { if (pgs.empty()) continue; auto f = splitc(pgs, ':'); pw::PageSpec pg; pg.end = (size_t)std::stoull(f.at(0)); pg.encoding = std::stoi(f.at(1)); pg.version = std::stoi(f.at(2)); cs.pages.push_back(pg); }
      auto fl = t.get_ints<long long>(p + "flags");
      cs.dict = fl.at(0); cs.dict_page_encoding = (int)fl.at(1); cs.dict_offset_present = fl.at(2); cs.dict_extra_entries = (int)fl.at(3); cs.index_width_extra = (int)fl.at(4); cs.codec = (int)fl.at(5); cs.crc = fl.at(6);
      cs.level_style = (int)fl.at(7); cs.seed = (uint32_t)fl.at(8); cs.page_stats = fl.at(9); cs.chunk_stats = fl.at(10); cs.stats_mode = (int)fl.at(11); cs.def_level_encoding = (int)fl.at(12); cs.codec_tag_override = (int)fl.at(13); cs.extra_header_fields = (int)fl.at(14); cs.codec_flavour = fl.size() > 15 ? (int)fl.at(15) : 0; cs.index_width_per_page = fl.size() > 16 ? (int)fl.at(16) : 0;
      fs.row_groups[g].push_back(cs);
    }
  return fs;
}

// --------------------------------------------------------------- generators
struct Opts {
  bool nested = false;       // allow groups / repeated
  bool int96 = true;
  bool dicts = true;         // dictionary pages
  bool codecs = true;        // compressed chunks
  bool stats = true;
  bool thrift_extras = true; // unknown thrift fields in footer / page headers, kv metadata
  bool layouts = true;       // dictionary offset absent, wider index width, unused dictionary entries, level run plans
  bool crc = true;
  int max_cols = 5, max_rgs = 3, max_rows = 40, max_pages = 6, min_cols = 1;
  bool logical_types = false;   // annotate leaves with members of the LogicalType union other than STRING
  std::vector<int> types = {pq::BOOLEAN, pq::INT32, pq::INT64, pq::INT96, pq::FLOAT, pq::DOUBLE, pq::BYTE_ARRAY, pq::FIXED_LEN_BYTE_ARRAY};
  bool all_required = false;
  bool big = false;          // occasionally thousands of rows
  bool long_period = false;  // rarely a chunk of ~10-20 thousand fixed-width values that repeat with a period of 32..64 KiB in one page (long-distance back references of the codecs)
};

inline rc::Gen<Bytes> valueGen(int type, int tl) {
  auto fixedBytes = [](size_t n) { return rc::gen::container<Bytes>(n, rc::gen::arbitrary<uint8_t>()); };
  auto le = [](uint64_t v, size_t n) { Bytes b; for (size_t i = 0; i < n; i++) b.push_back((uint8_t)(v >> (8 * i))); return b; };
  switch (type) {
    case pq::BOOLEAN: return rc::gen::map(rc::gen::element<uint8_t>(0, 1), [](uint8_t v) { return Bytes{v}; });
    case pq::INT32: return rc::gen::map(gen::int32Gen(), [le](int32_t v) { return le((uint32_t)v, 4); });
    // 8-byte values that read as "<footer length> PAR1" when a file is cut right behind them: lengths 0, 4, 0xFFFFFFF4..FF, 2^31
    case pq::INT64: return rc::gen::weightedOneOf<Bytes>({{15, rc::gen::map(gen::int64Gen(), [le](int64_t v) { return le((uint64_t)v, 8); })},
                                                          {1, rc::gen::map(rc::gen::element<uint64_t>(0x31524150FFFFFFFCull, 0x31524150FFFFFFF4ull, 0x31524150FFFFFFFFull, 0x3152415000000000ull, 0x3152415000000004ull, 0x3152415080000000ull, 0x315241507FFFFFFFull), [le](uint64_t v) { return le(v, 8); })}});
    case pq::FLOAT: return rc::gen::map(gen::f32bits(), [le](uint32_t v) { return le(v, 4); });
    case pq::DOUBLE: return rc::gen::map(gen::f64bits(), [le](uint64_t v) { return le(v, 8); });
    case pq::INT96: return fixedBytes(12);
    case pq::FIXED_LEN_BYTE_ARRAY: return fixedBytes((size_t)tl);
    default: return rc::gen::weightedOneOf<Bytes>({{6, gen::bytesGen(24)}, {1, rc::gen::just(Bytes{'P', 'A', 'R', '1'})}, {1, rc::gen::element(Bytes{0xFC, 0xFF, 0xFF, 0xFF, 'P', 'A', 'R', '1'}, Bytes{0xF4, 0xFF, 0xFF, 0xFF, 'P', 'A', 'R', '1', 'x'}, Bytes{'a', 0xFF, 0xFF, 0xFF, 0xFF, 'P', 'A', 'R', '1'}, Bytes{0, 0, 0, 0, 'P', 'A', 'R', '1'})}, {1, rc::gen::map(irange(200, 400), [](int n) { Bytes b; for (int i = 0; i < n; i++) b.push_back((uint8_t)(i * 13)); return b; })}});
  }
}
// null pattern over n rows: 1 = present
inline rc::Gen<std::vector<uint8_t>> presentGen(size_t n) {
  auto runs = rc::gen::map(rc::gen::container<std::vector<std::pair<int, int>>>(rc::gen::pair(irange(0, 1), gen::runLen())), [n](const std::vector<std::pair<int, int>> &s) {
    std::vector<uint8_t> v; for (auto &p : s) for (int i = 0; i < p.second && v.size() < n; i++) v.push_back((uint8_t)p.first); while (v.size() < n) v.push_back((uint8_t)(v.size() % 3 != 0)); return v; });
  return rc::gen::weightedOneOf<std::vector<uint8_t>>({
      {2, rc::gen::just(std::vector<uint8_t>(n, 1))}, {1, rc::gen::just(std::vector<uint8_t>(n, 0))},
      {2, rc::gen::map(rc::gen::just(0), [n](int) { std::vector<uint8_t> v(n); for (size_t i = 0; i < n; i++) v[i] = i & 1; return v; })},
      {3, rc::gen::container<std::vector<uint8_t>>(n, rc::gen::element<uint8_t>(0, 1, 1))}, {4, runs}});
}
inline pw::Node leafNode(const std::string &name, int rep, int type, int tl) { pw::Node n; n.name = name; n.rep = rep; n.type = type; n.type_length = tl; return n; }

inline pw::Node genSchema(const Opts &o) {
  pw::Node root; root.name = "schema"; root.group = true;
  int counter = 0;
  std::set<std::string> used;
  std::function<pw::Node(int)> mk = [&](int depth) -> pw::Node {
    bool grp = o.nested && depth < 4 && *irange(0, 9) < 3;
    pw::Node n;
    n.name = (grp ? "g" : "c") + std::to_string(counter++);
    if (*irange(0, 19) == 0) n.name += "\xc3\xa9_x";   // non-ASCII name
    // names that are proper prefixes of one another, in any order (a lookup must compare whole names)
    if (!grp && *irange(0, 5) == 0) { std::string alt = *rc::gen::element<std::string>("p", "pr", "price", "price_usd", "price_usd_x", "q", "qty_reserved", "qty", "id", "meta.id", "meta.rank", "a.b.c", "."); if (used.insert(alt).second) n.name = alt; }
    // name lengths around the one- / two-byte varint boundary of the Thrift string length (127, 128, 129, 256, 16384)
    if (*irange(0, 39) == 0) { std::string alt((size_t)*rc::gen::element(127, 128, 129, 255, 256, 384, 16383, 16384), (char)('a' + counter % 26)); if (used.insert(alt).second) n.name = alt; }
    n.rep = o.all_required ? pq::REQUIRED : (o.nested ? *rc::gen::element<int>(pq::REQUIRED, pq::OPTIONAL, pq::OPTIONAL, pq::REPEATED) : *rc::gen::element<int>(pq::REQUIRED, pq::OPTIONAL));
    if (grp) { n.group = true; int k = *irange(1, 3); for (int i = 0; i < k; i++) n.kids.push_back(mk(depth + 1)); }
    else {
      n.type = *rc::gen::elementOf(o.types);
      if (n.type == pq::INT96 && !o.int96) n.type = pq::INT64;
      if (n.type == pq::FIXED_LEN_BYTE_ARRAY) n.type_length = *rc::gen::weightedOneOf<int>({{5, irange(1, 20)}, {1, rc::gen::element(33, 64)}});
      if (n.type == pq::BYTE_ARRAY && *irange(0, 3) == 0) { n.lt.kind = 1; n.converted = 0; }
      // every member of the LogicalType union on a physical type it may annotate (kind = union field id)
      else if (o.logical_types && *irange(0, 3) == 0) {
        if (n.type == pq::BYTE_ARRAY) n.lt.kind = *rc::gen::element(4, 12, 13, 11);
        else if (n.type == pq::INT32) n.lt.kind = *rc::gen::element(6, 7, 10, 5, 11);
        else if (n.type == pq::INT64) n.lt.kind = *rc::gen::element(8, 7, 10, 5, 11);
        else if (n.type == pq::FIXED_LEN_BYTE_ARRAY) { n.lt.kind = *rc::gen::element(14, 15, 5); n.type_length = n.lt.kind == 14 ? 16 : n.lt.kind == 15 ? 2 : 9; }
        if (n.lt.kind == 5) { n.lt.scale = 2; n.lt.precision = 9; } if (n.lt.kind == 10) { n.lt.bit_width = n.type == pq::INT64 ? 64 : 32; n.lt.is_signed = true; }
      }
    }
    return n;
  };
  int ncols = *irange(o.min_cols, o.max_cols);
  for (int i = 0; i < ncols; i++) root.kids.push_back(mk(1));
  return root;
}

// level entries for one leaf and `rows` records
inline void genLevels(const pw::Leaf &lf, size_t rows, std::vector<int16_t> &def, std::vector<int16_t> &rep) {
  def.clear(); rep.clear();
  if (lf.max_rep == 0) {
    if (lf.max_def == 0) return;
    if (lf.max_def == 1) { auto p = *presentGen(rows); for (auto x : p) def.push_back(x); return; }
    auto p = *presentGen(rows);
    for (size_t i = 0; i < rows; i++) def.push_back(p[i] ? (int16_t)lf.max_def : (int16_t)*irange(0, lf.max_def - 1));
    return;
  }
  for (size_t r = 0; r < rows; r++) {
    int d = *rc::gen::weightedOneOf<int>({{3, rc::gen::just(lf.max_def)}, {2, irange(0, lf.max_def)}});
    def.push_back((int16_t)d); rep.push_back(0);
    int more = *rc::gen::weightedOneOf<int>({{3, rc::gen::just(0)}, {3, irange(1, 4)}, {1, irange(5, 20)}});
    for (int k = 0; k < more; k++) {
      // continue a list at repetition level r: both the previous and the new entry must lie inside that list
      std::vector<int> allowed;
      for (int q = 1; q <= lf.max_rep; q++) if (def.back() >= lf.rep_def[(size_t)q - 1]) allowed.push_back(q);
      if (allowed.empty()) break;
      int q = allowed[(size_t)*irange(0, (int)allowed.size() - 1)];
      int lo = lf.rep_def[(size_t)q - 1];
      int d2 = *rc::gen::weightedOneOf<int>({{3, rc::gen::just(lf.max_def)}, {2, irange(lo, lf.max_def)}});
      def.push_back((int16_t)d2); rep.push_back((int16_t)q);
    }
  }
}

inline uint64_t dxs2(uint64_t &s) { s ^= s << 13; s ^= s >> 7; s ^= s << 17; return s; }
inline pw::ChunkSpec genChunk(const Opts &o, const pw::Leaf &lf, size_t rows, int codec) {
  pw::ChunkSpec cs;
  genLevels(lf, rows, cs.def, cs.rep);
  cs.n = (lf.max_def || lf.max_rep) ? (lf.max_rep ? cs.rep.size() : cs.def.size()) : rows;
  if (lf.max_rep && !lf.max_def) cs.n = cs.rep.size();
  size_t nn = 0;
  for (size_t i = 0; i < cs.n; i++) if (!lf.max_def || cs.def[i] == lf.max_def) nn++;
  bool pool = *irange(0, 2) == 0 || (o.dicts && *irange(0, 1));
  size_t fw = lf.type == pq::INT32 || lf.type == pq::FLOAT ? 4 : lf.type == pq::INT64 || lf.type == pq::DOUBLE ? 8 : lf.type == pq::INT96 ? 12 : 0;
  bool periodic = o.long_period && rows >= 9000 && fw != 0;
  if (periodic) {
    size_t period = (size_t)*rc::gen::weightedOneOf<int>({{3, irange(33000, 65000)}, {1, rc::gen::element(32768, 65532, 65536, 65536)}}) / fw;   // bytes between repetitions: beyond a 32 KiB window, inside a 64 KiB one
    std::vector<Bytes> base; uint64_t sd = (uint64_t)*irange(1, 1 << 30) * 0x9E3779B97F4A7C15ull | 1;
    for (size_t i = 0; i < period; i++) { Bytes v(fw); for (auto &x : v) x = (uint8_t)(dxs2(sd) >> 24); base.push_back(v); }
    for (size_t i = 0; i < nn; i++) cs.values.push_back(base[i % period]);
  } else if (pool) {
    int k = *rc::gen::weightedOneOf<int>({{4, irange(1, 6)}, {2, irange(7, 40)}, {1, irange(250, 300)}});
    auto pv = *rc::gen::container<std::vector<Bytes>>((size_t)k, valueGen(lf.type, lf.type_length));
    auto idx = *gen::anySeq(16);
    for (size_t i = 0; i < nn; i++) cs.values.push_back(pv[(i < idx.size() ? idx[i] : (uint32_t)i * 7) % (uint32_t)k]);
  } else cs.values = *rc::gen::container<std::vector<Bytes>>(nn, valueGen(lf.type, lf.type_length));
  // pages: split points at record boundaries
  std::vector<size_t> bounds;
  for (size_t i = 1; i < cs.n; i++) if (!lf.max_rep || cs.rep[i] == 0) bounds.push_back(i);
  int np = cs.n == 0 ? 0 : (o.max_pages < 2 || periodic) ? 1 : *rc::gen::weightedOneOf<int>({{3, rc::gen::just(1)}, {4, irange(2, o.max_pages)}});
  std::set<size_t> cuts;
  for (int i = 1; i < np && !bounds.empty(); i++) cuts.insert(bounds[(size_t)*irange(0, (int)bounds.size() - 1)]);
  cs.dict = o.dicts && lf.type != pq::BOOLEAN && *irange(0, 2) != 0;
  int denc = *rc::gen::element<int>(pq::PLAIN_DICTIONARY, pq::RLE_DICTIONARY);
  auto pageEnc = [&]() { if (!cs.dict) return (int)pq::PLAIN; int r = *irange(0, 9); return r < 7 ? denc : (int)pq::PLAIN; };
  for (size_t c : cuts) { pw::PageSpec pg; pg.end = c; pg.encoding = pageEnc(); cs.pages.push_back(pg); }
  if (cs.n) { pw::PageSpec pg; pg.end = cs.n; pg.encoding = pageEnc(); cs.pages.push_back(pg); }
  cs.dict_page_encoding = *rc::gen::element<int>(pq::PLAIN, pq::PLAIN_DICTIONARY);
  cs.codec = codec;
  cs.codec_flavour = *rc::gen::element(0, 0, 1);   // ZSTD: 1 = frame without content size (streaming writers)
  cs.index_width_per_page = *rc::gen::element(0, 1);   // 1: each data page uses the index width its own largest index needs (a writer flushing pages while the dictionary grows)
  cs.crc = o.crc && *irange(0, 1);
  cs.seed = (uint32_t)*irange(1, 1 << 30);
  if (o.layouts) {
    cs.dict_offset_present = *irange(0, 5) != 0;
    cs.dict_extra_entries = *rc::gen::element(0, 0, 0, 1, 5);
    cs.index_width_extra = *rc::gen::element(0, 0, 0, 0, 0, 0, 1, 3, 7, 9, 15, 16, 17, 23, 24, 31);   // index widths up to 32: run values of 1..4 bytes
    if (*irange(0, 59) == 0) cs.dict_extra_entries = *rc::gen::element(250, 300, 65530, 65536, 70000);   // dictionaries past 8 / 16 bit indices
    cs.level_style = *rc::gen::element(0, 0, 1, 2, 2);
  }
  if (o.stats) { cs.page_stats = *irange(0, 3) == 0; cs.chunk_stats = *irange(0, 1); cs.stats_mode = *irange(0, 3); }
  if (o.thrift_extras) cs.extra_header_fields = *rc::gen::element(0, 0, 0, 0, 1, 2);
  return cs;
}

inline rc::Gen<pw::FileSpec> specGen(const Opts &o) {
  return rc::gen::exec([o]() {
    pw::FileSpec fs;
    fs.root = genSchema(o);
    auto lv = pw::leaves(fs.root);
    int nrg = *rc::gen::weightedOneOf<int>({{4, rc::gen::just(1)}, {3, irange(1, o.max_rgs)}});
    std::vector<int> codecs = {pq::UNCOMPRESSED};
    if (o.codecs) codecs = {pq::UNCOMPRESSED, pq::UNCOMPRESSED, pq::SNAPPY, pq::GZIP, pq::ZSTD, pq::LZ4_RAW};
    for (int g = 0; g < nrg; g++) {
      size_t rows = o.big ? (size_t)*rc::gen::weightedOneOf<int>({{1, rc::gen::just(0)}, {6, irange(1, o.max_rows)}, {2, irange(1000, 3000)}})
                          : (size_t)*rc::gen::weightedOneOf<int>({{1, rc::gen::just(0)}, {6, irange(1, o.max_rows)}});
      if (rows == 0 && g == 0 && nrg == 1 && *irange(0, 3) != 0) rows = 1 + (size_t)*irange(0, 5);
      if (o.long_period && g == 0 && *irange(0, 39) == 0) rows = (size_t)*irange(9000, 20000);
      fs.rg_rows.push_back((int64_t)rows);
      std::vector<pw::ChunkSpec> rg;
      for (auto &lf : lv) rg.push_back(genChunk(o, lf, rows, codecs[(size_t)*irange(0, (int)codecs.size() - 1)]));
      fs.row_groups.push_back(rg);
    }
    if (o.thrift_extras) {
      if (*irange(0, 1)) fs.created_by = *rc::gen::element<std::string>("parquet-mr version 1.12.3 (build abc)", "ref-writer", "");
      if (*irange(0, 2) == 0) { std::vector<pq::KeyValue> kv; int n = *irange(0, 3); for (int i = 0; i < n; i++) { pq::KeyValue k; k.key = "k" + std::to_string(i); if (i % 2 == 0) k.value = "v" + std::to_string(i); kv.push_back(k); } fs.kv = kv; }
      fs.footer_inject = *rc::gen::element(0, 0, 1, 2, 3);
      fs.footer_seed = (uint32_t)*irange(1, 1 << 30);
      fs.version = *rc::gen::element<int32_t>(1, 2);
    }
    return fs;
  });
}

}  // namespace gf

// ------------------------------------------------------------------------
// Deterministic (seeded, no rapidcheck context) chunk content for enumerators.
namespace gf {
inline uint64_t dxs(uint64_t &s) { s ^= s << 13; s ^= s >> 7; s ^= s << 17; return s; }
inline pw::ChunkSpec detChunk(const pw::Leaf &lf, size_t rows, uint64_t seed) {
  pw::ChunkSpec cs;
  uint64_t s = 0x9E3779B97F4A7C15ull ^ (seed * 2 + 1);
  for (size_t r = 0; r < rows; r++) {
    int d = (int)(dxs(s) % (uint64_t)(lf.max_def + 1));
    if (dxs(s) % 3 == 0) d = lf.max_def;
    if (lf.max_def) cs.def.push_back((int16_t)d);
    if (lf.max_rep) cs.rep.push_back(0);
    int more = lf.max_rep ? (int)(dxs(s) % 4) : 0;
    for (int k = 0; k < more; k++) {
      std::vector<int> allowed;
      for (int q = 1; q <= lf.max_rep; q++) if (d >= lf.rep_def[(size_t)q - 1]) allowed.push_back(q);
      if (allowed.empty()) break;
      int q = allowed[dxs(s) % allowed.size()];
      int lo = lf.rep_def[(size_t)q - 1];
      d = lo + (int)(dxs(s) % (uint64_t)(lf.max_def - lo + 1));
      cs.def.push_back((int16_t)d); cs.rep.push_back((int16_t)q);
    }
  }
  cs.n = lf.max_def ? cs.def.size() : (lf.max_rep ? cs.rep.size() : rows);
  size_t w = pw::fixed_width(lf.type, lf.type_length);
  for (size_t i = 0; i < cs.n; i++) {
    if (lf.max_def && cs.def[i] != lf.max_def) continue;
    Bytes v;
    if (lf.type == pq::BOOLEAN) v.push_back((uint8_t)(dxs(s) & 1));
    else if (w) for (size_t k = 0; k < w; k++) v.push_back((uint8_t)(dxs(s) >> 32));
    else { size_t L = dxs(s) % 6; for (size_t k = 0; k < L; k++) v.push_back((uint8_t)('a' + dxs(s) % 26)); }
    cs.values.push_back(v);
  }
  if (cs.n) { pw::PageSpec pg; pg.end = cs.n; cs.pages.push_back(pg); }
  cs.seed = (uint32_t)seed | 1;
  return cs;
}
}  // namespace gf
