// Structured byte strings for the codec properties (C09, C10): concatenations
// of segments so that long literals, short/long periods, back-references at
// chosen distances (incl. across 64 KiB) and incompressible stretches occur by
// construction.  A case stores the segment descriptors, not the bytes; the
// bytes are a pure function of the descriptors (xorshift expansion of the
// generated seed), so cases stay small and replay exactly.
#pragma once
#include "harness/common/pbt.hpp"

namespace gen {
using pbt::Bytes;

struct Seg {
  int kind = 0;       // 0 random, 1 constant, 2 periodic, 3 copy of earlier output, 4 text-like
  uint32_t len = 0;
  uint32_t a = 0;     // constant byte / period / distance
  uint32_t seed = 0;
};

inline uint64_t xs(uint64_t &s) { s ^= s << 13; s ^= s >> 7; s ^= s << 17; return s; }

inline Bytes expand(const std::vector<Seg> &segs, size_t cap = (size_t)64 << 20) {
  Bytes o;
  for (auto &g : segs) {
    uint64_t st = 0x9E3779B97F4A7C15ull ^ ((uint64_t)g.seed << 1 | 1);
    size_t len = std::min<size_t>(g.len, cap - std::min(cap, o.size()));
    switch (g.kind) {
      case 0: for (size_t i = 0; i < len; i++) o.push_back((uint8_t)(xs(st) >> 24)); break;
      case 1: o.insert(o.end(), len, (uint8_t)g.a); break;
      case 2: { uint32_t p = std::max<uint32_t>(1, g.a % 9); uint8_t pat[9]; for (auto &x : pat) x = (uint8_t)(xs(st) >> 24);
                for (size_t i = 0; i < len; i++) o.push_back(pat[i % p]); break; }
      case 3: { size_t d = g.a; if (d == 0 || d > o.size()) { for (size_t i = 0; i < len; i++) o.push_back((uint8_t)(xs(st) >> 24)); }
                else for (size_t i = 0; i < len; i++) o.push_back(o[o.size() - d]); break; }
      default: { static const char *w[] = {"the ", "parquet ", "column ", "page ", "row ", "group ", "0123", "\n", "value=", "null,"};
                 while (len > 0) { const char *x = w[xs(st) % 10]; size_t k = std::min(len, strlen(x)); o.insert(o.end(), x, x + k); len -= k; } }
    }
  }
  return o;
}

inline rc::Gen<uint32_t> segLen(uint32_t big) {
  return rc::gen::weightedOneOf<uint32_t>({
      {4, rc::gen::map(pbt::irange(0, 20), [](int v) { return (uint32_t)v; })},
      {3, rc::gen::element<uint32_t>(1, 2, 3, 4, 11, 12, 13, 14, 15, 16, 59, 60, 61, 62, 63, 64, 65, 67, 68, 69, 255, 256, 257)},
      {3, rc::gen::map(pbt::irange(21, 2000), [](int v) { return (uint32_t)v; })},
      {1, rc::gen::map(pbt::irange(2000, (int)big), [](int v) { return (uint32_t)v; })},
      {1, rc::gen::element<uint32_t>(65535, 65536, 65537, 70000)},
  });
}
inline rc::Gen<Seg> segGen(uint32_t big) {
  auto dist = rc::gen::weightedOneOf<uint32_t>({
      {3, rc::gen::map(pbt::irange(1, 16), [](int v) { return (uint32_t)v; })},
      {3, rc::gen::element<uint32_t>(60, 64, 68, 255, 256, 2047, 2048, 2049, 32767, 32768, 65535, 65536, 65537, 70000)},
      {1, rc::gen::map(pbt::irange(17, 3000), [](int v) { return (uint32_t)v; })}});
  return rc::gen::mapcat(rc::gen::weightedOneOf<int>({{3, rc::gen::just(0)}, {2, rc::gen::just(1)}, {2, rc::gen::just(2)}, {4, rc::gen::just(3)}, {1, rc::gen::just(4)}}), [=](int kind) {
    auto a = kind == 3 ? dist : rc::gen::map(pbt::irange(0, 255), [](int v) { return (uint32_t)v; });
    return rc::gen::map(rc::gen::tuple(segLen(big), a, rc::gen::map(pbt::irange(0, 1 << 30), [](int v) { return (uint32_t)v; })),
                        [kind](const std::tuple<uint32_t, uint32_t, uint32_t> &t) { Seg s; s.kind = kind; s.len = std::get<0>(t); s.a = std::get<1>(t); s.seed = std::get<2>(t); return s; });
  });
}
// window construct: a stretch of fresh bytes about as long as a codec window (2^15, 2^16, 2^17), then a copy from exactly that
// distance or one byte to either side - short (one match) or long (the input becomes periodic at the window size), then a tail
inline rc::Gen<std::vector<Seg>> windowSegs() {
  return rc::gen::map(rc::gen::tuple(rc::gen::element<uint32_t>(1u << 15, 1u << 16, 1u << 16, 1u << 16, 1u << 17), pbt::irange(0, 6), pbt::irange(-1, 1),
                                     rc::gen::weightedOneOf<int>({{2, pbt::irange(4, 300)}, {1, pbt::irange(301, 200000)}}), pbt::irange(0, 1 << 30), pbt::irange(0, 3), pbt::irange(0, 40)),
                      [](const std::tuple<uint32_t, int, int, int, int, int, int> &t) {
                        uint32_t w = std::get<0>(t);
                        int j = std::get<1>(t) - 2;   // the fresh stretch ends 2 bytes before .. 4 bytes after the window size
                        Seg a; a.kind = std::get<5>(t) == 0 ? 4 : 0; a.len = (uint32_t)((int)w + j); a.seed = (uint32_t)std::get<4>(t);
                        Seg b; b.kind = 3; b.a = (uint32_t)((int)w + std::get<2>(t)); if (b.a > a.len) b.a = a.len; b.len = (uint32_t)std::get<3>(t);
                        std::vector<Seg> v{a, b};
                        if (std::get<6>(t)) { Seg c; c.kind = 0; c.len = (uint32_t)std::get<6>(t); c.seed = a.seed ^ 0x5555; v.push_back(c); Seg d = b; d.len = 40; v.push_back(d); }
                        return v;
                      });
}
inline rc::Gen<std::vector<Seg>> segsGen(uint32_t big) {
  auto any = rc::gen::container<std::vector<Seg>>(segGen(big));
  if (big < 140000) return any;
  return rc::gen::weightedOneOf<std::vector<Seg>>({{14, any}, {1, windowSegs()}});
}

inline void putSegs(pbt::CaseText &t, const std::vector<Seg> &s) {
  std::vector<uint32_t> f;
  for (auto &g : s) { f.push_back((uint32_t)g.kind); f.push_back(g.len); f.push_back(g.a); f.push_back(g.seed); }
  t.put_ints("segs", f);
}
inline std::vector<Seg> getSegs(const pbt::CaseText &t) {
  std::vector<uint32_t> f = t.get_ints<uint32_t>("segs");
  std::vector<Seg> s;
  for (size_t i = 0; i + 3 < f.size(); i += 4) { Seg g; g.kind = (int)f[i]; g.len = f[i + 1]; g.a = f[i + 2]; g.seed = f[i + 3]; s.push_back(g); }
  return s;
}

}  // namespace gen
