// Sequence generators shared by the encoding harnesses.
#pragma once
#include "harness/common/pbt.hpp"

namespace gen {
using pbt::Bytes;

// run lengths that straddle the hybrid encoder's group (8) and the delta
// encoder's mini-block (32) / block (128) boundaries
inline rc::Gen<int> runLen() {
  return rc::gen::weightedOneOf<int>({
      {6, pbt::irange(1, 7)},
      {4, rc::gen::element(8, 9, 15, 16, 17)},
      {2, rc::gen::element(23, 24, 25, 31, 32, 33, 63, 64, 65)},
      {1, rc::gen::element(127, 128, 129, 255, 256, 257)},
  });
}

inline uint32_t maskw(int w) { return w >= 32 ? 0xFFFFFFFFu : ((1u << w) - 1u); }

// values of a given bit width: boundary-heavy
inline rc::Gen<uint32_t> valueOfWidth(int w) {
  uint32_t m = maskw(w);
  if (w == 0) return rc::gen::just<uint32_t>(0);
  return rc::gen::weightedOneOf<uint32_t>({
      {3, rc::gen::element<uint32_t>(0, 1 & m, m, m >> 1, (m >> 1) + 1)},
      {3, rc::gen::map(pbt::bits64(), [m](uint64_t v) { return (uint32_t)v & m; })},
      {2, rc::gen::map(pbt::irange(0, 3), [m](int v) { return (uint32_t)v & m; })},
  });
}

// run-structured sequence: segments (value, run length) flattened
inline rc::Gen<std::vector<uint32_t>> runSeq(int w) {
  auto seg = rc::gen::pair(valueOfWidth(w), runLen());
  return rc::gen::map(rc::gen::container<std::vector<std::pair<uint32_t, int>>>(seg),
                      [](const std::vector<std::pair<uint32_t, int>> &s) {
                        std::vector<uint32_t> v;
                        for (auto &p : s) v.insert(v.end(), (size_t)p.second, p.first);
                        return v;
                      });
}

// a few very long runs: run headers of three and four varint bytes (run >= 8192, >= 1048576), 16-bit counters
inline rc::Gen<std::vector<uint32_t>> longRunSeq(int w) {
  auto len = rc::gen::weightedOneOf<int>({{6, rc::gen::element(8191, 8192, 8193, 16383, 16384, 16385, 20000, 32767, 32768, 65535, 65536, 65537)}, {1, rc::gen::element(1048575, 1048576, 1048577)}, {3, runLen()}});
  auto seg = rc::gen::pair(valueOfWidth(w), len);
  return rc::gen::map(rc::gen::resize(3, rc::gen::container<std::vector<std::pair<uint32_t, int>>>(seg)),
                      [](const std::vector<std::pair<uint32_t, int>> &s) {
                        std::vector<uint32_t> v;
                        size_t total = 0;
                        for (auto &p : s) { if (total + (size_t)p.second > 2200000) break; v.insert(v.end(), (size_t)p.second, p.first); total += (size_t)p.second; }
                        return v;
                      });
}

inline rc::Gen<std::vector<uint32_t>> anySeq(int w, bool allow_long = true) {
  return rc::gen::weightedOneOf<std::vector<uint32_t>>({
      {60, runSeq(w)},
      {20, rc::gen::container<std::vector<uint32_t>>(valueOfWidth(w))},
      {1, allow_long ? longRunSeq(w) : runSeq(w)},
  });
}

// does the sequence contain a run >= 8 that starts at a position that is not a multiple of 8?
inline bool hasUnalignedLongRun(const std::vector<uint32_t> &v) {
  size_t i = 0;
  while (i < v.size()) {
    size_t j = i;
    while (j < v.size() && v[j] == v[i]) j++;
    if (j - i >= 8 && (i % 8) != 0) return true;
    i = j;
  }
  return false;
}

inline rc::Gen<Bytes> bytesGen(int maxLen) {
  return rc::gen::weightedOneOf<Bytes>({
      {1, rc::gen::just(Bytes{})},
      {5, rc::gen::resize(maxLen, rc::gen::container<Bytes>(rc::gen::arbitrary<uint8_t>()))},
      {2, rc::gen::map(rc::gen::pair(pbt::irange(0, maxLen), rc::gen::element<uint8_t>(0, 'a', 0xff)),
                       [](const std::pair<int, uint8_t> &p) { return Bytes((size_t)p.first, p.second); })},
  });
}

inline rc::Gen<int64_t> int64Gen() {
  return rc::gen::weightedOneOf<int64_t>({
      {3, rc::gen::element<int64_t>(0, 1, -1, INT64_MIN, INT64_MAX, INT32_MIN, INT32_MAX, (int64_t)INT32_MAX + 1, (int64_t)INT32_MIN - 1)},
      {4, rc::gen::map(pbt::bits64(), [](uint64_t v) { return (int64_t)v; })},
      {3, rc::gen::map(pbt::irange(-1000, 1000), [](int v) { return (int64_t)v; })},
      {2, rc::gen::map(rc::gen::pair(pbt::bits64(), pbt::irange(0, 63)), [](const std::pair<uint64_t, int> &p) { return (int64_t)(p.first >> p.second); })},
  });
}
inline rc::Gen<int32_t> int32Gen() {
  return rc::gen::weightedOneOf<int32_t>({
      {3, rc::gen::element<int32_t>(0, 1, -1, INT32_MIN, INT32_MAX, INT32_MIN + 1, INT32_MAX - 1)},
      {4, rc::gen::map(pbt::bits64(), [](uint64_t v) { return (int32_t)(uint32_t)v; })},
      {3, pbt::irange(-1000, 1000)},
      {2, rc::gen::map(rc::gen::pair(pbt::bits64(), pbt::irange(0, 31)), [](const std::pair<uint64_t, int> &p) { return (int32_t)((uint32_t)p.first >> p.second); })},
  });
}
// float / double bit patterns: NaN payloads, -0.0, infinities, denormals
inline rc::Gen<uint32_t> f32bits() {
  return rc::gen::weightedOneOf<uint32_t>({
      {3, rc::gen::element<uint32_t>(0, 0x80000000u, 0x7f800000u, 0xff800000u, 0x7fc00000u, 0xffc00001u, 0x7f800001u, 1u, 0x007fffffu, 0x3f800000u)},
      {4, rc::gen::map(pbt::bits64(), [](uint64_t v) { return (uint32_t)v; })},
  });
}
inline rc::Gen<uint64_t> f64bits() {
  return rc::gen::weightedOneOf<uint64_t>({
      {3, rc::gen::element<uint64_t>(0, 0x8000000000000000ull, 0x7ff0000000000000ull, 0xfff0000000000000ull, 0x7ff8000000000000ull, 0xfff8000000000001ull, 1ull, 0x3ff0000000000000ull)},
      {4, pbt::bits64()},
  });
}

}  // namespace gen
