// C03: file, mmap and in-memory-buffer reading are observationally equivalent.
// The same generated script (metadata queries, statistics API, a column-reader history on every chunk,
// a batch-reader run) is executed in the three modes and the transcripts are compared pairwise,
// byte for byte.  The two mode-reporting getters are called but not compared.  In every mode the row
// batches are kept while the batch reader is freed, re-read from the retained handles and compared
// again before the reader is closed (zero-copy lifetime).
#include <dirent.h>
#include <fcntl.h>
#include "harness/common/pbt.hpp"
#include "harness/common/consume.hpp"
#include "gen/files.hpp"

using namespace pbt;

struct C { pw::FileSpec fs; std::vector<cs::Op> ops; int batch = 8; std::vector<int> proj; bool by_name = false; bool verify = true; };
static CaseText ser(const C &c) { CaseText t; cs::putOps(t, "ops", c.ops); t.put_i("batch", c.batch); t.put_ints("proj", c.proj); t.put_i("by_name", c.by_name); t.put_i("verify", c.verify); gf::putSpec(t, c.fs); return t; }
static C de(const CaseText &t) { C c; c.ops = cs::getOps(t, "ops"); c.batch = (int)t.get_i("batch"); c.proj = t.get_ints<int>("proj"); c.by_name = t.get_i("by_name"); c.verify = t.get_i("verify"); c.fs = gf::getSpec(t); return c; }

static rc::Gen<C> genC() {
  gf::Opts o; o.nested = false; o.max_cols = 5; o.max_rows = 40; o.max_rgs = 3; o.max_pages = 6; o.thrift_extras = false; o.layouts = false;
  // REQUIRED fixed-width columns matter here (zero-copy eligible): bias towards them
  auto op = rc::gen::map(rc::gen::pair(rc::gen::weightedOneOf<int>({{5, rc::gen::just(0)}, {3, rc::gen::just(2)}, {1, rc::gen::just(3)}, {1, rc::gen::just(4)}, {1, rc::gen::just(5)}}), rc::gen::weightedOneOf<int>({{5, irange(0, 9)}, {2, irange(0, 45)}})),
                         [](const std::pair<int, int> &p) { return cs::Op{p.first, p.second}; });
  return rc::gen::mapcat(rc::gen::arbitrary<bool>(), [o, op](bool req) {
    gf::Opts o2 = o; if (req) { o2.all_required = true; o2.types = {pq::INT32, pq::INT64, pq::FLOAT, pq::DOUBLE, pq::FIXED_LEN_BYTE_ARRAY, pq::BYTE_ARRAY, pq::INT96}; o2.dicts = false; o2.codecs = false; }
    return rc::gen::mapcat(gf::specGen(o2), [op](const pw::FileSpec &fs) {
      int nl = (int)pw::leaves(fs.root).size();
      auto proj = rc::gen::weightedOneOf<std::vector<int>>({{3, rc::gen::just(std::vector<int>{})}, {2, rc::gen::container<std::vector<int>>(irange(0, nl - 1))}});
      return rc::gen::map(rc::gen::tuple(rc::gen::container<std::vector<cs::Op>>(op), rc::gen::weightedOneOf<int>({{5, irange(1, 12)}, {2, irange(13, 50)}, {1, rc::gen::just(65536)}}), proj, rc::gen::arbitrary<bool>(), rc::gen::arbitrary<bool>()),
                          [fs](const std::tuple<std::vector<cs::Op>, int, std::vector<int>, bool, bool> &t) { C c; c.fs = fs; c.ops = std::get<0>(t); c.batch = std::get<1>(t); c.proj = std::get<2>(t); c.by_name = std::get<3>(t); c.verify = std::get<4>(t); return c; });
    });
  });
}

static std::string metaTranscript(carquet_reader_t *r) {
  std::string o;
  char b[256];
  snprintf(b, sizeof b, "rows=%lld rgs=%d cols=%d\n", (long long)carquet_reader_num_rows(r), carquet_reader_num_row_groups(r), carquet_reader_num_columns(r)); o += b;
  const carquet_schema_t *s = carquet_reader_schema(r);
  for (int32_t i = 0; i < carquet_schema_num_elements(s); i++) {
    const carquet_schema_node_t *n = carquet_schema_get_element(s, i);
    snprintf(b, sizeof b, "elem %d name=%s leaf=%d rep=%d", i, carquet_schema_node_name(n), (int)carquet_schema_node_is_leaf(n), (int)carquet_schema_node_repetition(n)); o += b;
    if (carquet_schema_node_is_leaf(n)) { snprintf(b, sizeof b, " type=%d tl=%d def=%d rp=%d lt=%d", (int)carquet_schema_node_physical_type(n), carquet_schema_node_type_length(n), carquet_schema_node_max_def_level(n), carquet_schema_node_max_rep_level(n), carquet_schema_node_logical_type(n) ? (int)carquet_schema_node_logical_type(n)->id : -1); o += b; }
    o += "\n";
  }
  for (int32_t g = -1; g <= carquet_reader_num_row_groups(r); g++) {
    carquet_row_group_metadata_t m; memset(&m, 0, sizeof m);
    carquet_status_t st = carquet_reader_row_group_metadata(r, g, &m);
    snprintf(b, sizeof b, "rg %d status=%d rows=%lld bytes=%lld comp=%lld\n", g, (int)st, (long long)m.num_rows, (long long)m.total_byte_size, (long long)m.total_compressed_size); o += b;
    if (st != CARQUET_OK) continue;
    for (int32_t c = 0; c < carquet_reader_num_columns(r); c++) {
      carquet_column_statistics_t cs2; memset(&cs2, 0, sizeof cs2);
      st = carquet_reader_column_statistics(r, g, c, &cs2);
      snprintf(b, sizeof b, " stats %d status=%d mm=%d nc=%d dc=%d nulls=%lld nv=%lld", c, (int)st, (int)cs2.has_min_max, (int)cs2.has_null_count, (int)cs2.has_distinct_count, (long long)cs2.null_count, (long long)cs2.num_values); o += b;
      if (st == CARQUET_OK && cs2.has_min_max) o += " min=" + pbt::hex((const uint8_t *)cs2.min_value, (size_t)cs2.min_value_size) + " max=" + pbt::hex((const uint8_t *)cs2.max_value, (size_t)cs2.max_value_size);
      o += "\n";
      (void)carquet_reader_can_zero_copy(r, g, c);   // mode-reporting getter: called, not compared
    }
  }
  (void)carquet_reader_is_mmap(r);
  return o;
}

static std::string transcriptOf(const C &c, rd::Opened &op, int mode, const std::vector<pw::Leaf> &lv, std::string &life_err);
static std::string runMode(const C &c, const Bytes &bytes, int mode, const std::vector<pw::Leaf> &lv, std::string &life_err) {
  rd::Opened op(bytes, mode, c.verify);
  return transcriptOf(c, op, mode, lv, life_err);
}
static std::string transcriptOf(const C &c, rd::Opened &op, int mode, const std::vector<pw::Leaf> &lv, std::string &life_err) {
  if (!op.r) return std::string("open failed code=") + std::to_string((int)op.err.code) + "\n";
  std::string t = metaTranscript(op.r);
  for (size_t g = 0; g < c.fs.row_groups.size(); g++)
    for (size_t k = 0; k < lv.size(); k++) { t += "chunk " + std::to_string(g) + "," + std::to_string(k) + "\n"; t += cs::colHistory(op.r, (int)g, (int)k, lv[k].max_def, c.ops); }
  cs::BatchCfg cfg; cfg.batch_size = c.batch; cfg.proj = c.proj; cfg.by_name = c.by_name;
  cs::BatchRun run = cs::runBatches(op.r, cfg, true);
  std::string bt = cs::transcript(run);
  t += bt;
  // zero-copy lifetime: free the batch reader, keep the row batches, read them again
  if (run.br) { carquet_batch_reader_free(run.br); run.br = nullptr; }
  std::vector<int> cols = c.proj; if (cols.empty()) for (size_t i = 0; i < lv.size(); i++) cols.push_back((int)i);
  cs::BatchRun again; again.created = run.created; again.create_code = run.create_code; again.end_status = run.end_status;
  for (auto *b : run.kept) { cs::BatchOut o; cs::captureBatch(op.r, cols, b, o); again.batches.push_back(o); }
  if (cs::transcript(again) != bt) life_err = std::string("content of retained row batches changed after the batch reader was freed (") + rd::modeName(mode) + ")";
  for (auto *b : run.kept) carquet_row_batch_free(b);
  return t;
}
static std::string firstDiff(const std::string &a, const std::string &b) {
  size_t la = 0, lb = 0; int line = 1;
  while (la < a.size() || lb < b.size()) {
    size_t ea = a.find('\n', la), eb = b.find('\n', lb);
    std::string x = a.substr(la, ea == std::string::npos ? ea : ea - la), y = b.substr(lb, eb == std::string::npos ? eb : eb - lb);
    if (x != y) return "line " + std::to_string(line) + ": '" + x.substr(0, 160) + "' vs '" + y.substr(0, 160) + "'";
    if (ea == std::string::npos || eb == std::string::npos) break;
    la = ea + 1; lb = eb + 1; line++;
  }
  return "transcripts differ in length";
}
static Verdict runC(const C &c) {
  Verdict vd;
  auto lv = pw::leaves(c.fs.root);
  pw::Written w = pw::write_file(c.fs);
  std::string life;
  std::string t0 = runMode(c, w.bytes, rd::FREAD, lv, life);
  PBT_CHECK(vd, life.empty(), "%s", life.c_str());
  std::string t1 = runMode(c, w.bytes, rd::MMAP, lv, life);
  PBT_CHECK(vd, life.empty(), "%s", life.c_str());
  std::string t2 = runMode(c, w.bytes, rd::BUFFER, lv, life);
  PBT_CHECK(vd, life.empty(), "%s", life.c_str());
  PBT_CHECK(vd, t0.rfind("open failed", 0) != 0, "valid file rejected by the stdio path: %s", t0.c_str());
  PBT_CHECK(vd, t0 == t1, "fread vs mmap differ at %s", firstDiff(t0, t1).c_str());
  PBT_CHECK(vd, t0 == t2, "fread vs buffer differ at %s", firstDiff(t0, t2).c_str());
  // classification
  bool zc = false, nonzc = false, multipage = false, i32 = false, i64 = false; size_t minpage = (size_t)-1;
  for (size_t g = 0; g < c.fs.row_groups.size(); g++)
    for (size_t k = 0; k < lv.size(); k++) {
      auto &cs2 = c.fs.row_groups[g][k];
      bool fixed = pw::fixed_width(lv[k].type, lv[k].type_length) > 1 || lv[k].type == pq::FIXED_LEN_BYTE_ARRAY;
      bool elig = lv[k].max_def == 0 && fixed && cs2.codec == pq::UNCOMPRESSED && !cs2.dict;
      if (elig) zc = true; else nonzc = true;
      if (elig && lv[k].type == pq::INT32) i32 = true; if (elig && lv[k].type == pq::INT64) i64 = true;
      if (cs2.pages.size() >= 2) multipage = true;
      size_t prev = 0; for (auto &pg : cs2.pages) { minpage = std::min(minpage, pg.end - prev); prev = pg.end; }
    }
  vd.nontrivial = multipage && zc && nonzc && (size_t)c.batch > minpage;
  if (zc) vd.label("zero_copy_eligible_column"); if (zc && nonzc) vd.label("mix_eligible_and_not"); if (i32 && i64) vd.label("int32_next_to_int64_required");
  if (c.verify) vd.label("verify_checksums"); if (multipage) vd.label("multi_page");
  return vd;
}

// Readers in several modes open at the same time, closed in a generated order: each must deliver what it delivers alone,
// closing one must not disturb the others nor descriptors the library does not own, and no descriptor may stay open.
static int openFds() { int n = 0; DIR *d = opendir("/proc/self/fd"); if (!d) return -1; while (readdir(d)) n++; closedir(d); return n; }
static Verdict runCoexist(const C &c) {
  Verdict vd;
  auto lv = pw::leaves(c.fs.root);
  pw::Written w = pw::write_file(c.fs);
  std::string life, alone[3];
  for (int m = 0; m < 3; m++) alone[m] = runMode(c, w.bytes, m, lv, life);
  PBT_CHECK(vd, alone[0].rfind("open failed", 0) != 0, "valid file rejected by the stdio path: %s", alone[0].c_str());
  int fds0 = openFds();
  // open order and close order from the case: modes may repeat (two mmap readers of one file)
  uint64_t s = 0x9E3779B97F4A7C15ull ^ ((uint64_t)c.batch * 7919 + c.ops.size() * 31 + 1);
  int n = 2 + (int)(gf::dxs(s) % 3);
  std::vector<rd::Opened *> rs; std::vector<int> modes, sentinels;
  for (int i = 0; i < n; i++) {
    int m = (int)(gf::dxs(s) % 3);
    rs.push_back(new rd::Opened(w.bytes, m, c.verify)); modes.push_back(m);
    sentinels.push_back(open("/dev/null", O_RDONLY));   // a descriptor of the application, opened after the reader
  }
  std::vector<int> alive(n, 1);
  for (int step = 0; step < n; step++) {
    int victim; do { victim = (int)(gf::dxs(s) % (uint64_t)n); } while (!alive[(size_t)victim]);
    delete rs[(size_t)victim]; rs[(size_t)victim] = nullptr; alive[(size_t)victim] = 0;
    for (int fd : sentinels) PBT_CHECK(vd, fcntl(fd, F_GETFD) != -1, "closing a %s reader closed a descriptor that belongs to the application", rd::modeName(modes[(size_t)victim]));
    for (int i = 0; i < n; i++) if (alive[(size_t)i] && (gf::dxs(s) & 1)) {
      std::string t = transcriptOf(c, *rs[(size_t)i], modes[(size_t)i], lv, life);
      PBT_CHECK(vd, t == alone[modes[(size_t)i]], "a %s reader delivers different content after a %s reader of the same file was closed: %s", rd::modeName(modes[(size_t)i]), rd::modeName(modes[(size_t)victim]), firstDiff(alone[modes[(size_t)i]], t).c_str());
      delete rs[(size_t)i]; rs[(size_t)i] = new rd::Opened(w.bytes, modes[(size_t)i], c.verify);   // a column/batch history consumes the reader's chunks only once per handle set; reopen for later steps
    }
  }
  for (int fd : sentinels) close(fd);
  int fds1 = openFds();
  PBT_CHECK(vd, fds0 == fds1, "%d descriptors open before the readers were created, %d after all were closed", fds0, fds1);
  vd.nontrivial = n >= 2; vd.label("readers=" + std::to_string(n));
  return vd;
}

int main(int argc, char **argv) {
  add<C>("modes", 1, genC, ser, de, runC);
  add<C>("coexist", 0.4, genC, ser, de, runCoexist);
  return main_(argc, argv);
}
