// C07: parallel reading is independent of thread count and scheduling.
//  threads     : the batch reader with num_threads = T and a forced I/O schedule (link-time wrap of fseek/fread:
//                yield / sleep / rendezvous at every stdio call of the library) must return the same batches and
//                statuses as with num_threads = 1.
//  independent : N pthreads, each with its own reader (modes mixed) on the same file, released by a barrier, must
//                each see the sequential content.
//  first_use   : the same in a fresh process (re-exec) in which nothing of carquet has run before the threads start
//                (lazy CRC tables, dispatch table, CPU detection, per-thread ZSTD contexts).
#include "harness/common/pbt.hpp"
#include "harness/common/cwriter.hpp"
#include <atomic>
#include <pthread.h>
#include <sched.h>
#include <sys/wait.h>

using namespace pbt;

// ------------------------------------------------------------ schedule forcer
static std::atomic<bool> g_sched_on{false};
static std::vector<uint8_t> g_sched;            // delay classes consumed round-robin
static std::atomic<size_t> g_sched_pos{0};
static std::atomic<long> g_seek_count{0};
extern "C" {
int __real_fseek(FILE *, long, int);
size_t __real_fread(void *, size_t, size_t, FILE *);
static void perturb(bool is_seek) {
  if (!g_sched_on.load(std::memory_order_relaxed) || g_sched.empty()) return;
  uint8_t c = g_sched[g_sched_pos.fetch_add(1) % g_sched.size()];
  switch (c % 5) {
    case 0: break;
    case 1: sched_yield(); break;
    case 2: usleep(50 + (c >> 3) * 20); break;
    case 3: for (int i = 0; i < 3; i++) sched_yield(); break;
    default:   // rendezvous: after a seek, wait (bounded) until another thread has also seeked
      if (is_seek) { long mine = g_seek_count.load(); for (int spin = 0; spin < 400 && g_seek_count.load() == mine; spin++) usleep(5); }
      break;
  }
}
int __wrap_fseek(FILE *f, long off, int wh) { int r = __real_fseek(f, off, wh); if (g_sched_on.load(std::memory_order_relaxed)) { g_seek_count.fetch_add(1); perturb(true); } return r; }
size_t __wrap_fread(void *p, size_t s, size_t n, FILE *f) { perturb(false); return __real_fread(p, s, n, f); }
}

// ------------------------------------------------------------------- cases
struct C { pw::FileSpec fs; int mode = 0; int threads = 4; int batch = 16; std::vector<int> proj; std::vector<uint8_t> sched; int readers = 4; };
static CaseText ser(const C &c) { CaseText t; t.put_i("mode", c.mode); t.put_i("threads", c.threads); t.put_i("batch", c.batch); t.put_ints("proj", c.proj); t.put_bytes("sched", c.sched); t.put_i("readers", c.readers); gf::putSpec(t, c.fs); return t; }
static C de(const CaseText &t) { C c; c.mode = (int)t.get_i("mode"); c.threads = (int)t.get_i("threads"); c.batch = (int)t.get_i("batch"); c.proj = t.get_ints<int>("proj"); c.sched = t.get_bytes("sched"); c.readers = (int)t.get_i("readers"); c.fs = gf::getSpec(t); return c; }
static rc::Gen<C> genC() {
  gf::Opts o; o.max_cols = 12; o.max_rows = 120; o.max_rgs = 2; o.max_pages = 8; o.thrift_extras = false; o.layouts = false; o.stats = false;
  // a third of the files hold string columns only (per-column payload copies, retained page buffers) and at least four of them
  gf::Opts so = o; so.types = {pq::BYTE_ARRAY}; so.min_cols = 4;
  // page headers as other writers produce them: min/max statistics of (long) string values and unknown fields make a header
  // longer than the reader's first read window, so that reading one header takes several stream operations
  gf::Opts ho = so; ho.stats = true; ho.thrift_extras = true; ho.min_cols = 3;
  auto longHeaders = rc::gen::map(gf::specGen(ho), [](const pw::FileSpec &f0) { pw::FileSpec f = f0; for (auto &rg : f.row_groups) for (auto &cs : rg) { cs.page_stats = true; } return f; });
  return rc::gen::mapcat(rc::gen::weightedOneOf<pw::FileSpec>({{4, gf::specGen(o)}, {2, gf::specGen(so)}, {2, longHeaders}}), [](const pw::FileSpec &fs0) {
    pw::FileSpec fs = fs0;
    int nl = (int)pw::leaves(fs.root).size();
    auto proj = rc::gen::weightedOneOf<std::vector<int>>({{4, rc::gen::just(std::vector<int>{})}, {1, rc::gen::container<std::vector<int>>(irange(0, nl - 1))}});
    return rc::gen::map(rc::gen::tuple(irange(0, 2), rc::gen::weightedOneOf<int>({{5, irange(2, 16)}, {1, rc::gen::just(0)}, {1, rc::gen::just(1)}}), rc::gen::weightedOneOf<int>({{3, irange(1, 40)}, {2, irange(41, 500)}}), proj,
                                       rc::gen::container<std::vector<uint8_t>>(rc::gen::arbitrary<uint8_t>()), irange(2, 8)),
                        [fs](const std::tuple<int, int, int, std::vector<int>, std::vector<uint8_t>, int> &t) { C c; c.fs = fs; c.mode = std::get<0>(t); c.threads = std::get<1>(t); c.batch = std::get<2>(t); c.proj = std::get<3>(t); c.sched = std::get<4>(t); if (c.sched.empty()) c.sched = {4, 1, 4, 2}; c.readers = std::get<5>(t); return c; });
  });
}
static std::string batchTranscript(const Bytes &bytes, int mode, int threads, int batch, const std::vector<int> &proj, bool &opened) {
  rd::Opened op(bytes, mode, true, threads);
  opened = op.r != nullptr;
  if (!op.r) return "open failed\n";
  cs::BatchCfg cfg; cfg.batch_size = batch; cfg.threads = threads; cfg.proj = proj;
  cs::BatchRun run = cs::runBatches(op.r, cfg, false);
  return cs::transcript(run);
}
// the same content through the column-reader API (page checksums and decoders are entered directly, without the batch
// reader's serial prefetch in front of them)
static std::string columnTranscript(const Bytes &bytes, int mode, int batch, bool &opened) {
  rd::Opened op(bytes, mode, true, 1);
  opened = op.r != nullptr;
  if (!op.r) return "open failed\n";
  std::string o;
  int nrg = carquet_reader_num_row_groups(op.r), nc = carquet_reader_num_columns(op.r);
  for (int g = 0; g < nrg; g++)
    for (int col = 0; col < nc; col++) {
      rd::ColInfo ci; rd::Content got; std::string err;
      if (!rd::colInfo(op.r, col, ci)) { o += "no colinfo\n"; continue; }
      bool ok = rd::readChunk(op.r, g, col, batch, ci.max_def, got, err);
      o += "rg " + std::to_string(g) + " col " + std::to_string(col) + (ok ? " ok " : " FAIL " + err + " ") + std::to_string(got.rows) + " rows:";
      for (auto d : got.def) o += std::to_string(d) + ",";
      o += "|"; for (auto &v : got.values) o += pbt::hex(v) + ",";
      o += "\n";
    }
  return o;
}
static int projectedWithPages(const C &c) {
  auto lv = pw::leaves(c.fs.root); std::vector<int> cols = c.proj; if (cols.empty()) for (size_t i = 0; i < lv.size(); i++) cols.push_back((int)i);
  std::set<int> d(cols.begin(), cols.end()); int n = 0;
  for (int col : d) { bool multi = false; for (auto &rg : c.fs.row_groups) if (rg[(size_t)col].n > 0) multi = true; if (multi) n++; }
  return n;
}

static Verdict runThreads(const C &c) {
  Verdict vd;
  pw::Written w = pw::write_file(c.fs);
  bool opened = false;
  std::string ref = batchTranscript(w.bytes, c.mode, 1, c.batch, c.proj, opened);
  PBT_CHECK(vd, opened, "valid file rejected at open");
  g_sched = c.sched; g_sched_pos = 0; g_sched_on = true;
  std::string par = batchTranscript(w.bytes, c.mode, c.threads, c.batch, c.proj, opened);
  g_sched_on = false;
  int np = projectedWithPages(c);
  vd.nontrivial = np >= 2 && c.threads != 1;
  vd.label(rd::modeName(c.mode)); vd.label("threads=" + std::to_string(c.threads));
  if (ref != par) {
    size_t i = 0; while (i < ref.size() && i < par.size() && ref[i] == par[i]) i++;
    size_t ls = ref.rfind('\n', i); ls = ls == std::string::npos ? 0 : ls + 1;
    PBT_CHECK(vd, false, "%s, num_threads=%d, batch_size=%d: batches differ from the single-threaded run near '%s' vs '%s'", rd::modeName(c.mode), c.threads, c.batch, ref.substr(ls, 120).c_str(), par.substr(std::min(ls, par.size()), 120).c_str());
  }
  return vd;
}

// ---------------------------------------------------------------- independent readers
struct ThreadArg { const Bytes *bytes; int mode; int batch; std::vector<int> proj; pthread_barrier_t *bar; std::string out; bool opened = false; int skew = 0; bool column_api = false; };
// The library caches one ZSTD context per thread and never frees it when a thread exits; LeakSanitizer reports that for
// every exited pthread. Leaks are C19's subject; here allocations made by the short-lived reader threads are not tracked.
extern "C" void __lsan_disable() __attribute__((weak));
static void *readerThread(void *p) {
  ThreadArg *a = (ThreadArg *)p;
  if (__lsan_disable) __lsan_disable();
  pthread_barrier_wait(a->bar);
  for (int i = 0; i < a->skew; i++) sched_yield();
  a->out = a->column_api ? columnTranscript(*a->bytes, a->mode, a->batch, a->opened) : batchTranscript(*a->bytes, a->mode, 1, a->batch, a->proj, a->opened);
  return nullptr;
}
static std::string runIndependent(const Bytes &bytes, const C &c, const std::vector<std::string> &refs, bool have_refs) {
  int N = c.readers;
  std::vector<ThreadArg> args((size_t)N);
  std::vector<pthread_t> th((size_t)N);
  pthread_barrier_t bar; pthread_barrier_init(&bar, nullptr, (unsigned)N);
  for (int i = 0; i < N; i++) { args[(size_t)i].bytes = &bytes; args[(size_t)i].mode = (c.mode + i) % 3; args[(size_t)i].batch = c.batch; args[(size_t)i].proj = c.proj; args[(size_t)i].bar = &bar; args[(size_t)i].skew = c.sched.empty() ? 0 : c.sched[(size_t)i % c.sched.size()] % 4; args[(size_t)i].column_api = ((i + c.batch) % 3) != 0; }
  for (int i = 0; i < N; i++) pthread_create(&th[(size_t)i], nullptr, readerThread, &args[(size_t)i]);
  for (int i = 0; i < N; i++) pthread_join(th[(size_t)i], nullptr);
  pthread_barrier_destroy(&bar);
  std::vector<std::string> want = refs;
  if (!have_refs) { want.clear(); for (int m = 0; m < 3; m++) { bool o; want.push_back(batchTranscript(bytes, m, 1, c.batch, c.proj, o)); } }   // sequential reference computed afterwards
  std::vector<std::string> wantc; for (int m = 0; m < 3; m++) { bool o; wantc.push_back(columnTranscript(bytes, m, c.batch, o)); }            // column API reference: always afterwards
  for (int i = 0; i < N; i++) if (args[(size_t)i].out != (args[(size_t)i].column_api ? wantc : want)[(size_t)args[(size_t)i].mode]) return "reader " + std::to_string(i) + " of " + std::to_string(N) + " (" + rd::modeName(args[(size_t)i].mode) + ") returned different content when used concurrently with the others";
  return "";
}
static Verdict runIndep(const C &c) {
  Verdict vd;
  pw::Written w = pw::write_file(c.fs);
  std::vector<std::string> refs; for (int m = 0; m < 3; m++) { bool o; refs.push_back(batchTranscript(w.bytes, m, 1, c.batch, c.proj, o)); }
  std::string why = runIndependent(w.bytes, c, refs, true);
  PBT_CHECK(vd, why.empty(), "%s", why.c_str());
  vd.nontrivial = c.readers >= 2 && projectedWithPages(c) >= 1; vd.label("readers=" + std::to_string(c.readers));
  return vd;
}
// first use in a fresh process: re-exec ourselves with the case file
static std::string g_self;
static Verdict runFirstUse(const C &c) {
  Verdict vd;
  std::string path = rd::tmpPath("fu") + ".case";
  CaseText t; t.put("prop", "first_use"); CaseText b = ser(c); t.kv.insert(t.kv.end(), b.kv.begin(), b.kv.end());
  pbt::write_file(path, t.dump());
  pid_t pid = fork();
  if (pid == 0) {
    execl(g_self.c_str(), g_self.c_str(), "--first-use-child", path.c_str(), (char *)nullptr); _exit(111); }
  int st = 0; waitpid(pid, &st, 0);
  unlink(path.c_str());
  vd.nontrivial = c.readers >= 2 && projectedWithPages(c) >= 1;
  PBT_CHECK(vd, WIFEXITED(st) && WEXITSTATUS(st) == 0, "concurrent first use of the library in a fresh process: %s (exit status %d)", WIFEXITED(st) && WEXITSTATUS(st) == 7 ? "a reader returned different content than when used alone" : "child crashed or reported a sanitizer error", WIFEXITED(st) ? WEXITSTATUS(st) : -WTERMSIG(st));
  return vd;
}
static int firstUseChild(const char *casefile) {
  std::ifstream f(casefile); std::stringstream ss; ss << f.rdbuf();
  C c = de(CaseText::parse(ss.str()));
  pw::Written w = pw::write_file(c.fs);   // reference writer only: no carquet code has run yet
  std::string why = runIndependent(w.bytes, c, {}, false);
  if (!why.empty()) { fprintf(stderr, "%s\n", why.c_str()); return 7; }
  return 0;
}

int main(int argc, char **argv) {
  g_self = "/proc/self/exe";
  { char buf[4096]; ssize_t n = readlink("/proc/self/exe", buf, sizeof buf - 1); if (n > 0) { buf[n] = 0; g_self = buf; } }
  if (argc == 3 && std::string(argv[1]) == "--first-use-child") return firstUseChild(argv[2]);
  add<C>("threads", 3, genC, ser, de, runThreads);
  add<C>("independent", 1, genC, ser, de, runIndep);
  add<C>("first_use", 1, genC, ser, de, runFirstUse);
  return main_(argc, argv);
}
