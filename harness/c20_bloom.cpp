// C20: Bloom filters have no false negatives and follow the Parquet algorithm; XXH64 equals the reference.
#include "harness/common/pbt.hpp"
#include "harness/common/carquet_internal.hpp"
#include "gen/bytes.hpp"
#include "gen/seqs.hpp"
#include "ref/sbbf_ref.hpp"
#include <xxhash.h>

extern "C" {
typedef struct carquet_bloom_filter carquet_bloom_filter_t;
carquet_bloom_filter_t *carquet_bloom_filter_create(size_t num_bytes);
carquet_bloom_filter_t *carquet_bloom_filter_create_with_ndv(int64_t ndv, double fpp);
carquet_bloom_filter_t *carquet_bloom_filter_from_data(const uint8_t *data, size_t size);
void carquet_bloom_filter_destroy(carquet_bloom_filter_t *filter);
void carquet_bloom_filter_insert_i32(carquet_bloom_filter_t *, int32_t);
void carquet_bloom_filter_insert_i64(carquet_bloom_filter_t *, int64_t);
void carquet_bloom_filter_insert_float(carquet_bloom_filter_t *, float);
void carquet_bloom_filter_insert_double(carquet_bloom_filter_t *, double);
void carquet_bloom_filter_insert_bytes(carquet_bloom_filter_t *, const uint8_t *, size_t);
bool carquet_bloom_filter_check_i32(const carquet_bloom_filter_t *, int32_t);
bool carquet_bloom_filter_check_i64(const carquet_bloom_filter_t *, int64_t);
bool carquet_bloom_filter_check_float(const carquet_bloom_filter_t *, float);
bool carquet_bloom_filter_check_double(const carquet_bloom_filter_t *, double);
bool carquet_bloom_filter_check_bytes(const carquet_bloom_filter_t *, const uint8_t *, size_t);
const uint8_t *carquet_bloom_filter_data(const carquet_bloom_filter_t *);
size_t carquet_bloom_filter_size(const carquet_bloom_filter_t *);
size_t carquet_bloom_filter_num_blocks(const carquet_bloom_filter_t *);
carquet_status_t carquet_bloom_filter_write(const carquet_bloom_filter_t *, uint8_t *, size_t, size_t *);
carquet_status_t carquet_bloom_filter_read(carquet_bloom_filter_t **, const uint8_t *, size_t);
carquet_status_t carquet_bloom_filter_merge(carquet_bloom_filter_t *, const carquet_bloom_filter_t *);
}

using namespace pbt;

// ------------------------------------------------------------------- XXH64
struct H { std::vector<gen::Seg> segs; uint64_t seed = 0; int mis = 0; };
static CaseText serH(const H &h) { CaseText t; gen::putSegs(t, h.segs); t.put_u("seed", h.seed); t.put_i("mis", h.mis); return t; }
static H deH(const CaseText &t) { H h; h.segs = gen::getSegs(t); h.seed = t.get_u("seed"); h.mis = (int)t.get_i("mis"); return h; }
static rc::Gen<H> genH() {
  return rc::gen::map(rc::gen::tuple(gen::segsGen(100000), rc::gen::weightedOneOf<uint64_t>({{2, rc::gen::element<uint64_t>(0, 1, ~0ull)}, {3, bits64()}}), irange(0, 15)),
                      [](const std::tuple<std::vector<gen::Seg>, uint64_t, int> &t) { H h; h.segs = std::get<0>(t); h.seed = std::get<1>(t); h.mis = std::get<2>(t); return h; });
}
static Verdict runH(const H &h) {
  Verdict vd;
  Bytes x = gen::expand(h.segs, (size_t)4 << 20);
  Exact buf(x.size() + (size_t)h.mis);           // hash a buffer that ends exactly at the allocation's end, at a chosen misalignment
  memcpy(buf.p + h.mis, x.data(), x.size());
  uint64_t got = carquet_xxhash64(buf.p + h.mis, x.size(), h.seed);
  uint64_t want = XXH64(x.data(), x.size(), h.seed);
  vd.nontrivial = x.size() >= 32 && x.size() % 32 != 0;
  if (x.size() < 32) vd.label("len<32"); else vd.label("len>=32");
  PBT_CHECK(vd, got == want, "xxhash64(len=%zu, seed=%llu) = %016llx, reference XXH64 = %016llx", x.size(), (unsigned long long)h.seed, (unsigned long long)got, (unsigned long long)want);
  return vd;
}
static void enumH(int level, const std::function<bool(const CaseText &)> &sink) {
  // every length 0..300 (level 2: ..1100) with three seeds; content = pseudo-random segment
  int maxlen = level >= 2 ? 1100 : 300;
  for (int len = 0; len <= maxlen; len++)
    for (uint64_t seed : {0ull, 0x9E3779B97F4A7C15ull, ~0ull}) {
      H h; gen::Seg s; s.kind = 0; s.len = (uint32_t)len; s.seed = (uint32_t)(len * 7 + 1); h.segs.push_back(s); h.seed = seed; h.mis = len % 16;
      if (!sink(serH(h))) return;
    }
}

// ------------------------------------------------------------ Bloom filter
// values: type 0 i32, 1 i64, 2 float, 3 double, 4 bytes; ints carry the bit patterns, strs the byte strings
struct F { uint64_t req = 0; int type = 0; std::vector<int64_t> ins, ins2, probes; std::vector<Bytes> sins, sins2, sprobes; int ndv = 0; };
static CaseText serF(const F &f) {
  CaseText t; t.put_u("req", f.req); t.put_i("type", f.type); t.put_i("ndv", f.ndv);
  t.put_ints("ins", f.ins); t.put_ints("ins2", f.ins2); t.put_ints("probes", f.probes);
  auto ps = [&](const char *k, const std::vector<Bytes> &v) { t.put_i(std::string("n") + k, (long long)v.size()); for (size_t i = 0; i < v.size(); i++) t.put_bytes(k + std::to_string(i), v[i]); };
  ps("s", f.sins); ps("t", f.sins2); ps("p", f.sprobes);
  return t;
}
static F deF(const CaseText &t) {
  F f; f.req = t.get_u("req"); f.type = (int)t.get_i("type"); f.ndv = (int)t.get_i("ndv", 0);
  f.ins = t.get_ints<int64_t>("ins"); f.ins2 = t.get_ints<int64_t>("ins2"); f.probes = t.get_ints<int64_t>("probes");
  auto gs = [&](const char *k, std::vector<Bytes> &v) { long n = t.get_i(std::string("n") + k, 0); for (long i = 0; i < n; i++) v.push_back(t.get_bytes(k + std::to_string(i))); };
  gs("s", f.sins); gs("t", f.sins2); gs("p", f.sprobes);
  return f;
}
static rc::Gen<F> genF() {
  auto req = rc::gen::weightedOneOf<uint64_t>({{4, rc::gen::element<uint64_t>(0, 1, 31, 32, 33, 63, 64, 65, 96, 100, 1024, 1000, 4096)}, {3, rc::gen::map(irange(0, 5000), [](int v) { return (uint64_t)v; })}, {1, rc::gen::element<uint64_t>(1 << 20, (1 << 20) + 1, 3 << 16)}});
  return rc::gen::mapcat(rc::gen::tuple(req, irange(0, 4), rc::gen::weightedOneOf<int>({{4, rc::gen::just(0)}, {1, irange(1, 5000)}})), [](const std::tuple<uint64_t, int, int> &t) {
    uint64_t r = std::get<0>(t); int type = std::get<1>(t), ndv = std::get<2>(t);
    auto vals = rc::gen::container<std::vector<int64_t>>(rc::gen::weightedOneOf<int64_t>({{2, gen::int64Gen()}, {2, rc::gen::map(irange(0, 50), [](int v) { return (int64_t)v; })}, {1, rc::gen::map(gen::f64bits(), [](uint64_t v) { return (int64_t)v; })}}));
    auto strs = rc::gen::container<std::vector<Bytes>>(gen::bytesGen(40));
    return rc::gen::map(rc::gen::tuple(vals, vals, vals, strs, strs, strs), [r, type, ndv](const std::tuple<std::vector<int64_t>, std::vector<int64_t>, std::vector<int64_t>, std::vector<Bytes>, std::vector<Bytes>, std::vector<Bytes>> &u) {
      F f; f.req = r; f.type = type; f.ndv = ndv;
      if (type == 4) { f.sins = std::get<3>(u); f.sins2 = std::get<4>(u); f.sprobes = std::get<5>(u); }
      else { f.ins = std::get<0>(u); f.ins2 = std::get<1>(u); f.probes = std::get<2>(u); }
      return f;
    });
  });
}
struct Val { int type; int64_t bits; Bytes b; };
static uint64_t refHash(const Val &v) {
  switch (v.type) { case 0: case 2: { uint32_t x = (uint32_t)v.bits; return XXH64(&x, 4, 0); } case 1: case 3: { uint64_t x = (uint64_t)v.bits; return XXH64(&x, 8, 0); } default: return XXH64(v.b.data(), v.b.size(), 0); }
}
static void cInsert(carquet_bloom_filter_t *f, const Val &v) {
  switch (v.type) { case 0: carquet_bloom_filter_insert_i32(f, (int32_t)v.bits); break; case 1: carquet_bloom_filter_insert_i64(f, v.bits); break;
    case 2: { float x; uint32_t u = (uint32_t)v.bits; memcpy(&x, &u, 4); carquet_bloom_filter_insert_float(f, x); break; }
    case 3: { double x; memcpy(&x, &v.bits, 8); carquet_bloom_filter_insert_double(f, x); break; }
    default: { Exact e(v.b); carquet_bloom_filter_insert_bytes(f, e.p, e.n); } }
}
static bool cCheck(const carquet_bloom_filter_t *f, const Val &v) {
  switch (v.type) { case 0: return carquet_bloom_filter_check_i32(f, (int32_t)v.bits); case 1: return carquet_bloom_filter_check_i64(f, v.bits);
    case 2: { float x; uint32_t u = (uint32_t)v.bits; memcpy(&x, &u, 4); return carquet_bloom_filter_check_float(f, x); }
    case 3: { double x; memcpy(&x, &v.bits, 8); return carquet_bloom_filter_check_double(f, x); }
    default: { Exact e(v.b); return carquet_bloom_filter_check_bytes(f, e.p, e.n); } }
}
struct FH { carquet_bloom_filter_t *f; ~FH() { carquet_bloom_filter_destroy(f); } };
static Verdict runF(const F &c) {
  Verdict vd;
  auto mk = [&](const std::vector<int64_t> &iv, const std::vector<Bytes> &sv) { std::vector<Val> o; if (c.type == 4) for (auto &b : sv) o.push_back(Val{4, 0, b}); else for (auto x : iv) o.push_back(Val{c.type, (c.type == 0 || c.type == 2) ? (int64_t)(uint32_t)x : x, {}}); return o; };
  std::vector<Val> ins = mk(c.ins, c.sins), ins2 = mk(c.ins2, c.sins2), probes = mk(c.probes, c.sprobes);
  FH a{c.ndv > 0 ? carquet_bloom_filter_create_with_ndv(c.ndv, 0.01) : carquet_bloom_filter_create((size_t)c.req)};
  if (!a.f) { vd.vacuous = true; return vd; }
  size_t sz = carquet_bloom_filter_size(a.f), nb = carquet_bloom_filter_num_blocks(a.f);
  PBT_CHECK(vd, sz % 32 == 0 && sz >= 32 && nb == sz / 32, "filter size %zu bytes / %zu blocks is not a whole number (>= 1) of 32-byte blocks", sz, nb);
  if (c.ndv == 0) PBT_CHECK(vd, sz >= c.req && sz < std::max<size_t>((size_t)c.req, 32) + 32, "requested %llu bytes, got %zu (not rounded to the next whole block)", (unsigned long long)c.req, sz);
  std::set<uint64_t> distinct; for (auto &v : ins) distinct.insert(refHash(v));
  vd.nontrivial = nb >= 2 && distinct.size() >= 2;
  static const char *tn[] = {"int32", "int64", "float", "double", "bytes"};
  vd.label(tn[c.type]); if (nb == 1) vd.label("one_block"); if (c.ndv) vd.label("create_with_ndv");
  // fresh filter: everything is absent
  for (auto &p : probes) PBT_CHECK(vd, !cCheck(a.f, p), "fresh filter reports a value as present");
  for (auto &p : ins) PBT_CHECK(vd, !cCheck(a.f, p), "fresh filter reports a value as present");
  const uint8_t *d0 = carquet_bloom_filter_data(a.f);
  for (size_t i = 0; i < sz; i++) PBT_CHECK(vd, d0[i] == 0, "fresh filter has a bit set at byte %zu", i);
  // insert; no false negatives; bit-identical to the specification filter
  sbbf::Filter ra(sz);
  for (auto &v : ins) { cInsert(a.f, v); ra.insert(refHash(v)); }
  for (auto &v : ins) PBT_CHECK(vd, cCheck(a.f, v), "false negative: an inserted %s value is reported absent", tn[c.type]);
  PBT_CHECK(vd, memcmp(carquet_bloom_filter_data(a.f), ra.bytes.data(), sz) == 0, "filter bits differ from the Parquet split-block algorithm after %zu inserts (%zu blocks)", ins.size(), nb);
  for (auto &p : probes) PBT_CHECK(vd, cCheck(a.f, p) == ra.check(refHash(p)), "membership answer differs from the specification filter for a probe");
  // serialise and reload (both loaders)
  Exact ser(sz); size_t w = 0;
  PBT_CHECK(vd, carquet_bloom_filter_write(a.f, ser.p, sz, &w) == CARQUET_OK && w == sz, "write reports %zu of %zu bytes", w, sz);
  if (sz > 32) { Exact small(sz - 1); size_t w2 = 0; PBT_CHECK(vd, carquet_bloom_filter_write(a.f, small.p, sz - 1, &w2) != CARQUET_OK, "write into a too small buffer reports success"); }
  PBT_CHECK(vd, memcmp(ser.p, ra.bytes.data(), sz) == 0, "serialised filter differs from the specification filter");
  FH b{carquet_bloom_filter_from_data(ser.p, sz)};
  PBT_CHECK(vd, b.f != nullptr, "from_data rejects the serialised filter");
  for (auto &v : ins) PBT_CHECK(vd, cCheck(b.f, v), "false negative after from_data reload");
  carquet_bloom_filter_t *rd = nullptr;
  PBT_CHECK(vd, carquet_bloom_filter_read(&rd, ser.p, sz) == CARQUET_OK && rd, "read rejects the serialised filter");
  FH r{rd};
  for (auto &v : ins) PBT_CHECK(vd, cCheck(r.f, v), "false negative after read reload");
  // a specification-built filter loaded into carquet answers for its values (interchangeability, other direction)
  { sbbf::Filter other(sz); for (auto &v : ins2) other.insert(refHash(v)); Exact ob(other.bytes); FH o{carquet_bloom_filter_from_data(ob.p, sz)};
    PBT_CHECK(vd, o.f != nullptr, "from_data rejects a specification filter");
    for (auto &v : ins2) PBT_CHECK(vd, cCheck(o.f, v), "a filter built by the specification algorithm reports its own value absent when loaded into carquet"); }
  // merge: union
  FH m{carquet_bloom_filter_create(sz)};
  for (auto &v : ins2) cInsert(m.f, v);
  PBT_CHECK(vd, carquet_bloom_filter_merge(m.f, a.f) == CARQUET_OK, "merge of equal-size filters refused");
  for (auto &v : ins) PBT_CHECK(vd, cCheck(m.f, v), "merged filter lost a value of the source");
  for (auto &v : ins2) PBT_CHECK(vd, cCheck(m.f, v), "merged filter lost a value of the destination");
  sbbf::Filter rm(sz); for (auto &v : ins) rm.insert(refHash(v)); for (auto &v : ins2) rm.insert(refHash(v));
  PBT_CHECK(vd, memcmp(carquet_bloom_filter_data(m.f), rm.bytes.data(), sz) == 0, "merged filter is not the union of the two filters");
  // merge chains (row-group filters -> file filter -> dataset filter): a filter filled only by merges is itself merged on;
  // merging an empty filter changes nothing; merging a filter a second time changes nothing
  { FH acc{carquet_bloom_filter_create(sz)}, top{carquet_bloom_filter_create(sz)}, empty{carquet_bloom_filter_create(sz)};
    PBT_CHECK(vd, acc.f && top.f && empty.f, "create failed");
    PBT_CHECK(vd, carquet_bloom_filter_merge(acc.f, m.f) == CARQUET_OK, "merge into a fresh filter refused");
    PBT_CHECK(vd, carquet_bloom_filter_merge(acc.f, empty.f) == CARQUET_OK, "merge of an empty filter refused");
    PBT_CHECK(vd, memcmp(carquet_bloom_filter_data(acc.f), rm.bytes.data(), sz) == 0, "a fresh filter after merging the union into it (and an empty filter) is not the union");
    PBT_CHECK(vd, carquet_bloom_filter_merge(top.f, acc.f) == CARQUET_OK, "second-level merge refused");
    for (auto &v : ins) PBT_CHECK(vd, cCheck(top.f, v), "two-level merge lost a value: a filter filled only by merging was merged on and the value is gone");
    for (auto &v : ins2) PBT_CHECK(vd, cCheck(top.f, v), "two-level merge lost a value of the first destination");
    PBT_CHECK(vd, memcmp(carquet_bloom_filter_data(top.f), rm.bytes.data(), sz) == 0, "two-level merge is not the union of all inserted values");
    PBT_CHECK(vd, carquet_bloom_filter_merge(top.f, acc.f) == CARQUET_OK && memcmp(carquet_bloom_filter_data(top.f), rm.bytes.data(), sz) == 0, "merging the same filter twice changes the result");
    // a reloaded filter as source and as destination of a merge
    FH re{carquet_bloom_filter_from_data(ser.p, sz)}, t2{carquet_bloom_filter_create(sz)};
    PBT_CHECK(vd, re.f && t2.f && carquet_bloom_filter_merge(t2.f, re.f) == CARQUET_OK, "merge of a reloaded filter refused");
    for (auto &v : ins) PBT_CHECK(vd, cCheck(t2.f, v), "merge of a reloaded filter lost a value");
    PBT_CHECK(vd, carquet_bloom_filter_merge(re.f, m.f) == CARQUET_OK && memcmp(carquet_bloom_filter_data(re.f), rm.bytes.data(), sz) == 0, "merge into a reloaded filter is not the union");
  }
  FH odd{carquet_bloom_filter_create(sz + 32)};
  PBT_CHECK(vd, carquet_bloom_filter_merge(odd.f, a.f) != CARQUET_OK && carquet_bloom_filter_merge(a.f, odd.f) != CARQUET_OK, "merge of different sizes accepted");
  return vd;
}

int main(int argc, char **argv) {
  add<H>("xxh64", 1, genH, serH, deH, runH);
  registry().back().enumerate = enumH;
  add<F>("sbbf", 2, genF, serF, deF, runF);
  return main_(argc, argv);
}
