// C04, libFuzzer engine: input = file bytes || mode byte || 13 script bytes.  The file is opened in the chosen I/O mode and
// driven through the API script of harness/common/hostile_script.hpp; oracle as in the rapidcheck engine (contract checks,
// sanitizers, live-heap balance over open..close).  Replay: run the binary with the saved input's path.
#include "harness/common/hostile_script.hpp"
#include <set>

extern "C" size_t __sanitizer_get_current_allocated_bytes();
extern "C" void __sanitizer_set_death_callback(void (*)(void));

static std::string g_out;
static uint64_t g_evals = 0, g_short = 0;
static std::map<std::string, uint64_t> g_classes;
static std::set<uint64_t> g_nt;
static std::vector<std::string> g_samples;
static bool g_written = false;
static uint64_t fnv(const uint8_t *d, size_t n) { uint64_t h = 1469598103934665603ull; for (size_t i = 0; i < n; i++) { h ^= d[i]; h *= 1099511628211ull; } return h; }
static void writeStats() {
  if (g_out.empty() || g_written) return;
  g_written = true;
  FILE *f = fopen((g_out + "/stats.json").c_str(), "w");
  if (!f) return;
  fprintf(f, "{\"evaluations\": %llu, \"vacuous\": %llu, \"excluded\": 0, \"classes\": {", (unsigned long long)g_evals, (unsigned long long)g_short);
  bool first = true;
  for (auto &kv : g_classes) { fprintf(f, "%s\"%s\": %llu", first ? "" : ", ", kv.first.c_str(), (unsigned long long)kv.second); first = false; }
  fprintf(f, "}, \"per_prop\": {\"fuzz_files\": %llu}, \"samples\": [", (unsigned long long)g_evals);
  for (size_t i = 0; i < g_samples.size(); i++) fprintf(f, "%s\"%s\"", i ? ", " : "", g_samples[i].c_str());
  fprintf(f, "]}\n");
  fclose(f);
  f = fopen((g_out + "/nontrivial.u64").c_str(), "wb");
  if (f) { for (uint64_t h : g_nt) fwrite(&h, 8, 1, f); fclose(f); }
}
static void onDeath() { writeStats(); }

extern "C" int LLVMFuzzerInitialize(int *argc, char ***argv) {
  for (int i = 1; i < *argc; i++) { std::string a = (*argv)[i]; if (a.rfind("--out=", 0) == 0) g_out = a.substr(6); }
  carquet_init();
  {  // lazily created per-thread codec contexts and tables exist before live bytes are compared
    uint8_t in[4] = {0, 1, 2, 3}, out[16]; size_t n = 0;
    (void)carquet_snappy_decompress(in, 4, out, 16, &n); (void)carquet_lz4_decompress(in, 4, out, 16, &n);
    (void)carquet_gzip_decompress(in, 4, out, 16, &n); (void)carquet_zstd_decompress(in, 4, out, 16, &n);
    (void)carquet_crc32(in, 4);
  }
  atexit(writeStats);
  __sanitizer_set_death_callback(onDeath);
  return 0;
}

extern "C" int LLVMFuzzerTestOneInput(const uint8_t *data, size_t size) {
  if (size < 14 + 12) { g_short++; return 0; }
  size_t fl = size - 14;
  int mode = data[fl] % 3;
  // the two file-backed modes cost a temporary file per run: take them for a quarter of the inputs each
  if (data[fl] >= 128) mode = 2;
  std::vector<int> sc; for (size_t i = 0; i < 13; i++) sc.push_back(data[fl + 1 + i]);
  pbt::Bytes bytes(data, data + fl);
  pbt::Verdict vd; bool opened = false, page = false;
  // heap balance: a leak repeats on every execution of the same script; a one-off movement of the process-wide counter
  // (another thread of the fuzzer runtime) does not - only three unbalanced executions in a row count
  bool balanced = false;
  for (int attempt = 0; attempt < 3 && !balanced; attempt++) {
    vd = pbt::Verdict(); opened = false; page = false;
    size_t before = __sanitizer_get_current_allocated_bytes();
    hs::script(bytes, mode, sc, vd, opened, page);
    size_t after = __sanitizer_get_current_allocated_bytes();
    balanced = after <= before;
    if (!vd.ok) break;
  }
  g_evals++;
  g_classes[std::string(rd::modeName(mode)) + (opened ? (page ? ":opened+values_read" : ":opened") : ":rejected_at_open")]++;
  if (opened && g_nt.size() < 2000000 && g_nt.insert(fnv(data, size)).second && g_samples.size() < 12 && (g_nt.size() % 53) == 1)
    g_samples.push_back(std::string(rd::modeName(mode)) + " file of " + std::to_string(fl) + " bytes" + (page ? ", values read" : ", opened"));
  if (!vd.ok || !balanced) {
    fprintf(stderr, "C04 CONTRACT VIOLATION (%s): %s\n", rd::modeName(mode), vd.ok ? "heap bytes are still allocated after the reader and all handles were closed" : vd.msg.c_str());
    writeStats();
    __builtin_trap();
  }
  return 0;
}
