// C01 / C05 (and the writer part of C16).
//  roundtrip  (C01): schema x table x codec x page size x row groups x partition of every column's rows into
//                    write_batch calls -> the file re-opens and reads back exactly the table.
//  structure  (C05): the same files are accepted by the independent strict reader (ref/parquet_reader.hpp),
//                    which recovers the same table; writing the table twice gives byte-identical files.
//  page_stats (C16): page-header statistics written by the writer bound the page's values.
#include <malloc.h>
#include "harness/common/pbt.hpp"
#include "harness/common/consume.hpp"
#include "harness/common/cwriter.hpp"
#include "ref/parquet_reader.hpp"

using namespace pbt;

using cw::W;
using cw::ser;
using cw::de;
using cw::genW;
using cw::writeWith;

struct Classes { bool nullable_mixed = false, shared_page = false, multi_page = false, multi_rg = false, bool_split = false, nolev = false, allnull = false, zero = false; };
static Classes classify(const W &w, const std::vector<pw::Leaf> &lv) {
  Classes k; int nonempty = 0;
  for (size_t g = 0; g < w.fs.row_groups.size(); g++) {
    if (w.fs.rg_rows[g] > 0) nonempty++; else k.zero = true;
    for (size_t c = 0; c < lv.size(); c++) {
      auto &cs = w.fs.row_groups[g][c];
      if (lv[c].max_def) { size_t nn = cs.values.size(); if (nn > 0 && nn < cs.n) k.nullable_mixed = true; if (nn == 0 && cs.n) k.allnull = true; }
      if (w.nolevels[g][c]) k.nolev = true;
      if (w.parts[g][c].size() >= 2) { k.shared_page = true; size_t pos = 0; for (size_t i = 0; i + 1 < w.parts[g][c].size(); i++) { pos += (size_t)w.parts[g][c][i]; if (lv[c].type == pq::BOOLEAN && pos % 8) k.bool_split = true; } }
      size_t approx = cs.n * (pw::fixed_width(lv[c].type, lv[c].type_length) ? pw::fixed_width(lv[c].type, lv[c].type_length) : 12);
      if ((int64_t)approx > w.page_size && w.parts[g][c].size() >= 2) k.multi_page = true;
    }
  }
  k.multi_rg = nonempty >= 2;
  return k;
}
static void labels(Verdict &vd, const Classes &k) {
  if (k.shared_page) vd.label("batches_sharing_a_page"); if (k.bool_split) vd.label("booleans_split_at_non_multiple_of_8"); if (k.multi_page) vd.label("several_pages_in_a_chunk");
  if (k.multi_rg) vd.label("several_row_groups"); if (k.nolev) vd.label("optional_without_levels"); if (k.allnull) vd.label("all_null_column"); if (k.zero) vd.label("zero_row_group");
  vd.nontrivial = k.nullable_mixed && (k.shared_page || k.multi_page || k.multi_rg);
}
// the model of what must come back: non-empty groups only; OPTIONAL-without-levels = all present
static std::vector<size_t> nonEmptyGroups(const W &w) { std::vector<size_t> o; for (size_t g = 0; g < w.fs.row_groups.size(); g++) if (w.fs.rg_rows[g] > 0) o.push_back(g); return o; }

static bool excludedCase(const W &w, const std::vector<pw::Leaf> &lv, Verdict &vd) {
  Classes k = classify(w, lv);
  if (excluded("KF-WRITER-MULTI-BATCH-PAGE")) { bool multi = false; for (size_t g = 0; g < w.parts.size(); g++) for (size_t c = 0; c < lv.size(); c++) if (w.parts[g][c].size() >= 2 && (lv[c].max_def || lv[c].type == pq::BOOLEAN)) multi = true; if (multi) { vd.excluded = "KF-WRITER-MULTI-BATCH-PAGE"; return true; } }
  if (excluded("KF-WRITER-OPTIONAL-NO-LEVELS") && k.nolev) { vd.excluded = "KF-WRITER-OPTIONAL-NO-LEVELS"; return true; }
  return false;
}

static Verdict runRoundtrip(const W &w) {
  Verdict vd;
  auto lv = pw::leaves(w.fs.root);
  if (excludedCase(w, lv, vd)) return vd;
  labels(vd, classify(w, lv));
  Bytes bytes; std::string err; bool refused = false;
  if (!writeWith(w, lv, bytes, err, refused)) { if (refused) { vd.vacuous = true; vd.label("writer_refused"); return vd; } return Verdict::fail("harness: " + err); }
  auto groups = nonEmptyGroups(w);
  rd::Opened op(bytes, w.mode);
  PBT_CHECK(vd, op.r != nullptr, "a file whose writer calls all returned OK does not re-open (%s): %s", rd::modeName(w.mode), op.err.message);
  int64_t total = 0; for (auto g : groups) total += w.fs.rg_rows[g];
  PBT_CHECK(vd, carquet_reader_num_rows(op.r) == total, "num_rows %lld, %lld rows were written", (long long)carquet_reader_num_rows(op.r), (long long)total);
  if (w.rg_size <= 0) PBT_CHECK(vd, carquet_reader_num_row_groups(op.r) == (int32_t)groups.size(), "num_row_groups %d, %zu non-empty row groups were written", carquet_reader_num_row_groups(op.r), groups.size());
  PBT_CHECK(vd, carquet_reader_num_columns(op.r) == (int32_t)lv.size(), "num_columns %d, schema has %zu", carquet_reader_num_columns(op.r), lv.size());
  for (size_t c = 0; c < lv.size(); c++) {
    rd::ColInfo ci;
    PBT_CHECK(vd, rd::colInfo(op.r, (int)c, ci), "no schema node for column %zu", c);
    PBT_CHECK(vd, ci.name == lv[c].path.back() && (int)ci.type == lv[c].type, "column %zu reads back as '%s' type %d, written '%s' type %d", c, ci.name.c_str(), (int)ci.type, lv[c].path.back().c_str(), lv[c].type);
    PBT_CHECK(vd, ci.tl == (lv[c].type == pq::FIXED_LEN_BYTE_ARRAY ? lv[c].type_length : 0), "column %zu type length %d, written %d", c, ci.tl, lv[c].type_length);
    const carquet_schema_node_t *n = carquet_schema_get_element(carquet_reader_schema(op.r), (int32_t)c + 1);
    PBT_CHECK(vd, n && (int)carquet_schema_node_repetition(n) == (lv[c].max_def ? 1 : 0), "column %zu repetition differs", c);
  }
  if (w.rg_size > 0) {
    // with a row-group size target the writer may split groups on its own: compare the table, not the grouping
    int32_t nrgf = carquet_reader_num_row_groups(op.r);
    for (size_t c = 0; c < lv.size(); c++) {
      rd::Content all; std::string e2; int64_t rows_meta = 0;
      for (int32_t gi = 0; gi < nrgf; gi++) {
        carquet_row_group_metadata_t m; PBT_CHECK(vd, carquet_reader_row_group_metadata(op.r, gi, &m) == CARQUET_OK, "row_group_metadata(%d) fails", gi); rows_meta += m.num_rows;
        rd::Content got; bool ok = rd::readChunk(op.r, gi, (int)c, w.batch, lv[c].max_def, got, e2);
        PBT_CHECK(vd, ok, "reading back row group %d column %zu fails: %s", gi, c, e2.c_str());
        PBT_CHECK(vd, got.rows == m.num_rows, "row group %d column %zu delivers %lld rows, the row group states %lld", gi, c, (long long)got.rows, (long long)m.num_rows);
        all.def.insert(all.def.end(), got.def.begin(), got.def.end()); all.values.insert(all.values.end(), got.values.begin(), got.values.end()); all.rows += got.rows;
      }
      std::vector<int16_t> wdef; std::vector<Bytes> wval;
      for (auto g : groups) { const pw::ChunkSpec &cs = w.fs.row_groups[g][c]; for (size_t i = 0; i < cs.n; i++) wdef.push_back((int16_t)(lv[c].max_def ? cs.def[i] : 0)); wval.insert(wval.end(), cs.values.begin(), cs.values.end()); }
      PBT_CHECK(vd, rows_meta == total && all.rows == total, "column %zu: %lld rows read back over %d row groups (metadata says %lld), %lld written", c, (long long)all.rows, nrgf, (long long)rows_meta, (long long)total);
      PBT_CHECK(vd, all.def == wdef, "column %zu: null positions read back differ from the ones written (row_group_size %lld)", c, (long long)w.rg_size);
      PBT_CHECK(vd, all.values == wval, "column %zu: values read back differ from the ones written (row_group_size %lld)", c, (long long)w.rg_size);
    }
    return vd;
  }
  for (size_t gi = 0; gi < groups.size(); gi++) {
    size_t g = groups[gi];
    carquet_row_group_metadata_t m;
    PBT_CHECK(vd, carquet_reader_row_group_metadata(op.r, (int32_t)gi, &m) == CARQUET_OK && m.num_rows == w.fs.rg_rows[g], "row group %zu has %lld rows, %lld were written", gi, (long long)m.num_rows, (long long)w.fs.rg_rows[g]);
    for (size_t c = 0; c < lv.size(); c++) {
      const pw::ChunkSpec &cs = w.fs.row_groups[g][c];
      for (int pass = 0; pass < 2; pass++) {
        rd::Content got; std::string e2;
        bool ok = rd::readChunk(op.r, (int)gi, (int)c, pass ? w.batch : 0, lv[c].max_def, got, e2);
        PBT_CHECK(vd, ok, "reading back row group %zu column %zu fails: %s", gi, c, e2.c_str());
        PBT_CHECK(vd, (size_t)got.rows == cs.n, "row group %zu column %zu: %lld rows read back, %zu written", gi, c, (long long)got.rows, cs.n);
        for (size_t i = 0; i < cs.n; i++) { int d = lv[c].max_def ? cs.def[i] : 0; PBT_CHECK(vd, got.def[i] == d, "row group %zu column %zu row %zu: null flag reads back as def=%d, written %d (batches %zu)", gi, c, i, got.def[i], d, w.parts[g][c].size()); }
        PBT_CHECK(vd, got.values.size() == cs.values.size(), "row group %zu column %zu: %zu non-null values read back, %zu written", gi, c, got.values.size(), cs.values.size());
        for (size_t i = 0; i < cs.values.size(); i++) PBT_CHECK(vd, got.values[i] == cs.values[i], "row group %zu column %zu (type %d, %zu write_batch calls, %s read): value %zu reads back as %s, written %s", gi, c, lv[c].type, w.parts[g][c].size(), pass ? "batched" : "whole", i, pbt::hex(got.values[i]).substr(0, 32).c_str(), pbt::hex(cs.values[i]).substr(0, 32).c_str());
      }
    }
  }
  return vd;
}

static Verdict runStructure(const W &w) {
  Verdict vd;
  auto lv = pw::leaves(w.fs.root);
  if (excludedCase(w, lv, vd)) return vd;
  labels(vd, classify(w, lv));
  Bytes bytes, bytes2; std::string err; bool refused = false;
  if (!writeWith(w, lv, bytes, err, refused)) { if (refused) { vd.vacuous = true; vd.label("writer_refused"); return vd; } return Verdict::fail("harness: " + err); }
  prd::FileOut fo; prd::Strict st;
  if (excluded("KF-WRITER-UNCOMPRESSED-SIZE")) { st.check_total_uncompressed = false; st.check_rg_total_byte_size = false; }
  bool ok = prd::read_file(bytes, fo, err, st);
  PBT_CHECK(vd, ok, "independent reader rejects a file that carquet_writer_close reported complete: %s", err.c_str());
  auto groups = nonEmptyGroups(w);
  PBT_CHECK(vd, fo.leaves.size() == lv.size(), "independent reader sees %zu leaf columns, %zu written", fo.leaves.size(), lv.size());
  for (size_t c = 0; c < lv.size(); c++) PBT_CHECK(vd, fo.leaves[c].path == lv[c].path && fo.leaves[c].type == lv[c].type && fo.leaves[c].max_def == lv[c].max_def && fo.leaves[c].max_rep == 0 && (lv[c].type != pq::FIXED_LEN_BYTE_ARRAY || fo.leaves[c].type_length == lv[c].type_length), "schema column %zu differs in the file", c);
  if (w.rg_size > 0) {
    // grouping may differ from the explicit new_row_group calls; the independent reader has already checked that every
    // group is consistent in itself (chunk value counts = group rows, ...): compare the concatenated table
    for (size_t c = 0; c < lv.size(); c++) {
      std::vector<int16_t> wdef, gdef; std::vector<Bytes> wval, gval;
      for (auto g : groups) { const pw::ChunkSpec &cs = w.fs.row_groups[g][c]; for (size_t i = 0; i < cs.n; i++) wdef.push_back((int16_t)(lv[c].max_def ? cs.def[i] : 0)); wval.insert(wval.end(), cs.values.begin(), cs.values.end()); }
      for (size_t gi = 0; gi < fo.chunks.size(); gi++) { const prd::ChunkOut &co = fo.chunks[gi][c]; PBT_CHECK(vd, (int64_t)co.def.size() == fo.meta.row_groups[gi].num_rows, "row group %zu column %zu stores %zu rows, the group states %lld", gi, c, co.def.size(), (long long)fo.meta.row_groups[gi].num_rows); gdef.insert(gdef.end(), co.def.begin(), co.def.end()); gval.insert(gval.end(), co.values.begin(), co.values.end()); }
      PBT_CHECK(vd, gdef == wdef && gval == wval, "column %zu: the table stored in the file (row_group_size %lld, %zu row groups) differs from the table written", c, (long long)w.rg_size, fo.chunks.size());
    }
  } else {
  PBT_CHECK(vd, fo.chunks.size() == groups.size(), "file holds %zu row groups, %zu non-empty groups were written", fo.chunks.size(), groups.size());
  for (size_t gi = 0; gi < groups.size(); gi++) {
    size_t g = groups[gi];
    PBT_CHECK(vd, fo.meta.row_groups[gi].num_rows == w.fs.rg_rows[g], "row group %zu num_rows %lld, written %lld", gi, (long long)fo.meta.row_groups[gi].num_rows, (long long)w.fs.rg_rows[g]);
    for (size_t c = 0; c < lv.size(); c++) {
      const pw::ChunkSpec &cs = w.fs.row_groups[g][c]; const prd::ChunkOut &co = fo.chunks[gi][c];
      PBT_CHECK(vd, fo.meta.row_groups[gi].columns[c].meta->codec == w.codec, "codec tag %d, option was %d", fo.meta.row_groups[gi].columns[c].meta->codec, w.codec);
      PBT_CHECK(vd, co.def.size() == cs.n, "row group %zu column %zu: the file stores %zu rows, %zu written", gi, c, co.def.size(), cs.n);
      for (size_t i = 0; i < cs.n; i++) PBT_CHECK(vd, co.def[i] == (lv[c].max_def ? cs.def[i] : 0), "row group %zu column %zu row %zu: stored definition level %d, written %d", gi, c, i, co.def[i], lv[c].max_def ? cs.def[i] : 0);
      PBT_CHECK(vd, co.values == cs.values, "row group %zu column %zu: values stored in the file differ from the values written (%zu vs %zu)", gi, c, co.values.size(), cs.values.size());
    }
  }
  }
  // determinism: same table, same options, fresh writer -> identical bytes
  if (!writeWith(w, lv, bytes2, err, refused)) return Verdict::fail("second write of the same table failed: " + err);
  if (bytes != bytes2) { size_t i = 0; while (i < bytes.size() && i < bytes2.size() && bytes[i] == bytes2[i]) i++; PBT_CHECK(vd, false, "writing the same table twice gives different files (first difference at byte %zu of %zu/%zu)", i, bytes.size(), bytes2.size()); }
  return vd;
}

static Verdict runPageStats(const W &w) {
  Verdict vd;
  auto lv = pw::leaves(w.fs.root);
  if (excludedCase(w, lv, vd)) return vd;
  Bytes bytes; std::string err; bool refused = false;
  if (!writeWith(w, lv, bytes, err, refused)) { vd.vacuous = true; vd.label("writer_refused"); return vd; }
  prd::FileOut fo; prd::Strict st; st.check_total_uncompressed = false; st.check_rg_total_byte_size = false; st.check_page_null_count = false;
  if (!prd::read_file(bytes, fo, err, st)) { vd.vacuous = true; vd.label("structure_invalid(reported_by_C05)"); return vd; }
  bool saw = false, nanfirst = false;
  for (size_t g = 0; g < fo.chunks.size(); g++)
    for (size_t c = 0; c < lv.size(); c++) {
      const prd::ChunkOut &co = fo.chunks[g][c];
      size_t vpos = 0;
      for (auto &pg : co.pages) {
        if (pg.is_dict) continue;
        size_t nn = 0, nulls = 0;
        for (int32_t i = 0; i < pg.num_values; i++) { if (co.def[pg.first_entry + (size_t)i] == lv[c].max_def) nn++; else nulls++; }
        if (pg.hdr.data && pg.hdr.data->statistics) {
          const pq::Statistics &s = *pg.hdr.data->statistics; saw = true;
          if (s.null_count) PBT_CHECK(vd, *s.null_count == (int64_t)nulls, "page statistics null_count %lld, the page has %zu nulls", (long long)*s.null_count, nulls);
          int type = lv[c].type;
          if (nn && pw::is_nan(type, co.values[vpos])) nanfirst = true;
          for (size_t i = vpos; i < vpos + nn; i++) {
            const Bytes &v = co.values[i];
            bool nan = pw::is_nan(type, v);
            auto tot = [&](const Bytes &a, const Bytes &b) { bool na = pw::is_nan(type, a), nb = pw::is_nan(type, b); if (na || nb) return na && nb ? 0 : na ? 1 : -1; return pw::cmp_values(type, a, b); };
            if (s.min_value) { bool ieee = nan || (!pw::is_nan(type, *s.min_value) && pw::cmp_values(type, *s.min_value, v) <= 0); PBT_CHECK(vd, ieee || tot(*s.min_value, v) <= 0, "page min %s is not <= value %s of the page (type %d)", pbt::hex(*s.min_value).c_str(), pbt::hex(v).c_str(), type); }
            if (s.max_value) { bool ieee = nan || (!pw::is_nan(type, *s.max_value) && pw::cmp_values(type, *s.max_value, v) >= 0); PBT_CHECK(vd, ieee || tot(*s.max_value, v) >= 0, "page max %s is not >= value %s of the page (type %d)", pbt::hex(*s.max_value).c_str(), pbt::hex(v).c_str(), type); }
          }
        }
        vpos += nn;
      }
    }
  vd.nontrivial = saw;
  if (nanfirst) vd.label("nan_first_in_page");
  if (!saw) vd.vacuous = true;
  return vd;
}

// determinism under perturbed heaps (C05, last sentence): before each write the heap is polluted (blocks of many sizes filled
// with pseudo-random bytes and freed, so that the writer's malloc calls get them back; once more with glibc's M_PERTURB
// pattern); the same table is written each time and the files must be byte-identical.  Output that
// depends on never-written heap memory (an uncleared hash table, padding copied from a scratch block) differs.
// Meaningful in the non-sanitizer build only (ASan replaces the allocator); registered as its own engine.
static Verdict runDeterminism(const W &w) {
  Verdict vd;
  auto lv = pw::leaves(w.fs.root);
  if (excludedCase(w, lv, vd)) return vd;
  labels(vd, classify(w, lv));
  Bytes b1, b2; std::string err; bool refused = false;
  // freed blocks of many sizes, filled with pseudo-random bytes, are what the next malloc calls of the writer get back
  auto pollute = [](uint64_t seed) {
    std::vector<void *> blocks;
    static const size_t sizes[] = {24, 64, 200, 520, 1024, 2048, 4096, 8192, 16384, 32768, 32784, 65536, 131072, 262144, 1048576};
    for (int round = 0; round < 3; round++)
      for (size_t sz : sizes) { uint8_t *p = (uint8_t *)malloc(sz); if (!p) continue; for (size_t i = 0; i < sz; i += 8) { uint64_t x = gf::dxs(seed); memcpy(p + i, &x, std::min<size_t>(8, sz - i)); } blocks.push_back(p); }
    for (void *p : blocks) free(p);
  };
  mallopt(M_PERTURB, 0);
  pollute(0x1234567 + w.order);
  bool ok1 = writeWith(w, lv, b1, err, refused);
  pollute(0x7654321 + w.order);
  bool ok2 = ok1 && writeWith(w, lv, b2, err, refused);
  // and once with glibc's constant fill pattern
  Bytes b3; mallopt(M_PERTURB, 0x5A);
  bool ok3 = ok2 && writeWith(w, lv, b3, err, refused);
  mallopt(M_PERTURB, 0);
  if (ok3 && b3 != b1) b2 = b3;
  if (!ok1) { vd.vacuous = true; vd.label("writer_refused"); return vd; }
  PBT_CHECK(vd, ok2, "second write of the same table failed: %s", err.c_str());
  if (b1 != b2) { size_t i = 0; while (i < b1.size() && i < b2.size() && b1[i] == b2[i]) i++; PBT_CHECK(vd, false, "the same table written under two heap fill patterns gives different files: first difference at byte %zu (sizes %zu / %zu, codec %d) - the output depends on uninitialised memory", i, b1.size(), b2.size(), w.codec); }
  vd.nontrivial = b1.size() > 64;
  return vd;
}

int main(int argc, char **argv) {
  add<W>("determinism", 0.0001, genW, ser, de, runDeterminism);   // selected with --only by its own engine
  add<W>("roundtrip", 1, genW, ser, de, runRoundtrip);
  add<W>("structure", 1, genW, ser, de, runStructure);
  add<W>("page_stats", 1, genW, ser, de, runPageStats);
  return main_(argc, argv);
}
