// C11: every encoding decodes its own output back to the original sequence.
// Oracle: decode(encode(v)) == v, reported byte counts == real encoded size,
// streaming RLE decoder == one-shot decoder under any get/get_batch/skip script.
#include "harness/common/pbt.hpp"
#include "harness/common/carquet_internal.hpp"
#include "gen/seqs.hpp"

using namespace pbt;

struct G {            // generic case shape shared by all sub-properties
  int w = 0;          // bit width / type length / type selector
  std::vector<int64_t> ints;
  std::vector<Bytes> strs;
  std::vector<int> ops;   // streaming script: kind*1000000 + k
};
static CaseText ser(const G &g) {
  CaseText t;
  t.put_i("w", g.w);
  t.put_ints("ints", g.ints);
  t.put_i("nstr", (long long)g.strs.size());
  for (size_t i = 0; i < g.strs.size(); i++) t.put_bytes("s" + std::to_string(i), g.strs[i]);
  t.put_ints("ops", g.ops);
  return t;
}
static G de(const CaseText &t) {
  G g;
  g.w = (int)t.get_i("w");
  g.ints = t.get_ints<int64_t>("ints");
  long n = t.get_i("nstr", 0);
  for (long i = 0; i < n; i++) g.strs.push_back(t.get_bytes("s" + std::to_string(i)));
  if (t.has("ops")) g.ops = t.get_ints<int>("ops");
  return g;
}
static std::vector<int64_t> widen(const std::vector<uint32_t> &v) { return std::vector<int64_t>(v.begin(), v.end()); }

// ------------------------------------------------------------------ RLE hybrid
static rc::Gen<G> genRle(int maxw) {
  return rc::gen::mapcat(rc::gen::weightedOneOf<int>({{3, rc::gen::element(1, 1, 2, 3)}, {2, irange(0, maxw)}, {1, rc::gen::element(0, 7, 8, 9, 15, 16, 17, 31, 32)}}),
                         [maxw](int w) {
                           if (w > maxw) w = maxw;
                           return rc::gen::map(gen::anySeq(w), [w](const std::vector<uint32_t> &v) { G g; g.w = w; g.ints = widen(v); return g; });
                         });
}

static Verdict runRleU32(const G &g) {
  Verdict vd;
  size_t n = g.ints.size();
  std::vector<uint32_t> v(g.ints.begin(), g.ints.end());
  vd.nontrivial = gen::hasUnalignedLongRun(v);
  if (vd.nontrivial) vd.label("run>=8_at_unaligned_pos");
  if (n == 0) vd.label("empty");
  vd.label("width=" + std::to_string(g.w));
  CBuf out;
  Exact in((const uint8_t *)v.data(), n * 4);
  carquet_status_t s = carquet_rle_encode_all(in.as<uint32_t>(), (int64_t)n, g.w, &out.b);
  if (s != CARQUET_OK) { vd.vacuous = true; return vd; }
  Exact enc(out.b.data, out.b.size);
  {
    Exact dst(n * 4);
    int64_t r = carquet_rle_decode_all(enc.p, enc.n, g.w, dst.as<uint32_t>(), (int64_t)n);
    PBT_CHECK(vd, r == (int64_t)n, "decode_all returned %lld for %zu encoded values", (long long)r, n);
    for (size_t i = 0; i < n; i++)
      PBT_CHECK(vd, dst.as<uint32_t>()[i] == v[i], "value %zu: got %u want %u", i, dst.as<uint32_t>()[i], v[i]);
  }
  {  // asking for more than was encoded may only yield final-group padding
    Exact dst((n + 16) * 4);
    int64_t r = carquet_rle_decode_all(enc.p, enc.n, g.w, dst.as<uint32_t>(), (int64_t)n + 16);
    PBT_CHECK(vd, r >= (int64_t)n && r <= (int64_t)n + 7, "decode_all(max=n+16) returned %lld, n=%zu", (long long)r, n);
    for (size_t i = 0; i < n; i++)
      PBT_CHECK(vd, dst.as<uint32_t>()[i] == v[i], "(wide) value %zu: got %u want %u", i, dst.as<uint32_t>()[i], v[i]);
  }
  return vd;
}

static Verdict runRleLevels(const G &g) {
  Verdict vd;
  size_t n = g.ints.size();
  std::vector<int16_t> v(g.ints.begin(), g.ints.end());
  std::vector<uint32_t> u(g.ints.begin(), g.ints.end());
  vd.nontrivial = gen::hasUnalignedLongRun(u);
  if (vd.nontrivial) vd.label("run>=8_at_unaligned_pos");
  CBuf out;
  Exact in((const uint8_t *)v.data(), n * 2);
  carquet_status_t s = carquet_rle_encode_levels(in.as<int16_t>(), (int64_t)n, g.w, &out.b);
  if (s != CARQUET_OK) { vd.vacuous = true; return vd; }
  Exact enc(out.b.data, out.b.size);
  {
    Exact dst(n * 2);
    int64_t r = carquet_rle_decode_levels(enc.p, enc.n, g.w, dst.as<int16_t>(), (int64_t)n);
    PBT_CHECK(vd, r == (int64_t)n, "decode_levels returned %lld for %zu levels", (long long)r, n);
    for (size_t i = 0; i < n; i++)
      PBT_CHECK(vd, dst.as<int16_t>()[i] == v[i], "level %zu: got %d want %d", i, dst.as<int16_t>()[i], v[i]);
  }
  {  // 4-byte little-endian length prefix, as stored in a v1 data page; trailing bytes follow
    Bytes pre(4);
    uint32_t L = (uint32_t)enc.n;
    memcpy(pre.data(), &L, 4);
    pre.insert(pre.end(), enc.p, enc.p + enc.n);
    size_t trail = (size_t)(g.w % 3);
    pre.insert(pre.end(), trail, 0xEE);
    Exact in2(pre);
    Exact dst(n * 2);
    size_t consumed = 12345;
    int64_t r = carquet_rle_decode_levels_prefixed(in2.p, in2.n, g.w, dst.as<int16_t>(), (int64_t)n, &consumed);
    PBT_CHECK(vd, r == (int64_t)n, "decode_levels_prefixed returned %lld for %zu levels", (long long)r, n);
    PBT_CHECK(vd, consumed == 4 + enc.n, "bytes_consumed %zu, real size %zu", consumed, 4 + enc.n);
    for (size_t i = 0; i < n; i++)
      PBT_CHECK(vd, dst.as<int16_t>()[i] == v[i], "prefixed level %zu: got %d want %d", i, dst.as<int16_t>()[i], v[i]);
  }
  return vd;
}

// streaming decoder driven by a script, compared with the one-shot result
static rc::Gen<G> genStream() {
  return rc::gen::mapcat(genRle(32), [](const G &g0) {
    int n = (int)g0.ints.size();
    auto op = rc::gen::map(rc::gen::pair(irange(0, 3), rc::gen::weightedOneOf<int>({{4, irange(0, 9)}, {2, irange(0, n + 9)}, {1, rc::gen::element(7, 8, 9, 16, 64)}})),
                           [](const std::pair<int, int> &p) { return p.first * 1000000 + p.second; });
    return rc::gen::map(rc::gen::container<std::vector<int>>(op), [g0](const std::vector<int> &ops) { G g = g0; g.ops = ops; return g; });
  });
}
static Verdict runStream(const G &g) {
  Verdict vd;
  size_t n = g.ints.size();
  std::vector<uint32_t> v(g.ints.begin(), g.ints.end());
  CBuf out;
  carquet_status_t s = carquet_rle_encode_all(v.data(), (int64_t)n, g.w, &out.b);
  if (s != CARQUET_OK) { vd.vacuous = true; return vd; }
  Exact enc(out.b.data, out.b.size);
  std::vector<uint32_t> one(n + 16);
  int64_t m = carquet_rle_decode_all(enc.p, enc.n, g.w, one.data(), (int64_t)n + 16);
  PBT_CHECK(vd, m >= 0 && m <= (int64_t)n + 16, "one-shot count %lld", (long long)m);
  one.resize((size_t)m);
  carquet_rle_decoder_t dec;
  carquet_rle_decoder_init(&dec, enc.p, enc.n, g.w);
  size_t cur = 0;
  int kinds = 0;
  bool mid_skip = false;
  for (int code : g.ops) {
    int kind = code / 1000000, k = code % 1000000;
    kinds |= 1 << kind;
    size_t rem = one.size() - cur;
    if (kind == 0) {  // get
      if (rem == 0) continue;   // past the end get() returns 0 by contract: nothing to compare
      uint32_t x = carquet_rle_decoder_get(&dec);
      PBT_CHECK(vd, x == one[cur], "get at %zu: %u, one-shot %u", cur, x, one[cur]);
      cur++;
    } else if (kind == 1) {  // get_batch
      Exact dst((size_t)k * 4);
      int64_t r = carquet_rle_decoder_get_batch(&dec, dst.as<uint32_t>(), k);
      size_t want = std::min<size_t>((size_t)k, rem);
      PBT_CHECK(vd, r == (int64_t)want, "get_batch(%d) at %zu returned %lld, one-shot has %zu left", k, cur, (long long)r, rem);
      for (size_t i = 0; i < want; i++)
        PBT_CHECK(vd, dst.as<uint32_t>()[i] == one[cur + i], "get_batch value %zu: %u vs %u", cur + i, dst.as<uint32_t>()[i], one[cur + i]);
      cur += want;
    } else if (kind == 2) {  // skip
      int64_t r = carquet_rle_decoder_skip(&dec, k);
      size_t want = std::min<size_t>((size_t)k, rem);
      PBT_CHECK(vd, r == (int64_t)want, "skip(%d) at %zu returned %lld, one-shot has %zu left", k, cur, (long long)r, rem);
      if (want > 0 && cur + want < one.size()) mid_skip = true;
      cur += want;
    } else {  // has_next
      bool h = carquet_rle_decoder_has_next(&dec);
      if (rem > 0) PBT_CHECK(vd, h, "has_next false at %zu with %zu values left", cur, rem);
    }
    PBT_CHECK(vd, carquet_rle_decoder_status(&dec) == CARQUET_OK, "decoder status %d on own output", (int)carquet_rle_decoder_status(&dec));
  }
  vd.nontrivial = mid_skip && (kinds & 3) != 0 && n >= 9;
  if (mid_skip) vd.label("skip_inside_stream");
  return vd;
}

// ------------------------------------------------------------ raw bit packing
static rc::Gen<G> genBitpack() {
  return rc::gen::mapcat(irange(0, 32), [](int w) {
    return rc::gen::mapcat(rc::gen::weightedOneOf<int>({{5, irange(0, 40)}, {1, irange(41, 300)}}), [w](int n) {
      return rc::gen::map(rc::gen::container<std::vector<uint32_t>>((size_t)n, gen::valueOfWidth(w)),
                          [w](const std::vector<uint32_t> &v) { G g; g.w = w; g.ints = widen(v); return g; });
    });
  });
}
static Verdict runBitpack(const G &g) {
  Verdict vd;
  size_t n = g.ints.size();
  std::vector<uint32_t> v(g.ints.begin(), g.ints.end());
  vd.nontrivial = (n % 8) != 0 && g.w > 0;
  if (vd.nontrivial) vd.label("count_not_multiple_of_8");
  size_t psz = carquet_packed_size(n, g.w);
  Exact in((const uint8_t *)v.data(), n * 4);
  Exact packed(psz);
  size_t wr = carquet_bitpack_32(in.as<uint32_t>(), n, g.w, packed.p);
  PBT_CHECK(vd, wr == psz, "bitpack_32 reported %zu bytes, packed size is %zu", wr, psz);
  Exact outv(n * 4);
  size_t rd = carquet_bitunpack_32(packed.p, n, g.w, outv.as<uint32_t>());
  PBT_CHECK(vd, rd == psz, "bitunpack_32 consumed %zu bytes, packed size is %zu", rd, psz);
  for (size_t i = 0; i < n; i++)
    PBT_CHECK(vd, outv.as<uint32_t>()[i] == v[i], "value %zu: got %u want %u (w=%d)", i, outv.as<uint32_t>()[i], v[i], g.w);
  return vd;
}

// ------------------------------------------------------------------- PLAIN
// w selects the type: 0 bool, 1 int32, 2 int64, 3 int96, 4 float, 5 double, 6 byte_array, 100+L fixed(L)
static rc::Gen<G> genPlain() {
  auto fixed = [](int esz) {
    return rc::gen::map(rc::gen::container<std::vector<Bytes>>(rc::gen::container<Bytes>((size_t)esz, rc::gen::arbitrary<uint8_t>())),
                        [](const std::vector<Bytes> &s) { G g; g.strs = s; return g; });
  };
  auto withw = [](rc::Gen<G> gg, int w) { return rc::gen::map(gg, [w](G g) { g.w = w; return g; }); };
  return rc::gen::mapcat(rc::gen::element(0, 1, 2, 3, 4, 5, 6, 7), [=](int k) -> rc::Gen<G> {
    switch (k) {
      case 0: return withw(rc::gen::map(rc::gen::container<std::vector<uint8_t>>(rc::gen::element<uint8_t>(0, 1)), [](const std::vector<uint8_t> &b) { G g; g.ints.assign(b.begin(), b.end()); return g; }), 0);
      case 1: return withw(rc::gen::map(rc::gen::container<std::vector<int32_t>>(gen::int32Gen()), [](const std::vector<int32_t> &b) { G g; g.ints.assign(b.begin(), b.end()); return g; }), 1);
      case 2: return withw(rc::gen::map(rc::gen::container<std::vector<int64_t>>(gen::int64Gen()), [](const std::vector<int64_t> &b) { G g; g.ints = b; return g; }), 2);
      case 3: return withw(fixed(12), 3);
      case 4: return withw(rc::gen::map(rc::gen::container<std::vector<uint32_t>>(gen::f32bits()), [](const std::vector<uint32_t> &b) { G g; g.ints.assign(b.begin(), b.end()); return g; }), 4);
      case 5: return withw(rc::gen::map(rc::gen::container<std::vector<uint64_t>>(gen::f64bits()), [](const std::vector<uint64_t> &b) { G g; for (auto x : b) g.ints.push_back((int64_t)x); return g; }), 5);
      case 6: return withw(rc::gen::map(rc::gen::container<std::vector<Bytes>>(gen::bytesGen(40)), [](const std::vector<Bytes> &s) { G g; g.strs = s; return g; }), 6);
      default: return rc::gen::mapcat(rc::gen::weightedOneOf<int>({{4, irange(1, 20)}, {1, rc::gen::element(33, 64)}}), [=](int L) { return withw(fixed(L), 100 + L); });
    }
  });
}
static Verdict runPlain(const G &g) {
  Verdict vd;
  CBuf out;
  size_t n = (g.w == 3 || g.w == 6 || g.w >= 100) ? g.strs.size() : g.ints.size();
  vd.nontrivial = n > 0 && (g.w != 0 || n % 8 != 0);
  static const char *names[] = {"bool", "int32", "int64", "int96", "float", "double", "byte_array"};
  vd.label(std::string("plain_") + (g.w >= 100 ? "fixed" : names[g.w]));
#define ENC_OK(call) do { carquet_status_t s_ = (call); if (s_ != CARQUET_OK) { vd.vacuous = true; return vd; } } while (0)
  if (g.w == 0) {
    std::vector<uint8_t> v(g.ints.begin(), g.ints.end());
    Exact in(v);
    ENC_OK(carquet_encode_plain_boolean(in.p, (int64_t)n, &out.b));
    PBT_CHECK(vd, out.b.size == (n + 7) / 8, "bool encoded size %zu for %zu values", out.b.size, n);
    Exact enc(out.b.data, out.b.size), dst(n);
    int64_t r = carquet_decode_plain_boolean(enc.p, enc.n, dst.p, (int64_t)n);
    PBT_CHECK(vd, r == (int64_t)enc.n, "bool decode consumed %lld of %zu", (long long)r, enc.n);
    PBT_CHECK(vd, memcmp(dst.p, v.data(), n) == 0, "bool values differ (n=%zu)", n);
  } else if (g.w == 1 || g.w == 4) {
    std::vector<uint32_t> v(g.ints.begin(), g.ints.end());
    Exact in((const uint8_t *)v.data(), n * 4);
    if (g.w == 1) ENC_OK(carquet_encode_plain_int32(in.as<int32_t>(), (int64_t)n, &out.b));
    else ENC_OK(carquet_encode_plain_float(in.as<float>(), (int64_t)n, &out.b));
    PBT_CHECK(vd, out.b.size == n * 4, "encoded size %zu for %zu 4-byte values", out.b.size, n);
    Exact enc(out.b.data, out.b.size), dst(n * 4);
    int64_t r = g.w == 1 ? carquet_decode_plain_int32(enc.p, enc.n, dst.as<int32_t>(), (int64_t)n)
                         : carquet_decode_plain_float(enc.p, enc.n, dst.as<float>(), (int64_t)n);
    PBT_CHECK(vd, r == (int64_t)enc.n, "decode consumed %lld of %zu", (long long)r, enc.n);
    PBT_CHECK(vd, memcmp(dst.p, v.data(), n * 4) == 0, "4-byte values differ (n=%zu)", n);
  } else if (g.w == 2 || g.w == 5) {
    std::vector<int64_t> v = g.ints;
    Exact in((const uint8_t *)v.data(), n * 8);
    if (g.w == 2) ENC_OK(carquet_encode_plain_int64(in.as<int64_t>(), (int64_t)n, &out.b));
    else ENC_OK(carquet_encode_plain_double(in.as<double>(), (int64_t)n, &out.b));
    PBT_CHECK(vd, out.b.size == n * 8, "encoded size %zu for %zu 8-byte values", out.b.size, n);
    Exact enc(out.b.data, out.b.size), dst(n * 8);
    int64_t r = g.w == 2 ? carquet_decode_plain_int64(enc.p, enc.n, dst.as<int64_t>(), (int64_t)n)
                         : carquet_decode_plain_double(enc.p, enc.n, dst.as<double>(), (int64_t)n);
    PBT_CHECK(vd, r == (int64_t)enc.n, "decode consumed %lld of %zu", (long long)r, enc.n);
    PBT_CHECK(vd, memcmp(dst.p, v.data(), n * 8) == 0, "8-byte values differ (n=%zu)", n);
  } else if (g.w == 3 || g.w >= 100) {
    int L = g.w == 3 ? 12 : g.w - 100;
    Bytes flat;
    for (auto &s : g.strs) flat.insert(flat.end(), s.begin(), s.end());
    Exact in(flat);
    if (g.w == 3) ENC_OK(carquet_encode_plain_int96(in.as<carquet_int96_t>(), (int64_t)n, &out.b));
    else ENC_OK(carquet_encode_plain_fixed_byte_array(in.p, (int64_t)n, L, &out.b));
    PBT_CHECK(vd, out.b.size == n * (size_t)L, "encoded size %zu for %zu values of %d bytes", out.b.size, n, L);
    Exact enc(out.b.data, out.b.size), dst(n * (size_t)L);
    int64_t r = g.w == 3 ? carquet_decode_plain_int96(enc.p, enc.n, dst.as<carquet_int96_t>(), (int64_t)n)
                         : carquet_decode_plain_fixed_byte_array(enc.p, enc.n, dst.p, (int64_t)n, L);
    PBT_CHECK(vd, r == (int64_t)enc.n, "decode consumed %lld of %zu", (long long)r, enc.n);
    PBT_CHECK(vd, memcmp(dst.p, flat.data(), flat.size()) == 0, "fixed values differ (n=%zu L=%d)", n, L);
  } else {  // byte_array
    std::vector<Exact *> hold;
    std::vector<carquet_byte_array_t> arr(n);
    size_t total = 0;
    for (size_t i = 0; i < n; i++) {
      hold.push_back(new Exact(g.strs[i]));
      arr[i].data = hold.back()->p;
      arr[i].length = (int32_t)g.strs[i].size();
      total += 4 + g.strs[i].size();
    }
    carquet_status_t s = carquet_encode_plain_byte_array(arr.data(), (int64_t)n, &out.b);
    for (auto h : hold) delete h;
    if (s != CARQUET_OK) { vd.vacuous = true; return vd; }
    PBT_CHECK(vd, out.b.size == total, "byte_array encoded size %zu, expected %zu", out.b.size, total);
    Exact enc(out.b.data, out.b.size);
    std::vector<carquet_byte_array_t> got(n);
    int64_t r = carquet_decode_plain_byte_array(enc.p, enc.n, got.data(), (int64_t)n);
    PBT_CHECK(vd, r == (int64_t)enc.n, "decode consumed %lld of %zu", (long long)r, enc.n);
    for (size_t i = 0; i < n; i++) {
      PBT_CHECK(vd, got[i].length == (int32_t)g.strs[i].size(), "value %zu length %d want %zu", i, got[i].length, g.strs[i].size());
      PBT_CHECK(vd, memcmp(got[i].data, g.strs[i].data(), g.strs[i].size()) == 0, "value %zu bytes differ", i);
    }
  }
  return vd;
}

// ------------------------------------------------------- DELTA_BINARY_PACKED
static rc::Gen<int> deltaLen() {
  return rc::gen::weightedOneOf<int>({{3, rc::gen::element(0, 1, 2, 32, 33, 34, 128, 129, 130, 256, 257, 258, 384, 385, 386, 513, 641, 1025)}, {4, irange(0, 140)}, {1, irange(141, 700)}});
}
template <class T> static rc::Gen<std::vector<int64_t>> deltaSeq(int n, bool is32) {
  // styles: arbitrary values (wrap-around deltas), small steps, min/max alternation, deltas of a chosen width
  auto arb = rc::gen::container<std::vector<int64_t>>((size_t)n, is32 ? rc::gen::map(gen::int32Gen(), [](int32_t x) { return (int64_t)x; }) : gen::int64Gen());
  auto steps = rc::gen::map(rc::gen::pair(is32 ? rc::gen::map(gen::int32Gen(), [](int32_t x) { return (int64_t)x; }) : gen::int64Gen(),
                                          rc::gen::container<std::vector<int>>((size_t)n, irange(-3, 3))),
                            [is32](const std::pair<int64_t, std::vector<int>> &p) {
                              std::vector<int64_t> v; uint64_t x = (uint64_t)p.first;
                              for (int d : p.second) { v.push_back(is32 ? (int64_t)(int32_t)(uint32_t)x : (int64_t)x); x += (uint64_t)(int64_t)d; }
                              return v;
                            });
  auto alt = rc::gen::map(rc::gen::just(0), [n, is32](int) {
    std::vector<int64_t> v;
    for (int i = 0; i < n; i++) v.push_back(is32 ? ((i & 1) ? INT32_MAX : INT32_MIN) : ((i & 1) ? INT64_MAX : INT64_MIN));
    return v;
  });
  auto width = rc::gen::map(rc::gen::tuple(irange(1, is32 ? 32 : 64), rc::gen::container<std::vector<uint64_t>>((size_t)n, bits64())),
                            [is32](const std::tuple<int, std::vector<uint64_t>> &p) {
                              int w = std::get<0>(p);
                              std::vector<int64_t> v; uint64_t x = 0;
                              for (uint64_t r : std::get<1>(p)) { x += (w >= 64 ? r : (r & ((1ull << w) - 1))); v.push_back(is32 ? (int64_t)(int32_t)(uint32_t)x : (int64_t)x); }
                              return v;
                            });
  // evenly spaced values (row ids, fixed-rate timestamps): every delta equal, all mini-blocks of width 0 - the most compact
  // stream the format has; optionally one value off the line (a single wide mini-block in an otherwise minimal stream)
  auto linear = rc::gen::map(rc::gen::tuple(is32 ? rc::gen::map(gen::int32Gen(), [](int32_t x) { return (int64_t)x; }) : gen::int64Gen(),
                                            rc::gen::weightedOneOf<int64_t>({{3, rc::gen::element<int64_t>(0, 1, -1, 2, 1000, -40)}, {1, rc::gen::map(gen::int32Gen(), [](int32_t x) { return (int64_t)x; })}}),
                                            rc::gen::weightedOneOf<int>({{1, rc::gen::just(-1)}, {1, irange(0, n > 0 ? n - 1 : 0)}})),
                             [n, is32](const std::tuple<int64_t, int64_t, int> &p) {
                               std::vector<int64_t> v; uint64_t x = (uint64_t)std::get<0>(p);
                               for (int i = 0; i < n; i++) { uint64_t y = (i == std::get<2>(p)) ? x + 12345u : x; v.push_back(is32 ? (int64_t)(int32_t)(uint32_t)y : (int64_t)y); x += (uint64_t)std::get<1>(p); }
                               return v;
                             });
  return rc::gen::weightedOneOf<std::vector<int64_t>>({{3, arb}, {2, steps}, {1, alt}, {3, width}, {2, linear}});
}
static rc::Gen<G> genDelta(bool is32) {
  return rc::gen::mapcat(deltaLen(), [is32](int n) {
    return rc::gen::map(deltaSeq<int64_t>(n, is32), [is32](const std::vector<int64_t> &v) { G g; g.w = is32 ? 32 : 64; g.ints = v; return g; });
  });
}
static int bitsNeeded(uint64_t x) { int w = 0; while (x) { w++; x >>= 1; } return w; }
static Verdict runDelta(const G &g) {
  Verdict vd;
  size_t n = g.ints.size();
  bool is32 = g.w == 32;
  // widest delta range inside one block
  int maxw = 0;
  for (size_t b = 1; b < n; b += 128) {
    uint64_t lo = ~0ull, hi = 0; int64_t mn = INT64_MAX;
    std::vector<int64_t> d;
    for (size_t i = b; i < std::min(n, b + 128); i++) d.push_back((int64_t)((uint64_t)g.ints[i] - (uint64_t)g.ints[i - 1]));
    for (auto x : d) mn = std::min(mn, x);
    for (auto x : d) maxw = std::max(maxw, bitsNeeded((uint64_t)x - (uint64_t)mn));
  }
  vd.nontrivial = n > 129 || maxw > 32;
  if (maxw > 32) vd.label("delta_width>32");
  if (n > 129) vd.label("crosses_block");
  if (n == 0) vd.label("empty");
  size_t cap = 64 + n * 11 + 128 * 9;
  Exact enc(cap);
  size_t written = (size_t)-1;
  carquet_status_t s;
  if (is32) {
    std::vector<int32_t> v(g.ints.begin(), g.ints.end());
    Exact in((const uint8_t *)v.data(), n * 4);
    s = carquet_delta_encode_int32(in.as<int32_t>(), (int32_t)n, enc.p, cap, &written);
  } else {
    Exact in((const uint8_t *)g.ints.data(), n * 8);
    s = carquet_delta_encode_int64(in.as<int64_t>(), (int32_t)n, enc.p, cap, &written);
  }
  if (s != CARQUET_OK) { vd.vacuous = true; return vd; }
  PBT_CHECK(vd, written <= cap, "bytes_written %zu exceeds capacity %zu", written, cap);
  if (n == 0 && written == 0) { vd.label("empty_refused_by_decoder_is_ok"); return vd; }  // nothing to decode
  Exact e2(enc.p, written);
  size_t consumed = (size_t)-1;
  if (is32) {
    Exact dst(n * 4);
    s = carquet_delta_decode_int32(e2.p, e2.n, dst.as<int32_t>(), (int32_t)n, &consumed);
    PBT_CHECK(vd, s == CARQUET_OK, "decode_int32 of own output failed: %d (n=%zu)", (int)s, n);
    for (size_t i = 0; i < n; i++)
      PBT_CHECK(vd, dst.as<int32_t>()[i] == (int32_t)g.ints[i], "value %zu: got %d want %d", i, dst.as<int32_t>()[i], (int32_t)g.ints[i]);
  } else {
    Exact dst(n * 8);
    s = carquet_delta_decode_int64(e2.p, e2.n, dst.as<int64_t>(), (int32_t)n, &consumed);
    PBT_CHECK(vd, s == CARQUET_OK, "decode_int64 of own output failed: %d (n=%zu)", (int)s, n);
    for (size_t i = 0; i < n; i++)
      PBT_CHECK(vd, dst.as<int64_t>()[i] == g.ints[i], "value %zu: got %lld want %lld", i, (long long)dst.as<int64_t>()[i], (long long)g.ints[i]);
  }
  PBT_CHECK(vd, consumed == written, "bytes_consumed %zu != bytes_written %zu (n=%zu)", consumed, written, n);
  return vd;
}

// ---------------------------------------- DELTA_LENGTH / DELTA_BYTE_ARRAY
static rc::Gen<G> genStrings(bool prefixy) {
  auto plain = rc::gen::container<std::vector<Bytes>>(gen::bytesGen(30));
  // strings sharing prefixes with their predecessor
  auto chain = rc::gen::map(rc::gen::container<std::vector<std::tuple<int, Bytes>>>(rc::gen::tuple(irange(0, 40), gen::bytesGen(12))),
                            [](const std::vector<std::tuple<int, Bytes>> &s) {
                              std::vector<Bytes> out; Bytes prev;
                              for (auto &t : s) { size_t k = std::min<size_t>((size_t)std::get<0>(t), prev.size()); Bytes b(prev.begin(), prev.begin() + k);
                                b.insert(b.end(), std::get<1>(t).begin(), std::get<1>(t).end()); out.push_back(b); prev = b; }
                              return out;
                            });
  return rc::gen::map(prefixy ? rc::gen::weightedOneOf<std::vector<Bytes>>({{1, plain}, {3, chain}}) : rc::gen::weightedOneOf<std::vector<Bytes>>({{3, plain}, {1, chain}}),
                      [](const std::vector<Bytes> &s) { G g; g.strs = s; return g; });
}
static Verdict runStrings(const G &g, bool incremental) {
  Verdict vd;
  size_t n = g.strs.size();
  std::vector<Exact *> hold;
  std::vector<carquet_byte_array_t> arr(n);
  size_t total = 0, shared = 0;
  for (size_t i = 0; i < n; i++) {
    hold.push_back(new Exact(g.strs[i]));
    arr[i].data = hold.back()->p;
    arr[i].length = (int32_t)g.strs[i].size();
    total += g.strs[i].size();
    if (i && !g.strs[i].empty() && !g.strs[i - 1].empty() && g.strs[i][0] == g.strs[i - 1][0]) shared++;
  }
  struct Rel { std::vector<Exact *> &h; ~Rel() { for (auto x : h) delete x; } } rel{hold};
  vd.nontrivial = n >= 2 && (incremental ? shared > 0 : total > 0);
  if (n == 0) vd.label("empty");
  if (shared) vd.label("shared_prefix");
  CBuf out;
  carquet_status_t s = incremental ? carquet_delta_strings_encode(arr.data(), (int32_t)n, &out.b)
                                   : carquet_delta_length_encode(arr.data(), (int32_t)n, &out.b);
  if (s != CARQUET_OK) { vd.vacuous = true; return vd; }
  Exact enc(out.b.data, out.b.size);
  std::vector<carquet_byte_array_t> got(n);
  size_t consumed = (size_t)-1;
  Exact work(total);
  if (incremental) s = carquet_delta_strings_decode(enc.p, enc.n, got.data(), (int32_t)n, work.p, total, &consumed);
  else s = carquet_delta_length_decode(enc.p, enc.n, got.data(), (int32_t)n, &consumed);
  PBT_CHECK(vd, s == CARQUET_OK, "decode of own output failed: %d (n=%zu)", (int)s, n);
  PBT_CHECK(vd, consumed == enc.n, "bytes_consumed %zu != encoded size %zu", consumed, enc.n);
  for (size_t i = 0; i < n; i++) {
    PBT_CHECK(vd, got[i].length == (int32_t)g.strs[i].size(), "value %zu length %d want %zu", i, got[i].length, g.strs[i].size());
    PBT_CHECK(vd, memcmp(got[i].data, g.strs[i].data(), g.strs[i].size()) == 0, "value %zu bytes differ", i);
  }
  std::string ap = appendCheck(out.bytes(), [&](carquet_buffer_t *b) { return incremental ? carquet_delta_strings_encode(arr.data(), (int32_t)n, b) : carquet_delta_length_encode(arr.data(), (int32_t)n, b); });
  PBT_CHECK(vd, ap.empty(), "%s: %s", incremental ? "DELTA_BYTE_ARRAY" : "DELTA_LENGTH_BYTE_ARRAY", ap.c_str());
  return vd;
}

// --------------------------------------------------------- BYTE_STREAM_SPLIT
// w: 4 = float API, 8 = double API, 100+L generic with type length L
static rc::Gen<G> genBss() {
  return rc::gen::mapcat(rc::gen::weightedOneOf<int>({{2, rc::gen::just(4)}, {2, rc::gen::just(8)}, {3, rc::gen::map(irange(1, 20), [](int L) { return 100 + L; })}}), [](int w) {
    int L = w >= 100 ? w - 100 : w;
    // rarely a count around 32768 / 65536 (block-wise kernels, 16-bit counters); those bytes come from a seeded xorshift
    return rc::gen::mapcat(rc::gen::weightedOneOf<int>({{240, irange(0, 70)}, {60, irange(71, 600)}, {L <= 8 ? 10 : 0, rc::gen::element(32767, 32768, 32769, 32784, 40000, 65535, 65536, 65537, 70001)}}), [w, L](int n) {
      if (n > 600) return rc::gen::map(bits64(), [w, L, n](uint64_t seed) { Bytes b((size_t)n * (size_t)L); uint64_t s = seed | 1; for (auto &x : b) { s ^= s << 13; s ^= s >> 7; s ^= s << 17; x = (uint8_t)(s >> 24); } G g; g.w = w; g.strs.push_back(b); return g; });
      return rc::gen::map(rc::gen::container<Bytes>((size_t)(n * L), rc::gen::arbitrary<uint8_t>()), [w](const Bytes &b) { G g; g.w = w; g.strs.push_back(b); return g; });
    });
  });
}
static Verdict runBss(const G &g) {
  Verdict vd;
  int L = g.w >= 100 ? g.w - 100 : g.w;
  const Bytes &flat = g.strs.at(0);
  size_t n = flat.size() / (size_t)L;
  vd.nontrivial = n > 0 && (n % 16) != 0;
  vd.label(g.w == 4 ? "bss_float" : g.w == 8 ? "bss_double" : "bss_generic");
  Exact in(flat.data(), n * L), enc(n * L), dst(n * L);
  size_t written = (size_t)-1;
  carquet_status_t s;
  if (g.w == 4) s = carquet_byte_stream_split_encode_float(in.as<float>(), (int64_t)n, enc.p, enc.n, &written);
  else if (g.w == 8) s = carquet_byte_stream_split_encode_double(in.as<double>(), (int64_t)n, enc.p, enc.n, &written);
  else s = carquet_byte_stream_split_encode(in.p, (int64_t)n, L, enc.p, enc.n, &written);
  if (s != CARQUET_OK) { vd.vacuous = true; return vd; }
  PBT_CHECK(vd, written == n * (size_t)L, "bytes_written %zu, expected %zu", written, n * (size_t)L);
  if (g.w == 4) s = carquet_byte_stream_split_decode_float(enc.p, enc.n, dst.as<float>(), (int64_t)n);
  else if (g.w == 8) s = carquet_byte_stream_split_decode_double(enc.p, enc.n, dst.as<double>(), (int64_t)n);
  else s = carquet_byte_stream_split_decode(enc.p, enc.n, L, dst.p, (int64_t)n);
  PBT_CHECK(vd, s == CARQUET_OK, "decode of own output failed: %d", (int)s);
  PBT_CHECK(vd, memcmp(dst.p, flat.data(), n * L) == 0, "values differ (n=%zu L=%d)", n, L);
  // pointers as a reader has them: the page bytes start at any byte of a larger buffer, the output pointer has the alignment
  // of its element type only (a page decoded behind values that are already there)
  {
    size_t el = g.w == 4 ? 4 : g.w == 8 ? 8 : 1;
    size_t mis = el * (1 + n % 3), emis = 1 + n % 7;
    Exact enc2(n * L + emis), dst2(n * L + mis);
    memcpy(enc2.p + emis, enc.p, n * L);
    if (g.w == 4) s = carquet_byte_stream_split_decode_float(enc2.p + emis, n * L, (float *)(dst2.p + mis), (int64_t)n);
    else if (g.w == 8) s = carquet_byte_stream_split_decode_double(enc2.p + emis, n * L, (double *)(dst2.p + mis), (int64_t)n);
    else s = carquet_byte_stream_split_decode(enc2.p + emis, n * L, L, dst2.p + mis, (int64_t)n);
    PBT_CHECK(vd, s == CARQUET_OK, "decode of own output at other pointer alignments (input +%zu, output +%zu) failed: %d", emis, mis, (int)s);
    PBT_CHECK(vd, memcmp(dst2.p + mis, flat.data(), n * L) == 0, "values differ when input starts at +%zu and output at +%zu bytes from a 16-byte boundary (n=%zu L=%d)", emis, mis, n, L);
    Exact in2(n * L + mis), enc3(n * L + emis);
    memcpy(in2.p + mis, flat.data(), n * L);
    size_t w3 = 0;
    if (g.w == 4) s = carquet_byte_stream_split_encode_float((const float *)(in2.p + mis), (int64_t)n, enc3.p + emis, n * L, &w3);
    else if (g.w == 8) s = carquet_byte_stream_split_encode_double((const double *)(in2.p + mis), (int64_t)n, enc3.p + emis, n * L, &w3);
    else s = carquet_byte_stream_split_encode(in2.p + mis, (int64_t)n, L, enc3.p + emis, n * L, &w3);
    PBT_CHECK(vd, s == CARQUET_OK && w3 == n * (size_t)L && memcmp(enc3.p + emis, enc.p, n * L) == 0, "encoding the same values from/to other pointer alignments gives different bytes (status %d)", (int)s);
  }
  return vd;
}

// --------------------------------------------------------------- dictionary
// w: 1 int32, 2 int64, 4 float, 5 double, 6 byte_array
static rc::Gen<G> genDict() {
  return rc::gen::mapcat(rc::gen::element(1, 2, 4, 5, 6), [](int w) -> rc::Gen<G> {
    // pool of distinct values, then a run-structured index sequence over the pool
    auto poolsz = rc::gen::weightedOneOf<int>({{4, irange(1, 9)}, {2, irange(10, 70)}, {1, irange(250, 300)}});
    if (w == 6) {
      return rc::gen::mapcat(poolsz, [w](int k) {
        return rc::gen::map(rc::gen::pair(rc::gen::container<std::vector<Bytes>>((size_t)k, gen::bytesGen(12)), gen::anySeq(16, false)),
                            [w, k](const std::pair<std::vector<Bytes>, std::vector<uint32_t>> &p) {
                              G g; g.w = w;
                              for (uint32_t i : p.second) g.strs.push_back(p.first[i % (uint32_t)k]);
                              return g;
                            });
      });
    }
    // structured pools: values that agree in their low (or high) 32 bits - whole-number doubles, k << 32, k * 2^32 + c - as
    // real columns hold them; an equality or hash shortcut over half of the key merges such entries
    auto structured = rc::gen::map(rc::gen::tuple(irange(0, 3), irange(2, 400), bits64()), [](const std::tuple<int, int, uint64_t> &t) {
      std::vector<uint64_t> pool; int kind = std::get<0>(t), k = std::get<1>(t); uint64_t c = std::get<2>(t);
      for (int i = 0; i < k; i++) {
        uint64_t v;
        if (kind == 0) { double d = (double)i; memcpy(&v, &d, 8); }
        else if (kind == 1) v = (uint64_t)i << 32;
        else if (kind == 2) v = ((uint64_t)i << 32) | (c & 0xffffffffu);
        else v = (c & 0xffffffff00000000ull) | (uint64_t)i;
        pool.push_back(v);
      }
      return pool; });
    return rc::gen::mapcat(poolsz, [w, structured](int k) {
      auto pool = (w == 2 || w == 5) ? rc::gen::weightedOneOf<std::vector<uint64_t>>({{3, rc::gen::container<std::vector<uint64_t>>((size_t)k, gen::f64bits())}, {1, structured}})
                                     : rc::gen::container<std::vector<uint64_t>>((size_t)k, gen::f64bits());
      return rc::gen::map(rc::gen::pair(pool, gen::anySeq(16, false)),
                          [w, k](const std::pair<std::vector<uint64_t>, std::vector<uint32_t>> &p) {
                            G g; g.w = w;
                            for (uint32_t i : p.second) { uint64_t x = p.first[i % (uint32_t)p.first.size()]; g.ints.push_back((w == 1 || w == 4) ? (int64_t)(uint32_t)x : (int64_t)x); }
                            return g;
                          });
    });
  });
}
static Verdict runDict(const G &g) {
  Verdict vd;
  CBuf dict, idx;
  size_t n = g.w == 6 ? g.strs.size() : g.ints.size();
  carquet_status_t s;
  std::set<Bytes> distinct;
  if (g.w == 6) for (auto &b : g.strs) distinct.insert(b);
  else for (auto x : g.ints) { Bytes b(8); memcpy(b.data(), &x, 8); distinct.insert(b); }
  vd.nontrivial = distinct.size() >= 2 && n > distinct.size();
  if (distinct.size() > 256) vd.label("dict>256");
  if (n == 0) vd.label("empty");
  static const char *names[] = {"", "int32", "int64", "", "float", "double", "byte_array"};
  vd.label(std::string("dict_") + names[g.w]);
  size_t esz = (g.w == 1 || g.w == 4) ? 4 : 8;
  if (g.w == 6) {
    std::vector<Exact *> hold;
    std::vector<carquet_byte_array_t> arr(n);
    for (size_t i = 0; i < n; i++) { hold.push_back(new Exact(g.strs[i])); arr[i].data = hold.back()->p; arr[i].length = (int32_t)g.strs[i].size(); }
    s = carquet_dictionary_encode_byte_array(arr.data(), (int64_t)n, &dict.b, &idx.b);
    for (auto h : hold) delete h;
  } else if (esz == 4) {
    std::vector<uint32_t> v(g.ints.begin(), g.ints.end());
    Exact in((const uint8_t *)v.data(), n * 4);
    s = g.w == 1 ? carquet_dictionary_encode_int32(in.as<int32_t>(), (int64_t)n, &dict.b, &idx.b)
                 : carquet_dictionary_encode_float(in.as<float>(), (int64_t)n, &dict.b, &idx.b);
  } else {
    Exact in((const uint8_t *)g.ints.data(), n * 8);
    s = g.w == 2 ? carquet_dictionary_encode_int64(in.as<int64_t>(), (int64_t)n, &dict.b, &idx.b)
                 : carquet_dictionary_encode_double(in.as<double>(), (int64_t)n, &dict.b, &idx.b);
  }
  if (s != CARQUET_OK) { vd.vacuous = true; return vd; }
  Exact d(dict.b.data, dict.b.size), ix(idx.b.data, idx.b.size);
  if (g.w == 6) {
    // no byte-array dictionary decoder exists: decode the dictionary as PLAIN and the indices as width byte + hybrid
    if (n == 0) { PBT_CHECK(vd, d.n == 0, "dictionary of an empty column holds %zu bytes", d.n); return vd; }
    std::vector<carquet_byte_array_t> ent(distinct.size());
    int64_t r = carquet_decode_plain_byte_array(d.p, d.n, ent.data(), (int64_t)distinct.size());
    PBT_CHECK(vd, r == (int64_t)d.n, "dictionary page is not %zu PLAIN byte arrays (consumed %lld of %zu)", distinct.size(), (long long)r, d.n);
    PBT_CHECK(vd, ix.n >= 1, "index stream empty for %zu values", n);
    std::vector<uint32_t> got(n);
    int64_t c = carquet_rle_decode_all(ix.p + 1, ix.n - 1, ix.p[0], got.data(), (int64_t)n);
    PBT_CHECK(vd, c == (int64_t)n, "index stream decodes to %lld values, want %zu", (long long)c, n);
    for (size_t i = 0; i < n; i++) {
      PBT_CHECK(vd, got[i] < ent.size(), "index %u out of dictionary (%zu entries)", got[i], ent.size());
      PBT_CHECK(vd, ent[got[i]].length == (int32_t)g.strs[i].size() && memcmp(ent[got[i]].data, g.strs[i].data(), g.strs[i].size()) == 0, "value %zu differs", i);
    }
    return vd;
  }
  PBT_CHECK(vd, d.n == distinct.size() * esz, "dictionary holds %zu bytes for %zu distinct values of %zu bytes", d.n, distinct.size(), esz);
  Exact dst(n * esz);
  int32_t dc = (int32_t)(d.n / esz);
  switch (g.w) {
    case 1: s = carquet_dictionary_decode_int32(d.p, d.n, dc, ix.p, ix.n, dst.as<int32_t>(), (int64_t)n); break;
    case 2: s = carquet_dictionary_decode_int64(d.p, d.n, dc, ix.p, ix.n, dst.as<int64_t>(), (int64_t)n); break;
    case 4: s = carquet_dictionary_decode_float(d.p, d.n, dc, ix.p, ix.n, dst.as<float>(), (int64_t)n); break;
    default: s = carquet_dictionary_decode_double(d.p, d.n, dc, ix.p, ix.n, dst.as<double>(), (int64_t)n); break;
  }
  PBT_CHECK(vd, s == CARQUET_OK, "dictionary decode of own output failed: %d (n=%zu, %zu distinct)", (int)s, n, distinct.size());
  for (size_t i = 0; i < n; i++) {
    if (esz == 4) PBT_CHECK(vd, dst.as<uint32_t>()[i] == (uint32_t)g.ints[i], "value %zu: %08x want %08x", i, dst.as<uint32_t>()[i], (uint32_t)g.ints[i]);
    else PBT_CHECK(vd, dst.as<int64_t>()[i] == g.ints[i], "value %zu: %llx want %llx", i, (long long)dst.as<int64_t>()[i], (long long)g.ints[i]);
  }
  return vd;
}

// ------------------------------------------------------ bounded-exhaustive
static void enumRle(int level, const std::function<bool(const CaseText &)> &sink) {
  // every sequence over {0,1} at width 1 up to length L1; over {0,1,2} at width 2 up to length L2;
  // every (length <= 20, single run boundary) at assorted widths
  int L1 = level >= 2 ? 18 : 13, L2 = level >= 2 ? 11 : 8;
  for (int len = 0; len <= L1; len++)
    for (uint32_t bits = 0; bits < (1u << len); bits++) {
      G g; g.w = 1;
      for (int i = 0; i < len; i++) g.ints.push_back((bits >> i) & 1);
      if (!sink(ser(g))) return;
    }
  for (int len = 1; len <= L2; len++) {
    long total = 1; for (int i = 0; i < len; i++) total *= 3;
    for (long code = 0; code < total; code++) {
      G g; g.w = 2; long c = code;
      for (int i = 0; i < len; i++) { g.ints.push_back(c % 3); c /= 3; }
      if (!sink(ser(g))) return;
    }
  }
  for (int w : {0, 1, 3, 8, 9, 16, 31, 32})
    for (int len = 0; len <= 40; len++)
      for (int b = 0; b <= len; b++) {
        G g; g.w = w; uint32_t m = gen::maskw(w);
        for (int i = 0; i < len; i++) g.ints.push_back(i < b ? (m & 0x55555555u) : m);
        if (!sink(ser(g))) return;
      }
}

int main(int argc, char **argv) {
  add<G>("rle_u32", 3, [] { return genRle(32); }, ser, de, runRleU32);
  registry().back().enumerate = enumRle;
  add<G>("rle_levels", 2, [] { return genRle(15); }, ser, de, runRleLevels);
  add<G>("rle_stream", 2, genStream, ser, de, runStream);
  add<G>("bitpack", 1.5, genBitpack, ser, de, runBitpack);
  add<G>("plain", 1.5, genPlain, ser, de, runPlain);
  add<G>("delta32", 1.5, [] { return genDelta(true); }, ser, de, runDelta);
  add<G>("delta64", 1.5, [] { return genDelta(false); }, ser, de, runDelta);
  add<G>("delta_length", 1, [] { return genStrings(false); }, ser, de, [](const G &g) { return runStrings(g, false); });
  add<G>("delta_strings", 1, [] { return genStrings(true); }, ser, de, [](const G &g) { return runStrings(g, true); });
  add<G>("bss", 1, genBss, ser, de, runBss);
  add<G>("dict", 1.5, genDict, ser, de, runDict);
  return main_(argc, argv);
}
