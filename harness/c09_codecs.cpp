// C09: codecs round-trip every input and honour their size bounds.
#include "harness/common/pbt.hpp"
#include "harness/common/carquet_internal.hpp"
#include "gen/bytes.hpp"
#include "harness/common/cwriter.hpp"
#include "ref/parquet_reader.hpp"

using namespace pbt;

struct C {
  int codec = 0;   // 0 snappy, 1 lz4, 2 gzip, 3 zstd
  int level = 0;
  std::vector<gen::Seg> segs;
};
static CaseText ser(const C &c) { CaseText t; t.put_i("codec", c.codec); t.put_i("level", c.level); gen::putSegs(t, c.segs); return t; }
static C de(const CaseText &t) { C c; c.codec = (int)t.get_i("codec"); c.level = (int)t.get_i("level"); c.segs = gen::getSegs(t); return c; }

static const char *cname[] = {"snappy", "lz4", "gzip", "zstd"};
static size_t boundOf(int codec, size_t n) {
  switch (codec) { case 0: return carquet_snappy_compress_bound(n); case 1: return carquet_lz4_compress_bound(n);
                   case 2: return carquet_gzip_compress_bound(n); default: return carquet_zstd_compress_bound(n); }
}
static int compress(int codec, int level, const uint8_t *s, size_t n, uint8_t *d, size_t cap, size_t *w) {
  switch (codec) { case 0: return carquet_snappy_compress(s, n, d, cap, w); case 1: return carquet_lz4_compress(s, n, d, cap, w);
                   case 2: return carquet_gzip_compress(s, n, d, cap, w, level); default: return carquet_zstd_compress(s, n, d, cap, w, level); }
}
static int decompress(int codec, const uint8_t *s, size_t n, uint8_t *d, size_t cap, size_t *w) {
  switch (codec) { case 0: return carquet_snappy_decompress(s, n, d, cap, w); case 1: return carquet_lz4_decompress(s, n, d, cap, w);
                   case 2: return carquet_gzip_decompress(s, n, d, cap, w); default: return carquet_zstd_decompress(s, n, d, cap, w); }
}

static uint32_t g_big = 300000;
static rc::Gen<C> genC() {
  return rc::gen::mapcat(rc::gen::weightedOneOf<int>({{3, rc::gen::just(0)}, {3, rc::gen::just(1)}, {1, rc::gen::just(2)}, {1, rc::gen::just(3)}}), [](int codec) {
    auto lvl = codec == 2 ? rc::gen::weightedOneOf<int>({{5, irange(1, 9)}, {1, rc::gen::element(0, -1, 10, 100)}})
               : codec == 3 ? rc::gen::weightedOneOf<int>({{5, irange(1, 6)}, {1, irange(7, 22)}, {1, rc::gen::element(0, -5, 23, 1000)}})
                            : rc::gen::just(0);
    // wholly incompressible inputs at the size classes where codecs switch strategy (stored-block sizes, window sizes): the
    // compressed size is then closest to the advertised bound
    auto incompressible = rc::gen::map(rc::gen::tuple(rc::gen::weightedOneOf<int>({{2, irange(4090, 4100)}, {2, irange(8186, 8200)}, {2, irange(12280, 12300)}, {4, irange(12300, 16384)}, {2, irange(16380, 16400)}, {2, irange(32760, 32780)}, {2, irange(65530, 65545)}, {2, irange(1, 4000)}, {1, irange(100000, 140000)}}), irange(0, 1 << 30), irange(0, 40)),
                                       [](const std::tuple<int, int, int> &t) { gen::Seg a; a.kind = 0; a.len = (uint32_t)std::get<0>(t); a.seed = (uint32_t)std::get<1>(t); std::vector<gen::Seg> v{a}; if (std::get<2>(t) < 6) { gen::Seg b; b.kind = 1; b.len = (uint32_t)std::get<2>(t); b.a = 7; v.push_back(b); } return v; });
    auto segs = rc::gen::weightedOneOf<std::vector<gen::Seg>>({{7, gen::segsGen(g_big)}, {1, incompressible}});
    return rc::gen::map(rc::gen::pair(lvl, segs), [codec](const std::pair<int, std::vector<gen::Seg>> &p) { C c; c.codec = codec; c.level = p.first; c.segs = p.second; return c; });
  });
}

static Verdict runC(const C &c) {
  Verdict vd;
  Bytes x = gen::expand(c.segs, (size_t)24 << 20);
  size_t n = x.size();
  vd.label(cname[c.codec]);
  bool far_ref = false, long_lit = false, long_match = false;
  size_t pos = 0;
  for (auto &s : c.segs) {
    if (s.kind == 0 && s.len > 60) long_lit = true;
    if ((s.kind == 1 || s.kind == 2 || (s.kind == 3 && s.a <= pos && s.a > 0)) && s.len >= 68) long_match = true;
    if (s.kind == 3 && s.a > 0 && s.a <= pos && pos + s.len > 65536 && pos >= 65536 - s.len) far_ref = true;
    pos += s.len;
  }
  if (n > 65536) vd.label(">64KiB");
  if (n == 0) vd.label("empty");
  if (long_lit) vd.label("literal>60");
  if (long_match) vd.label("match>=68");
  if (far_ref && n > 65536) vd.label("backref_across_64KiB");
  vd.nontrivial = long_lit || long_match || (far_ref && n > 65536);
  size_t bound = boundOf(c.codec, n);
  Exact src(x);
  size_t written = (size_t)-1;
  {
    Exact dst(bound);
    int s = compress(c.codec, c.level, src.p, n, dst.p, bound, &written);
    PBT_CHECK(vd, s == CARQUET_OK, "%s: compressing %zu bytes into the advertised bound %zu fails with %d", cname[c.codec], n, bound, s);
    PBT_CHECK(vd, written <= bound, "%s: reported %zu bytes written, bound %zu", cname[c.codec], written, bound);
    Exact comp(dst.p, written);
    Exact out(n);
    size_t got = (size_t)-1;
    s = decompress(c.codec, comp.p, written, out.p, n, &got);
    PBT_CHECK(vd, s == CARQUET_OK, "%s: decompressing own output (%zu -> %zu bytes) into exactly len(x) fails with %d", cname[c.codec], written, n, s);
    PBT_CHECK(vd, got == n, "%s: decompressed length %zu, input length %zu", cname[c.codec], got, n);
    PBT_CHECK(vd, memcmp(out.p, x.data(), n) == 0, "%s: round trip differs (n=%zu)", cname[c.codec], n);
  }
  // destinations smaller than the bound: refused, or handled without overflow and still a round trip
  size_t caps[] = {0, 1, written ? written - 1 : 0, written, bound ? bound - 1 : 0, written + 1};
  for (size_t cap : caps) {
    if (cap >= bound) continue;
    Exact dst(cap);
    size_t w2 = (size_t)-1;
    int s = compress(c.codec, c.level, src.p, n, dst.p, cap, &w2);
    if (s != CARQUET_OK) { vd.label("small_dst_refused"); continue; }
    vd.label("small_dst_accepted");
    PBT_CHECK(vd, w2 <= cap, "%s: capacity %zu but %zu bytes reported written", cname[c.codec], cap, w2);
    Exact comp(dst.p, w2), out(n);
    size_t got = (size_t)-1;
    s = decompress(c.codec, comp.p, w2, out.p, n, &got);
    PBT_CHECK(vd, s == CARQUET_OK && got == n && memcmp(out.p, x.data(), n) == 0, "%s: output accepted at capacity %zu does not round-trip (status %d)", cname[c.codec], cap, s);
  }
  // "for every byte string": the calls above, refused or not, must not change what the next call does - the same input into
  // the advertised bound once more (codec state kept between calls shows here, inside the case that caused it)
  {
    Exact dst(bound), out(n);
    size_t w3 = (size_t)-1, got = (size_t)-1;
    int s = compress(c.codec, c.level, src.p, n, dst.p, bound, &w3);
    PBT_CHECK(vd, s == CARQUET_OK && w3 <= bound, "%s: after calls with smaller destinations, compressing the same %zu bytes into the bound fails (status %d, %zu written)", cname[c.codec], n, s, w3);
    Exact comp(dst.p, w3);
    s = decompress(c.codec, comp.p, w3, out.p, n, &got);
    PBT_CHECK(vd, s == CARQUET_OK && got == n && memcmp(out.p, x.data(), n) == 0, "%s: after calls with smaller destinations, the output for the same input no longer round-trips (status %d)", cname[c.codec], s);
  }
  return vd;
}

// The page writer is the caller that sizes compression buffers from the advertised bounds: a column of incompressible values
// written in batches of varying size gives pages of varying size (each a little larger or smaller than the ones before)
// for every codec; under ASan any page that is compressed into a block smaller than its bound is a report.  The file must
// also decode to what was written (independent reader).
static rc::Gen<cw::W> genPagesW() {
  return rc::gen::exec([]() {
    cw::W w;
    w.fs.root.name = "schema"; w.fs.root.group = true;
    int type = *rc::gen::element<int>(pq::INT64, pq::INT32, pq::BYTE_ARRAY);
    w.fs.root.kids.push_back(gf::leafNode("c0", *irange(0, 1), type, 0));
    auto lv = pw::leaves(w.fs.root);
    w.codec = *rc::gen::element(1, 2, 5, 6, 5, 6); w.page_size = *rc::gen::element<int64_t>(512, 1024, 4096, 8192, 8192, 16384); w.order = (uint32_t)*irange(1, 1 << 30); w.level = *rc::gen::element(0, 1, 9);
    size_t per_page = (size_t)w.page_size / (type == pq::INT32 ? 4 : 8);
    size_t rows = per_page * (size_t)*irange(2, 6) + (size_t)*irange(0, 50);
    w.fs.rg_rows.push_back((int64_t)rows);
    pw::ChunkSpec cs; cs.n = rows;
    if (lv[0].max_def) cs.def.assign(rows, 1);
    uint64_t s = (uint64_t)*irange(1, 1 << 30) * 0x9E3779B97F4A7C15ull | 1;
    for (size_t i = 0; i < rows; i++) { Bytes v; size_t len = type == pq::INT32 ? 4 : type == pq::INT64 ? 8 : 4 + (size_t)(gf::dxs(s) % 9); for (size_t k = 0; k < len; k++) v.push_back((uint8_t)(gf::dxs(s) >> 24)); cs.values.push_back(v); }
    pw::PageSpec pg; pg.end = rows; cs.pages.push_back(pg);
    // batches: mostly about one page worth of rows, +- a few, so that successive pages differ slightly in size
    std::vector<int> part; size_t left = rows;
    while (left) { size_t k = std::min<size_t>(left, (size_t)std::max<long>(1, (long)per_page + *irange(-6, 40))); part.push_back((int)k); left -= k; }
    w.fs.row_groups.push_back({cs}); w.parts.push_back({part}); w.nolevels.push_back({0}); w.extra_nrg.push_back(0);
    return w;
  });
}
static Verdict runPagesW(const cw::W &w) {
  Verdict vd;
  auto lv = pw::leaves(w.fs.root);
  Bytes bytes; std::string err; bool refused = false;
  if (!cw::writeWith(w, lv, bytes, err, refused)) { if (refused) { vd.vacuous = true; vd.label("writer_refused"); return vd; } return Verdict::fail("harness: " + err); }
  prd::FileOut fo; prd::Strict st; st.check_total_uncompressed = false; st.check_rg_total_byte_size = false;
  bool ok = prd::read_file(bytes, fo, err, st);
  PBT_CHECK(vd, ok, "file with incompressible pages (codec %d, page size %lld) is not readable by the independent reader: %s", w.codec, (long long)w.page_size, err.c_str());
  PBT_CHECK(vd, fo.chunks.size() == 1 && fo.chunks[0].size() == 1 && fo.chunks[0][0].values == w.fs.row_groups[0][0].values, "values read back from incompressible pages differ (codec %d)", w.codec);
  vd.nontrivial = fo.chunks[0][0].pages.size() >= 2; vd.label("codec=" + std::to_string(w.codec));
  return vd;
}

int main(int argc, char **argv) {
  if (getenv("VERIF_TIER") && std::string(getenv("VERIF_TIER")) == "thorough") g_big = 4000000;
  add<cw::W>("writer_pages", 0.25, genPagesW, cw::ser, cw::de, runPagesW);
  add<C>("codec_roundtrip", 1, genC, ser, de, runC);
  return main_(argc, argv);
}
