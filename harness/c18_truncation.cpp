// C18: truncated files are rejected and failed writes are never reported OK.
//  prefixes : every proper prefix of a written file (every cut position for small files) is rejected by all three
//             open paths unless the prefix is itself a complete Parquet file (independent reader says so).
//  sink     : FILE* from fopencookie whose write fails once a byte budget is used up (every budget 0..len for small
//             files; unbuffered / line-buffered / fully buffered): with budget < len some writer call - at the latest
//             close - must be non-OK; with budget >= len all calls are OK and the sink holds the fault-free bytes.
//  stdio    : path-based writer, the n-th fwrite / fflush / fclose issued by carquet fails (link-time --wrap), every n.
//  abort    : carquet_writer_abort after every prefix of the call script: no file left, no leak, no descriptor left open.
#include "harness/common/pbt.hpp"
#include "harness/common/cwriter.hpp"
#include "ref/parquet_reader.hpp"
#include <dirent.h>
#include <errno.h>
#include <fcntl.h>
#include <pthread.h>
#include <sched.h>
#include <signal.h>
#include <sys/time.h>

extern "C" int __lsan_do_recoverable_leak_check(void) __attribute__((weak));

using namespace pbt;

// ---------------------------------------------------------------- stdio fault injection (link-time wrap)
static long g_io_calls = 0, g_io_fail_at = -1, g_io_fail_from = -1;   // fail_from >= 0: every stream call from that index on fails (a sink that stays broken)
static bool failNow(long me) { return me == g_io_fail_at || (g_io_fail_from >= 0 && me >= g_io_fail_from); }
// g_io_calls counts fwrite/fflush/fclose calls made by carquet while armed
static bool g_io_armed = false, g_io_hit = false;
extern "C" {
size_t __real_fwrite(const void *, size_t, size_t, FILE *);
int __real_fflush(FILE *);
int __real_fclose(FILE *);
size_t __wrap_fwrite(const void *p, size_t sz, size_t n, FILE *f) {
  if (g_io_armed) { long me = g_io_calls++; if (failNow(me)) { g_io_hit = true; errno = ENOSPC; return 0; } }
  return __real_fwrite(p, sz, n, f);
}
int __wrap_fflush(FILE *f) {
  if (g_io_armed) { long me = g_io_calls++; if (failNow(me)) { g_io_hit = true; errno = ENOSPC; return EOF; } }
  return __real_fflush(f);
}
int __wrap_fclose(FILE *f) {
  if (g_io_armed) { long me = g_io_calls++; if (failNow(me)) { g_io_hit = true; __real_fclose(f); errno = ENOSPC; return EOF; } }
  return __real_fclose(f);
}
}

static rc::Gen<cw::W> smallW() {
  return rc::gen::exec([]() {
    cw::W w;
    gf::Opts o; o.int96 = false; o.max_cols = 3; o.types = {pq::BOOLEAN, pq::INT32, pq::INT64, pq::DOUBLE, pq::BYTE_ARRAY, pq::FIXED_LEN_BYTE_ARRAY};
    w.fs.root = gf::genSchema(o);
    for (size_t i = 0; i < w.fs.root.kids.size(); i++) w.fs.root.kids[i].name = "c" + std::to_string(i);
    auto lv = pw::leaves(w.fs.root);
    w.codec = *rc::gen::element(0, 0, 1, 2, 5, 6); w.page_size = *rc::gen::element<int64_t>(64, 256, 1 << 20); w.order = (uint32_t)*irange(1, 1 << 30); w.opts = *rc::gen::weightedOneOf<int>({{3, rc::gen::just(0)}, {2, irange(0, 15)}}); w.level = *rc::gen::element(0, 0, 1, 9, 19);
    int nrg = *rc::gen::weightedOneOf<int>({{1, rc::gen::just(0)}, {4, rc::gen::just(1)}, {2, rc::gen::just(2)}});
    for (int g = 0; g < nrg; g++) {
      size_t rows = (size_t)*rc::gen::weightedOneOf<int>({{6, irange(1, 12)}, {1, irange(200, 900)}});
      w.fs.rg_rows.push_back((int64_t)rows);
      std::vector<pw::ChunkSpec> rg; std::vector<std::vector<int>> pc; std::vector<int> nl;
      for (auto &lf : lv) {
        pw::ChunkSpec cs; cs.n = rows;
        int nolevm = lf.max_def ? *rc::gen::element(0, 0, 0, 1, 2) : 0;   // OPTIONAL column written without a levels array (always / when a batch has no null)
        if (lf.max_def) { auto p = nolevm == 1 ? std::vector<uint8_t>(rows, 1) : *gf::presentGen(rows); for (auto x : p) cs.def.push_back(x); }
        size_t nn = 0; for (size_t i = 0; i < rows; i++) if (!lf.max_def || cs.def[i]) nn++;
        Bytes proto = *gf::valueGen(lf.type, lf.type_length);
        if (lf.type == pq::BYTE_ARRAY && proto.size() > 16) proto.resize(16);
        for (size_t i = 0; i < nn; i++) { Bytes v = proto; if (!v.empty()) { v[0] = (uint8_t)(v[0] + i); if (lf.type == pq::BOOLEAN) v[0] &= 1; } cs.values.push_back(v); }
        pw::PageSpec pg; pg.end = rows; cs.pages.push_back(pg);
        rg.push_back(cs); nl.push_back(nolevm);
        std::vector<int> part; size_t left = rows; while (left) { size_t k = (size_t)*irange(1, (int)std::min<size_t>(left, 300)); part.push_back((int)k); left -= k; }
        pc.push_back(part);
      }
      w.fs.row_groups.push_back(rg); w.parts.push_back(pc); w.nolevels.push_back(nl); w.extra_nrg.push_back(0);
    }
    return w;
  });
}
struct K { cw::W w; uint32_t seed = 1; };
static CaseText serK(const K &k) { CaseText t = cw::ser(k.w); t.put_u("kseed", k.seed); return t; }
static K deK(const CaseText &t) { K k; k.w = cw::de(t); k.seed = (uint32_t)t.get_u("kseed"); return k; }
static rc::Gen<K> genK() { return rc::gen::map(rc::gen::pair(smallW(), irange(1, 1 << 30)), [](const std::pair<cw::W, int> &p) { K k; k.w = p.first; k.seed = (uint32_t)p.second; return k; }); }

static bool faultFree(const cw::W &w, Bytes &bytes) { auto lv = pw::leaves(w.fs.root); std::string err; bool refused = false; return cw::writeWith(w, lv, bytes, err, refused); }

// ------------------------------------------------------------------ prefixes
static Verdict runPrefixes(const K &k) {
  Verdict vd;
  Bytes bytes;
  if (!faultFree(k.w, bytes)) { vd.vacuous = true; vd.label("writer_refused"); return vd; }
  size_t len = bytes.size();
  std::vector<size_t> cuts;
  if (len <= 4096) for (size_t i = 0; i < len; i++) cuts.push_back(i);
  else {
    for (size_t i = len - 256; i < len; i++) cuts.push_back(i);
    for (size_t i = 0; i < 64; i++) cuts.push_back(i);
    prd::FileOut fo; std::string e; prd::Strict st; st.check_total_uncompressed = false; st.check_rg_total_byte_size = false;
    if (prd::read_file(bytes, fo, e, st)) { for (auto &rg : fo.chunks) for (auto &c : rg) for (auto &pg : c.pages) for (long dlt = -2; dlt <= 2; dlt++) { long a = (long)pg.header_off + dlt, b = (long)pg.body_off + dlt; if (a >= 0 && (size_t)a < len) cuts.push_back((size_t)a); if (b >= 0 && (size_t)b < len) cuts.push_back((size_t)b); }
      for (long dlt = -3; dlt <= 3; dlt++) { long a = (long)fo.footer_off + dlt; if (a >= 0 && (size_t)a < len) cuts.push_back((size_t)a); } }
    uint64_t s = 0x9E3779B97F4A7C15ull ^ ((uint64_t)k.seed << 1 | 1);
    for (int i = 0; i < 300; i++) cuts.push_back(gf::dxs(s) % len);
  }
  long evals = 0; bool nt = false;
  size_t footer_region = len >= 8 ? len - 8 : 0;
  for (size_t cut : cuts) {
    Bytes pre(bytes.begin(), bytes.begin() + cut);
    // is the prefix itself a complete Parquet file?  (expected never)
    prd::FileOut fo; std::string e; prd::Strict st; st.check_total_uncompressed = false; st.check_rg_total_byte_size = false; st.require_tiling = false;
    bool complete = prd::read_file(pre, fo, e, st);
    if (complete) { vd.label("prefix_is_itself_a_complete_file"); continue; }
    if (cut >= footer_region || (cut > 4 && cut + 200 > len)) nt = true;
    for (int mode = 0; mode < 3; mode++) {
      evals++;
      rd::Opened op(pre, mode);
      if (op.r) { PBT_CHECK(vd, false, "prefix of %zu of %zu bytes is opened as a valid table by the %s path (num_rows %lld, %d row groups)", cut, len, rd::modeName(mode), (long long)carquet_reader_num_rows(op.r), carquet_reader_num_row_groups(op.r)); }
      PBT_CHECK(vd, op.err.code != CARQUET_OK, "prefix of %zu bytes rejected by the %s path without an error code", cut, rd::modeName(mode));
    }
  }
  vd.evals = std::max<long>(1, evals); vd.nontrivial = nt && len > 12;
  if (len <= 4096) vd.label("every_cut_position");
  return vd;
}

// ---------------------------------------------------------------------- sink
struct Sink { Bytes data; size_t budget; bool failed = false; int mode = 0; long calls = 0, fail_call = -1; };   // mode 0: fail with -1/0; 1: short write then fail; 2: transient - only write call `fail_call` fails (short), later calls succeed again
static ssize_t sink_write(void *c, const char *buf, size_t n) {
  Sink *s = (Sink *)c;
  if (s->mode == 2) {
    long me = s->calls++;
    if (me == s->fail_call) { s->failed = true; size_t part = n / 2; s->data.insert(s->data.end(), buf, buf + part); if (part == 0) errno = EIO; return (ssize_t)part; }   // short write ...
    if (me == s->fail_call + 1 && s->failed) { errno = EIO; return 0; }   // ... and the retry of the remainder fails; everything later succeeds again
    s->data.insert(s->data.end(), buf, buf + n); return (ssize_t)n;
  }
  size_t room = s->budget > s->data.size() ? s->budget - s->data.size() : 0;
  if (n <= room) { s->data.insert(s->data.end(), buf, buf + n); return (ssize_t)n; }
  s->failed = true;
  if (s->mode == 1 && room > 0) { s->data.insert(s->data.end(), buf, buf + room); return (ssize_t)room; }   // short write: stdio retries and then sees the failure
  errno = ENOSPC;
  return 0;
}
static Verdict runSink(const K &k) {
  Verdict vd;
  Bytes good;
  if (!faultFree(k.w, good)) { vd.vacuous = true; vd.label("writer_refused"); return vd; }
  auto lv = pw::leaves(k.w.fs.root);
  size_t len = good.size();
  std::vector<size_t> budgets;
  if (len <= 1500) for (size_t b = 0; b <= len + 1; b++) budgets.push_back(b);
  else { uint64_t s = 0x9E3779B97F4A7C15ull ^ ((uint64_t)k.seed << 1 | 1); for (size_t b : {(size_t)0, (size_t)1, (size_t)3, (size_t)4, (size_t)5, len - 9, len - 8, len - 5, len - 4, len - 1, len, len + 1, len > 4096 ? len - 4096 : 0, len > 4097 ? len - 4097 : 0}) budgets.push_back(b); for (int i = 0; i < 120; i++) budgets.push_back(gf::dxs(s) % len); }
  long evals = 0; bool nt = false;
  for (size_t b : budgets)
    for (int buf = 0; buf < 3; buf++) {
      if (len > 1500 && buf != (int)(b % 3)) continue;
      evals++;
      Sink sk; sk.budget = b; sk.mode = (int)((b + (size_t)buf) % 2);
      cookie_io_functions_t io = {nullptr, sink_write, nullptr, nullptr};
      FILE *fp = fopencookie(&sk, "wb", io);
      PBT_CHECK(vd, fp != nullptr, "fopencookie failed");
      if (buf == 0) setvbuf(fp, nullptr, _IONBF, 0); else if (buf == 1) setvbuf(fp, nullptr, _IOLBF, 256);
      cw::WriteCtl ctl; ctl.sink = fp;
      cw::runHistory(k.w, lv, ctl);
      fclose(fp);   // caller's stream: closing it flushes whatever carquet left buffered
      if (b < len) {
        if (len - b <= 4096 && buf == 2) nt = true;   // failure absorbed by stdio buffering until the very end
        PBT_CHECK(vd, ctl.any_nonok, "sink accepts only %zu of %zu bytes (%s), yet every writer call including carquet_writer_close returned OK", b, len, buf == 0 ? "unbuffered" : buf == 1 ? "line buffered" : "fully buffered");
      } else {
        PBT_CHECK(vd, !ctl.any_nonok, "sink has room for all %zu bytes but a writer call failed: %s", len, ctl.first_failure.c_str());
        PBT_CHECK(vd, sk.data == good, "sink received %zu bytes that differ from the fault-free file of %zu bytes", sk.data.size(), len);
      }
    }
  // a transient failure: exactly one write call of the sink comes up short, the sink works again afterwards.  Either some
  // writer call reports it, or everything did reach the sink after all ("OK from close implies all bytes reached the sink")
  for (int buf = 0; buf < 3; buf++) {
    long ncalls = 0;
    { Sink sk; sk.budget = 0; sk.mode = 2; cookie_io_functions_t io = {nullptr, sink_write, nullptr, nullptr}; FILE *fp = fopencookie(&sk, "wb", io); if (!fp) break;
      if (buf == 0) setvbuf(fp, nullptr, _IONBF, 0); else if (buf == 1) setvbuf(fp, nullptr, _IOLBF, 256);
      cw::WriteCtl ctl; ctl.sink = fp; cw::runHistory(k.w, lv, ctl); fclose(fp); ncalls = sk.calls; }
    long step = ncalls > 40 ? ncalls / 40 : 1;
    for (long fc = 0; fc < ncalls; fc += step) {
      evals++;
      Sink sk; sk.budget = 0; sk.mode = 2; sk.fail_call = fc;
      cookie_io_functions_t io = {nullptr, sink_write, nullptr, nullptr};
      FILE *fp = fopencookie(&sk, "wb", io);
      PBT_CHECK(vd, fp != nullptr, "fopencookie failed");
      if (buf == 0) setvbuf(fp, nullptr, _IONBF, 0); else if (buf == 1) setvbuf(fp, nullptr, _IOLBF, 256);
      cw::WriteCtl ctl; ctl.sink = fp;
      cw::runHistory(k.w, lv, ctl);
      fclose(fp);
      if (!sk.failed) continue;
      PBT_CHECK(vd, ctl.any_nonok || sk.data == good, "write call %ld of %ld of the sink came up short once (%s); every writer call including carquet_writer_close returned OK, but the sink holds %zu bytes that differ from the %zu-byte file", fc, ncalls, buf == 0 ? "unbuffered" : buf == 1 ? "line buffered" : "fully buffered", sk.data.size(), len);
    }
  }
  vd.evals = std::max<long>(1, evals); vd.nontrivial = nt;
  if (len <= 1500) vd.label("every_byte_budget");
  return vd;
}

// --------------------------------------------------------------------- stdio
static Verdict runStdio(const K &k) {
  Verdict vd;
  auto lv = pw::leaves(k.w.fs.root);
  // counting run
  g_io_calls = 0; g_io_fail_at = -1; g_io_hit = false; g_io_armed = true;
  cw::WriteCtl c0; cw::runHistory(k.w, lv, c0);
  g_io_armed = false;
  long total = g_io_calls;
  if (!c0.path.empty()) unlink(c0.path.c_str());
  if (c0.any_nonok) { vd.vacuous = true; vd.label("writer_refused"); return vd; }
  long evals = 0;
  for (long n = 0; n < total; n++) {
    evals++;
    g_io_calls = 0; g_io_fail_at = n; g_io_hit = false; g_io_armed = true;
    cw::WriteCtl ctl; cw::runHistory(k.w, lv, ctl);
    g_io_armed = false;
    if (!ctl.path.empty()) unlink(ctl.path.c_str());
    if (!g_io_hit) continue;
    PBT_CHECK(vd, ctl.any_nonok, "stream operation %ld of %ld (fwrite/fflush/fclose issued by the writer) failed, yet every writer call including close returned OK", n, total);
  }
  vd.evals = std::max<long>(1, evals); vd.nontrivial = total >= 4;
  return vd;
}

// --------------------------------------------------------------------- abort
extern "C" size_t __sanitizer_get_current_allocated_bytes() __attribute__((weak));
static int openFds() { int n = 0; DIR *d = opendir("/proc/self/fd"); if (!d) return -1; while (readdir(d)) n++; closedir(d); return n; }
static Verdict runAbort(const K &k) {
  Verdict vd;
  auto lv = pw::leaves(k.w.fs.root);
  cw::WriteCtl c0; cw::runHistory(k.w, lv, c0);
  if (!c0.path.empty()) unlink(c0.path.c_str());
  long total = c0.calls;
  long evals = 0;
  for (long n = 0; n <= total; n++) {
    evals++;
    int fds0 = openFds();
    struct stat sb;
    // "releases all resources": the number of live heap bytes after the abort equals the number before the writer was created
    // (exact, unlike a conservative leak scan that a stale pointer on the stack can blind)
    bool aborted_or_uncreated = false, exists = false; char pathbuf[300] = {0};
    size_t heap0 = __sanitizer_get_current_allocated_bytes ? __sanitizer_get_current_allocated_bytes() : 0;
    {
      cw::WriteCtl ctl; ctl.abort_after = n;
      cw::runHistory(k.w, lv, ctl);
      aborted_or_uncreated = ctl.aborted || !ctl.created;
      exists = !ctl.path.empty() && stat(ctl.path.c_str(), &sb) == 0;
      if (exists) unlink(ctl.path.c_str());
      snprintf(pathbuf, sizeof pathbuf, "%s", ctl.path.c_str());
    }
    size_t heap1 = __sanitizer_get_current_allocated_bytes ? __sanitizer_get_current_allocated_bytes() : 0;
    PBT_CHECK(vd, aborted_or_uncreated, "history of %ld calls was not aborted at %ld", total, n);
    PBT_CHECK(vd, !exists, "carquet_writer_abort after %ld of %ld calls leaves the file %s behind", n, total, pathbuf);
    PBT_CHECK(vd, heap1 <= heap0, "carquet_writer_abort after %ld of %ld calls leaves %zu heap bytes allocated", n, total, heap1 - heap0);
    int fds1 = openFds();
    PBT_CHECK(vd, fds0 == fds1, "carquet_writer_abort after %ld calls: %d descriptors open before create, %d after abort", n, fds0, fds1);
    // the same abort while the sink is broken: every stream operation issued by the abort itself fails
    {
      evals++;
      bool ex2 = false;
      size_t h0 = __sanitizer_get_current_allocated_bytes ? __sanitizer_get_current_allocated_bytes() : 0;
      {
        cw::WriteCtl c2; c2.abort_after = n;
        g_io_calls = 0; g_io_fail_at = -1; g_io_fail_from = -1; g_io_hit = false; g_io_armed = true;
        c2.before_abort = []() { g_io_fail_from = g_io_calls; };
        cw::runHistory(k.w, lv, c2);
        g_io_armed = false; g_io_fail_from = -1;
        ex2 = !c2.path.empty() && stat(c2.path.c_str(), &sb) == 0;
        if (ex2) unlink(c2.path.c_str());
        snprintf(pathbuf, sizeof pathbuf, "%s", c2.path.c_str());
      }
      size_t h1 = __sanitizer_get_current_allocated_bytes ? __sanitizer_get_current_allocated_bytes() : 0;
      PBT_CHECK(vd, !ex2, "carquet_writer_abort after %ld of %ld calls on a sink whose flush/close fails leaves the file %s behind", n, total, pathbuf);
      PBT_CHECK(vd, h1 <= h0, "carquet_writer_abort on a failing sink after %ld of %ld calls leaves %zu heap bytes allocated", n, total, h1 - h0);
      int fds2 = openFds();
      PBT_CHECK(vd, fds0 == fds2, "carquet_writer_abort on a failing sink after %ld calls: %d descriptors open before create, %d after abort", n, fds0, fds2);
    }
  }
  vd.evals = std::max<long>(1, evals); vd.nontrivial = total >= 2;
  return vd;
}

// ---------------------------------------------------------------------- pipe
// A sink with a real descriptor (fileno works): the write end of a pipe drained by a consumer thread - blocking or
// non-blocking, the pipe shrunk to one page or left at 64 KiB, the writing thread interrupted by a periodic signal whose
// handler is installed without SA_RESTART (write(2) then transfers part of a block).  Such a sink never loses bytes it
// accepted; a writer call may fail (EAGAIN, EINTR) - but if every call including close returns OK, the consumer must hold
// exactly the fault-free file.
static rc::Gen<cw::W> bulkW() {
  return rc::gen::exec([]() {
    cw::W w;
    w.fs.root.name = "schema"; w.fs.root.group = true;
    int ncols = *irange(1, 2);
    for (int i = 0; i < ncols; i++) w.fs.root.kids.push_back(gf::leafNode("c" + std::to_string(i), *irange(0, 1), *rc::gen::element<int>(pq::INT64, pq::DOUBLE, pq::INT32), 0));
    auto lv = pw::leaves(w.fs.root);
    w.codec = *rc::gen::element(0, 0, 0, 1, 5, 6); w.page_size = *rc::gen::element<int64_t>(4096, 1 << 20); w.order = (uint32_t)*irange(1, 1 << 30); w.opts = *rc::gen::element(0, 0, 1, 2); w.level = 0;
    size_t rows = (size_t)*irange(34000, 90000);
    w.fs.rg_rows.push_back((int64_t)rows);
    uint64_t sd = 0x9E3779B97F4A7C15ull ^ ((uint64_t)*irange(1, 1 << 30) << 1 | 1);
    std::vector<pw::ChunkSpec> rg; std::vector<std::vector<int>> pc; std::vector<int> nl;
    for (auto &lf : lv) {
      pw::ChunkSpec cs; cs.n = rows;
      if (lf.max_def) for (size_t i = 0; i < rows; i++) cs.def.push_back((gf::dxs(sd) >> 20) % 16 != 0);
      size_t nn = 0; for (size_t i = 0; i < rows; i++) if (!lf.max_def || cs.def[i]) nn++;
      size_t fw = lf.type == pq::INT32 ? 4 : 8;
      for (size_t i = 0; i < nn; i++) { Bytes v(fw); for (auto &x : v) x = (uint8_t)(gf::dxs(sd) >> 24); cs.values.push_back(v); }
      pw::PageSpec pg; pg.end = rows; cs.pages.push_back(pg);
      rg.push_back(cs); nl.push_back(0);
      std::vector<int> part; size_t left = rows; while (left) { size_t k = (size_t)*irange(1, (int)std::min<size_t>(left, 40000)); part.push_back((int)k); left -= k; }
      pc.push_back(part);
    }
    w.fs.row_groups.push_back(rg); w.parts.push_back(pc); w.nolevels.push_back(nl); w.extra_nrg.push_back(0);
    return w;
  });
}
static rc::Gen<K> genKPipe() {
  return rc::gen::map(rc::gen::pair(rc::gen::weightedOneOf<cw::W>({{2, smallW()}, {1, bulkW()}}), irange(1, 1 << 30)), [](const std::pair<cw::W, int> &p) { K k; k.w = p.first; k.seed = (uint32_t)p.second; return k; });
}
struct Drain { int fd = -1; Bytes data; size_t chunk = 4096; int pause = 0; };
static void *drainThread(void *p) {
  Drain *d = (Drain *)p;
  std::vector<uint8_t> buf(d->chunk);
  for (;;) {
    ssize_t n = read(d->fd, buf.data(), buf.size());
    if (n > 0) { d->data.insert(d->data.end(), buf.begin(), buf.begin() + n); for (int i = 0; i < d->pause; i++) sched_yield(); }
    else if (n == 0) break;
    else if (errno == EINTR || errno == EAGAIN) continue;
    else break;
  }
  return nullptr;
}
static void onAlarm(int) {}
static Verdict runPipe(const K &k) {
  Verdict vd;
  Bytes good;
  if (!faultFree(k.w, good)) { vd.vacuous = true; vd.label("writer_refused"); return vd; }
  auto lv = pw::leaves(k.w.fs.root);
  long evals = 0, all_ok = 0;
  for (int v = 0; v < 8; v++) {
    bool nonblock = v & 1, signals = v & 2, tiny = v & 4;
    int fds[2];
    PBT_CHECK(vd, pipe(fds) == 0, "pipe() failed");
    if (tiny) fcntl(fds[1], F_SETPIPE_SZ, 4096);
    if (nonblock) fcntl(fds[1], F_SETFL, fcntl(fds[1], F_GETFL) | O_NONBLOCK);
    Drain d; d.fd = fds[0]; d.chunk = 1 + (size_t)((k.seed >> (v & 3)) % 9000); d.pause = (int)((k.seed >> 8) % 4);
    sigset_t blk, old; sigemptyset(&blk); sigaddset(&blk, SIGALRM); pthread_sigmask(SIG_BLOCK, &blk, &old);   // the consumer inherits the mask: the signal goes to the writing thread
    pthread_t th; pthread_create(&th, nullptr, drainThread, &d);
    pthread_sigmask(SIG_SETMASK, &old, nullptr);
    FILE *fp = fdopen(fds[1], "wb");
    PBT_CHECK(vd, fp != nullptr, "fdopen failed");
    int buf = (int)((k.seed >> 12) % 3);
    if (buf == 0) setvbuf(fp, nullptr, _IONBF, 0); else if (buf == 1) setvbuf(fp, nullptr, _IOFBF, 512);
    struct sigaction sa, osa; memset(&sa, 0, sizeof sa); sa.sa_handler = onAlarm; sigemptyset(&sa.sa_mask); sa.sa_flags = 0;
    struct itimerval it, zero; memset(&zero, 0, sizeof zero);
    if (signals) { sigaction(SIGALRM, &sa, &osa); it.it_interval.tv_sec = 0; it.it_interval.tv_usec = 150 + (k.seed % 400); it.it_value = it.it_interval; setitimer(ITIMER_REAL, &it, nullptr); }
    cw::WriteCtl ctl; ctl.sink = fp;
    cw::runHistory(k.w, lv, ctl);
    if (signals) { setitimer(ITIMER_REAL, &zero, nullptr); sigaction(SIGALRM, &osa, nullptr); }
    if (nonblock) fcntl(fds[1], F_SETFL, fcntl(fds[1], F_GETFL) & ~O_NONBLOCK);   // the caller's own final flush may wait
    int frc = fclose(fp);
    pthread_join(th, nullptr);
    close(fds[0]);
    evals++;
    if (ctl.any_nonok || frc != 0) { vd.label("pipe_writer_reported_failure"); continue; }
    all_ok++;
    PBT_CHECK(vd, d.data == good, "pipe sink (%s%s%s): every writer call including carquet_writer_close returned OK, but the consumer received %zu bytes that differ from the fault-free file of %zu bytes", nonblock ? "non-blocking" : "blocking", signals ? ", writes interrupted by signals" : "", tiny ? ", 4 KiB pipe" : "", d.data.size(), good.size());
  }
  vd.evals = std::max<long>(1, evals); vd.nontrivial = all_ok >= 2 && good.size() > 65536;
  if (good.size() >= (256u << 10)) vd.label("pipe_file>=256KiB");
  if (all_ok) vd.label("pipe_all_calls_ok");
  return vd;
}

int main(int argc, char **argv) {
  add<K>("pipe", 0.6, genKPipe, serK, deK, runPipe);
  add<K>("prefixes", 1, genK, serK, deK, runPrefixes);
  add<K>("sink", 1, genK, serK, deK, runSink);
  add<K>("stdio", 1, genK, serK, deK, runStdio);
  add<K>("abort", 1, genK, serK, deK, runAbort);
  return main_(argc, argv);
}
