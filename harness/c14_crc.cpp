// C14: page checksums are IEEE CRC-32 and page damage is always detected.
//  crc_fn : carquet_crc32 / carquet_crc32_update vs zlib crc32, every length 0..300 x alignment 0..15, random
//           buffers up to 1 MiB, multi-way splits.
//  damage : files written by carquet (and, for dictionary pages, by the reference writer with CRCs): for every
//           bit of every page body (small bodies: exhaustive), every byte XOR {01,80,FF} and generated bursts
//           <= 32 bits, in all three I/O modes with verify_checksums = true, reading the chunk must report an
//           error and may deliver only rows stored before the damaged page.  The undamaged file reads cleanly.
//           With verification disabled the same damaged copies are read under ASan (memory safety only).
#include "harness/common/pbt.hpp"
#include "harness/common/cwriter.hpp"
#include "gen/bytes.hpp"
#include "ref/parquet_reader.hpp"
#include <zlib.h>
#include <pthread.h>
#include <sched.h>
#include <sys/wait.h>
#include <fstream>
#include <sstream>

using namespace pbt;

// ------------------------------------------------------------------ crc_fn
struct F { std::vector<gen::Seg> segs; int mis = 0; std::vector<uint32_t> cuts; };
static CaseText serF(const F &f) { CaseText t; gen::putSegs(t, f.segs); t.put_i("mis", f.mis); t.put_ints("cuts", f.cuts); return t; }
static F deF(const CaseText &t) { F f; f.segs = gen::getSegs(t); f.mis = (int)t.get_i("mis"); f.cuts = t.get_ints<uint32_t>("cuts"); return f; }
static rc::Gen<F> genF() {
  return rc::gen::map(rc::gen::tuple(gen::segsGen(200000), irange(0, 15), rc::gen::container<std::vector<uint32_t>>(rc::gen::map(irange(0, 1 << 20), [](int v) { return (uint32_t)v; }))),
                      [](const std::tuple<std::vector<gen::Seg>, int, std::vector<uint32_t>> &t) { F f; f.segs = std::get<0>(t); f.mis = std::get<1>(t); f.cuts = std::get<2>(t); if (f.cuts.size() > 6) f.cuts.resize(6); return f; });
}
static Verdict runF(const F &f) {
  Verdict vd;
  Bytes x = gen::expand(f.segs, (size_t)1 << 20);
  Exact buf(x.size() + (size_t)f.mis);
  memcpy(buf.p + f.mis, x.data(), x.size());
  const uint8_t *d = buf.p + f.mis;
  uint32_t want = (uint32_t)::crc32(::crc32(0L, Z_NULL, 0), x.data(), (uInt)x.size());
  uint32_t got = carquet_crc32(d, x.size());
  PBT_CHECK(vd, got == want, "crc32(len %zu, alignment %d) = %08x, IEEE CRC-32 (zlib) = %08x", x.size(), f.mis, got, want);
  // incremental: split at the cut points (sorted), including empty pieces
  std::vector<size_t> cuts; for (auto c : f.cuts) cuts.push_back(x.empty() ? 0 : c % (x.size() + 1));
  std::sort(cuts.begin(), cuts.end());
  cuts.push_back(x.size());
  size_t pos = 0; uint32_t acc = 0; bool first = true;
  for (size_t c : cuts) { if (first) { acc = carquet_crc32(d, c); first = false; } else acc = carquet_crc32_update(acc, d + pos, c - pos); pos = c; }
  PBT_CHECK(vd, acc == want, "update(crc(a), b, ...) over %zu pieces = %08x, crc(a||b||...) = %08x (len %zu)", cuts.size(), acc, want, x.size());
  uint32_t viaupd = carquet_crc32_update(0, d, x.size());
  PBT_CHECK(vd, viaupd == want, "crc32_update(0, x) = %08x, crc32(x) = %08x", viaupd, want);
  vd.nontrivial = x.size() >= 8 && x.size() % 8 != 0;
  if (cuts.size() > 2) vd.label("multi_way_split");
  return vd;
}
static void enumF(int level, const std::function<bool(const CaseText &)> &sink) {
  int maxlen = level >= 2 ? 1030 : 300;
  for (int len = 0; len <= maxlen; len++)
    for (int mis = 0; mis < 16; mis++) {
      F f; gen::Seg s; s.kind = 0; s.len = (uint32_t)len; s.seed = (uint32_t)(len * 16 + mis + 1); f.segs.push_back(s); f.mis = mis; f.cuts = {(uint32_t)(len / 3), (uint32_t)(len / 3), (uint32_t)(len - len / 5)};
      if (!sink(serF(f))) return;
    }
}

// ------------------------------------------------------------------ damage
struct D { int src = 0; cw::W w; pw::FileSpec fs; int batch = 3; uint32_t seed = 1; };   // src 0 = carquet writer, 1 = reference writer (dictionary pages)
static CaseText serD(const D &d) { CaseText t = d.src == 0 ? cw::ser(d.w) : CaseText(); if (d.src == 1) gf::putSpec(t, d.fs); t.put_i("src", d.src); t.put_i("rbatch", d.batch); t.put_u("dseed", d.seed); return t; }
static D deD(const CaseText &t) { D d; d.src = (int)t.get_i("src"); d.batch = (int)t.get_i("rbatch"); d.seed = (uint32_t)t.get_u("dseed"); if (d.src == 0) d.w = cw::de(t); else d.fs = gf::getSpec(t); return d; }
// the last four bytes of a page body chosen so that its CRC-32 equals `target` (CRC is affine in the message: solve the
// 32x32 system over GF(2) with zlib's crc32 as the only primitive)
static uint32_t steerLastWord(const Bytes &prefix, uint32_t target) {
  Bytes z = prefix; z.insert(z.end(), 4, 0);
  uint32_t d = (uint32_t)crc32(0, z.data(), (uInt)z.size()) ^ target;
  const uint8_t zero4[4] = {0, 0, 0, 0};
  uint32_t base = (uint32_t)crc32(0, zero4, 4);
  uint64_t row[32];   // row i: bit j = coefficient of x_j in output bit i; bit 32 = right-hand side
  uint32_t col[32];
  for (int j = 0; j < 32; j++) { uint32_t x = 1u << j; uint8_t b[4] = {(uint8_t)x, (uint8_t)(x >> 8), (uint8_t)(x >> 16), (uint8_t)(x >> 24)}; col[j] = (uint32_t)crc32(0, b, 4) ^ base; }
  for (int i = 0; i < 32; i++) { uint64_t r = 0; for (int j = 0; j < 32; j++) if (col[j] >> i & 1) r |= 1ull << j; if (d >> i & 1) r |= 1ull << 32; row[i] = r; }
  uint32_t x = 0; int piv_row[32];
  int rnk = 0;
  for (int j = 0; j < 32; j++) {
    int p = -1; for (int i = rnk; i < 32; i++) if (row[i] >> j & 1) { p = i; break; }
    if (p < 0) { piv_row[j] = -1; continue; }
    std::swap(row[rnk], row[p]);
    for (int i = 0; i < 32; i++) if (i != rnk && (row[i] >> j & 1)) row[i] ^= row[rnk];
    piv_row[j] = rnk++;
  }
  for (int j = 0; j < 32; j++) if (piv_row[j] >= 0 && (row[piv_row[j]] >> 32 & 1)) x |= 1u << j;
  return x;
}
static rc::Gen<D> genD() {
  // a page whose stored CRC is a chosen value, in particular 0 (a reader that takes 0 for "no checksum" stops verifying)
  auto steered = rc::gen::exec([]() {   // written by carquet's own writer: one REQUIRED INT32 column, uncompressed, one page = the values
    cw::W w;
    w.fs.root.name = "schema"; w.fs.root.group = true;
    w.fs.root.kids.push_back(gf::leafNode("c0", pq::REQUIRED, pq::INT32, 0));
    w.codec = 0; w.page_size = 1 << 20; w.order = 1;
    size_t rows = (size_t)*irange(2, 40);
    w.fs.rg_rows.push_back((int64_t)rows);
    pw::ChunkSpec cs; cs.n = rows;
    Bytes body;
    for (size_t i = 0; i + 1 < rows; i++) { uint32_t v = *gen::f32bits(); Bytes b = {(uint8_t)v, (uint8_t)(v >> 8), (uint8_t)(v >> 16), (uint8_t)(v >> 24)}; cs.values.push_back(b); body.insert(body.end(), b.begin(), b.end()); }
    uint32_t target = *rc::gen::element<uint32_t>(0u, 0u, 0u, 1u, 0xffffffffu);
    uint32_t x = steerLastWord(body, target);
    cs.values.push_back(Bytes{(uint8_t)x, (uint8_t)(x >> 8), (uint8_t)(x >> 16), (uint8_t)(x >> 24)});
    pw::PageSpec pg; pg.end = rows; cs.pages.push_back(pg);
    w.fs.row_groups.push_back({cs}); w.parts.push_back({{(int)rows}}); w.nolevels.push_back({0}); w.extra_nrg.push_back(0);
    return w;
  });
  auto small = rc::gen::exec([]() {   // carquet-written: small tables, several pages per chunk via a small page size
    cw::W w;
    gf::Opts o; o.int96 = false; o.max_cols = 3; o.types = {pq::BOOLEAN, pq::INT32, pq::INT64, pq::FLOAT, pq::DOUBLE, pq::BYTE_ARRAY, pq::FIXED_LEN_BYTE_ARRAY};
    w.fs.root = gf::genSchema(o);
    for (size_t i = 0; i < w.fs.root.kids.size(); i++) w.fs.root.kids[i].name = "c" + std::to_string(i);
    auto lv = pw::leaves(w.fs.root);
    w.codec = *rc::gen::element(0, 0, 1, 2, 5, 6); w.page_size = *rc::gen::element<int64_t>(64, 64, 100, 256); w.order = (uint32_t)*irange(1, 1 << 30); w.opts = *rc::gen::weightedOneOf<int>({{3, rc::gen::just(0)}, {2, irange(0, 15)}}); w.level = *rc::gen::element(0, 0, 1, 9, 19);
    int nrg = *irange(1, 2);
    for (int g = 0; g < nrg; g++) {
      size_t rows = (size_t)*rc::gen::weightedOneOf<int>({{4, irange(1, 30)}, {1, irange(31, 80)}});
      w.fs.rg_rows.push_back((int64_t)rows);
      std::vector<pw::ChunkSpec> rg; std::vector<std::vector<int>> pc; std::vector<int> nl;
      for (auto &lf : lv) {
        pw::ChunkSpec cs; cs.n = rows;
        if (lf.max_def) { auto p = *gf::presentGen(rows); for (auto x : p) cs.def.push_back(x); }
        size_t nn = 0; for (size_t i = 0; i < rows; i++) if (!lf.max_def || cs.def[i]) nn++;
        cs.values = *rc::gen::container<std::vector<Bytes>>(nn, gf::valueGen(lf.type, lf.type_length));
        if (lf.type == pq::BYTE_ARRAY) for (auto &v : cs.values) if (v.size() > 40) v.resize(40);
        // a third of the chunks repeat one to three values: compressed pages then consist of back references, whose
        // lengths and offsets are what damage turns into out-of-range copies
        if (nn > 2 && *irange(0, 2) == 0) { size_t k = (size_t)*irange(1, 3); for (size_t i = k; i < nn; i++) cs.values[i] = cs.values[i % k]; }
        pw::PageSpec pg; pg.end = rows; cs.pages.push_back(pg);
        rg.push_back(cs); nl.push_back(0);
        std::vector<int> part; size_t left = rows; while (left) { size_t k = (size_t)*irange(1, (int)std::min<size_t>(left, 8)); part.push_back((int)k); left -= k; }
        pc.push_back(part);
      }
      w.fs.row_groups.push_back(rg); w.parts.push_back(pc); w.nolevels.push_back(nl); w.extra_nrg.push_back(0);
    }
    return w;
  });
  auto refd = rc::gen::exec([]() {
    gf::Opts o; o.max_cols = 2; o.max_rows = 20; o.max_rgs = 1; o.max_pages = 4; o.thrift_extras = false; o.layouts = false; o.stats = false; o.int96 = false;
    pw::FileSpec fs = *gf::specGen(o);
    auto lvs = pw::leaves(fs.root);
    for (auto &rg : fs.row_groups) for (size_t k = 0; k < rg.size(); k++) { rg[k].crc = true; if (lvs[k].type == pq::BYTE_ARRAY) for (auto &v : rg[k].values) if (v.size() > 40) v.resize(40); }
    return fs;
  });
  return rc::gen::mapcat(irange(0, 11), [small, refd, steered](int k) -> rc::Gen<D> {
    if (k == 11) return rc::gen::map(rc::gen::tuple(steered, irange(1, 9), irange(1, 1 << 30)), [](const std::tuple<cw::W, int, int> &t) { D d; d.src = 0; d.w = std::get<0>(t); d.batch = std::get<1>(t); d.seed = (uint32_t)std::get<2>(t); return d; });
    if (k % 3 < 2) return rc::gen::map(rc::gen::tuple(small, irange(1, 9), irange(1, 1 << 30)), [](const std::tuple<cw::W, int, int> &t) { D d; d.src = 0; d.w = std::get<0>(t); d.batch = std::get<1>(t); d.seed = (uint32_t)std::get<2>(t); return d; });
    return rc::gen::map(rc::gen::tuple(refd, irange(1, 9), irange(1, 1 << 30)), [](const std::tuple<pw::FileSpec, int, int> &t) { D d; d.src = 1; d.fs = std::get<0>(t); d.batch = std::get<1>(t); d.seed = (uint32_t)std::get<2>(t); return d; });
  });
}
struct PageRef { int rg, col; bool is_dict; size_t body_off, body_len; size_t rows_before; bool first_page; int codec; };
// read chunk (rg,col) to exhaustion through the column reader; returns true if an error was reported; rows = rows delivered before it
static bool readColumnUntilError(carquet_reader_t *r, int rg, int col, int batch, int64_t &rows) {
  rows = 0;
  rd::ColInfo ci;
  if (!rd::colInfo(r, col, ci) || ci.slot == 0) return true;
  carquet_error_t e = CARQUET_ERROR_INIT;
  carquet_column_reader_t *cr = carquet_reader_get_column(r, rg, col, &e);
  if (!cr) return true;
  bool error = false;
  for (int guard = 0; guard < 100000; guard++) {
    rd::Content c; std::string err;
    int64_t n = rd::readCall(cr, ci, batch, true, 1 << 14, c, err);
    if (n < 0) { error = true; break; }
    if (n == 0) break;
    rows += n;
  }
  carquet_column_reader_free(cr);
  return error;
}
static bool readBatchesUntilError(carquet_reader_t *r, int col, int batch, std::vector<int64_t> &rg_rows_before_error, int nrg_rows_known, int &err_rg, int64_t &rows_in_err_rg, const std::vector<int64_t> &rg_rows) {
  cs::BatchCfg cfg; cfg.batch_size = batch; cfg.proj = {col};
  cs::BatchRun run = cs::runBatches(r, cfg, false);
  (void)rg_rows_before_error; (void)nrg_rows_known;
  if (!run.created) { err_rg = 0; rows_in_err_rg = 0; return true; }
  int64_t total = 0; for (auto &b : run.batches) total += b.rows;
  bool error = run.end_status != CARQUET_ERROR_END_OF_DATA;
  // locate the row group in which delivery stopped
  int64_t acc = 0; err_rg = (int)rg_rows.size(); rows_in_err_rg = 0;
  for (size_t g = 0; g < rg_rows.size(); g++) { if (total < acc + rg_rows[g]) { err_rg = (int)g; rows_in_err_rg = total - acc; break; } acc += rg_rows[g]; }
  return error;
}

static Verdict runD(const D &d) {
  Verdict vd;
  Bytes bytes; std::string err;
  std::vector<PageRef> pages; std::vector<int64_t> rg_rows;
  if (d.src == 0) {
    auto lv = pw::leaves(d.w.fs.root);
    bool refused = false;
    if (!cw::writeWith(d.w, lv, bytes, err, refused)) { vd.vacuous = true; vd.label("writer_refused"); return vd; }
    prd::FileOut fo; prd::Strict st; st.check_total_uncompressed = false; st.check_rg_total_byte_size = false;
    if (!prd::read_file(bytes, fo, err, st)) { vd.vacuous = true; vd.label("structure_invalid(reported_by_C05)"); return vd; }
    for (size_t g = 0; g < fo.chunks.size(); g++) { rg_rows.push_back(fo.meta.row_groups[g].num_rows);
      for (size_t c = 0; c < fo.chunks[g].size(); c++) { bool first = true; for (auto &pg : fo.chunks[g][c].pages) { PBT_CHECK(vd, (bool)pg.hdr.crc, "carquet wrote a page without a checksum (row group %zu, column %zu, writer options %d): damage to it cannot be detected by any reader", g, c, d.w.opts); PageRef pr{(int)g, (int)c, pg.is_dict, pg.body_off, pg.body_len, pg.first_entry, first, fo.meta.row_groups[g].columns[c].meta->codec}; pages.push_back(pr); first = false; } } }
  } else {
    pw::Written w = pw::write_file(d.fs);
    bytes = w.bytes;
    for (auto r : d.fs.rg_rows) rg_rows.push_back(r);
    // row groups with zero rows are legal for the reference writer but have no pages
    for (auto &pi : w.pages) { if (d.fs.row_groups[(size_t)pi.rg][(size_t)pi.col].n == 0) continue;   // a chunk without values is never read, so its (dictionary) page is never touched
      PageRef pr{pi.rg, pi.col, pi.is_dict, pi.body_off, pi.body_len, pi.first_row, pi.page <= 0 && !pi.is_dict, d.fs.row_groups[(size_t)pi.rg][(size_t)pi.col].codec}; pages.push_back(pr); }
  }
  if (pages.empty()) { vd.vacuous = true; return vd; }
  // the undamaged file never reports an error
  for (int mode = 0; mode < 3; mode++) {
    rd::Opened op(bytes, mode, true);
    PBT_CHECK(vd, op.r != nullptr, "undamaged file rejected at open (%s): %s", rd::modeName(mode), op.err.message);
    for (auto &pr : pages) { int64_t rows = 0; bool e = readColumnUntilError(op.r, pr.rg, pr.col, d.batch, rows); PBT_CHECK(vd, !e, "undamaged file: reading row group %d column %d reports an error with checksum verification on (%s)", pr.rg, pr.col, rd::modeName(mode)); }
  }
  // damages
  uint64_t s = 0x9E3779B97F4A7C15ull ^ ((uint64_t)d.seed << 1 | 1);
  long evals = 0;
  bool nt = false;
  for (auto &pr : pages) {
    if (pr.body_len == 0) continue;
    std::vector<std::pair<size_t, std::vector<uint8_t>>> dmg;   // (byte offset in body, xor mask bytes)
    bool exhaustive = pr.body_len <= 48;
    if (exhaustive) for (size_t b = 0; b < pr.body_len * 8; b++) dmg.push_back({b / 8, {(uint8_t)(1u << (b % 8))}});
    else for (int k = 0; k < 40; k++) { size_t b = gf::dxs(s) % (pr.body_len * 8); dmg.push_back({b / 8, {(uint8_t)(1u << (b % 8))}}); }
    for (int k = 0; k < 6; k++) { size_t off = gf::dxs(s) % pr.body_len; dmg.push_back({off, {(uint8_t)(k % 3 == 0 ? 0x01 : k % 3 == 1 ? 0x80 : 0xFF)}}); }
    for (int k = 0; k < 6; k++) {   // burst of 2..32 bits: first and last bit of the burst are flipped, bits between random
      int len = 2 + (int)(gf::dxs(s) % 31); size_t start = gf::dxs(s) % (pr.body_len * 8);
      if (start + (size_t)len > pr.body_len * 8) continue;
      std::vector<uint8_t> mask((start % 8 + (size_t)len + 7) / 8, 0);
      for (int i = 0; i < len; i++) { bool flip = i == 0 || i == len - 1 || (gf::dxs(s) & 1); if (flip) { size_t bit = start % 8 + (size_t)i; mask[bit / 8] |= (uint8_t)(1u << (bit % 8)); } }
      dmg.push_back({start / 8, mask});
    }
    if (!pr.first_page || pr.is_dict || pr.codec != 0) nt = true;
    for (auto &dm : dmg) {
      Bytes bad = bytes;
      for (size_t i = 0; i < dm.second.size(); i++) bad[pr.body_off + dm.first + i] ^= dm.second[i];
      for (int mode = 0; mode < 3; mode++) {
        evals++;
        {
          rd::Opened op(bad, mode, true);
          PBT_CHECK(vd, op.r != nullptr, "damage inside a page body makes the file fail to open (%s)", rd::modeName(mode));
          int64_t rows = 0;
          bool e = readColumnUntilError(op.r, pr.rg, pr.col, d.batch, rows);
          PBT_CHECK(vd, e, "%s: damaged %s page (row group %d column %d, body byte %zu of %zu, %zu-byte mask starting %02x, codec %d) is read without any error with checksum verification on", rd::modeName(mode), pr.is_dict ? "dictionary" : "data", pr.rg, pr.col, dm.first, pr.body_len, dm.second.size(), dm.second[0], pr.codec);
          int64_t allowed = pr.is_dict ? 0 : (int64_t)pr.rows_before;
          PBT_CHECK(vd, rows <= allowed, "%s: %lld rows delivered before the error, only %lld rows are stored before the damaged page", rd::modeName(mode), (long long)rows, (long long)allowed);
          if ((evals % 7) == 0) {   // batch reader on a sample
            int erg = 0; int64_t rin = 0; std::vector<int64_t> dummy;
            bool e2 = readBatchesUntilError(op.r, pr.col, d.batch, dummy, 0, erg, rin, rg_rows);
            PBT_CHECK(vd, e2, "%s: batch reader reads a damaged page (row group %d column %d) to the end without error", rd::modeName(mode), pr.rg, pr.col);
            PBT_CHECK(vd, erg < pr.rg || (erg == pr.rg && rin <= allowed), "%s: batch reader delivered rows of or behind the damaged page (stopped in row group %d after %lld rows; damage in row group %d after %lld rows)", rd::modeName(mode), erg, (long long)rin, pr.rg, (long long)allowed);
          }
        }
        if ((evals % 5) == 0) {   // verification disabled: anything goes, memory safety only (ASan)
          rd::Opened op(bad, mode, false);
          if (op.r) { int64_t rows = 0; (void)readColumnUntilError(op.r, pr.rg, pr.col, d.batch, rows); }
        }
      }
    }
  }
  vd.evals = std::max<long>(1, evals);
  vd.nontrivial = nt;
  vd.label(d.src == 0 ? "carquet_written" : "reference_written_with_dictionary");
  return vd;
}

// ------------------------------------------------------------------ first_use
// "for every input" includes the first inputs of a process: the lookup tables are built lazily on first use, and in a
// reader-only service the first uses come from several threads at once.  Each case re-executes this binary; in the child
// nothing of carquet has run when T threads leave a barrier and compute checksums of their own buffers (oracle: zlib).
struct U { int threads = 2; uint32_t seed = 1; std::vector<int> skew; int len_class = 0; };
static CaseText serU(const U &u) { CaseText t; t.put_i("threads", u.threads); t.put_u("seed", u.seed); t.put_ints("skew", u.skew); t.put_i("len_class", u.len_class); return t; }
static U deU(const CaseText &t) { U u; u.threads = (int)t.get_i("threads"); u.seed = (uint32_t)t.get_u("seed"); u.skew = t.get_ints<int>("skew"); u.len_class = (int)t.get_i("len_class"); return u; }
static rc::Gen<U> genU() {
  return rc::gen::map(rc::gen::tuple(irange(2, 8), irange(1, 1 << 30), rc::gen::container<std::vector<int>>(8, irange(0, 3)), irange(0, 2)),
                      [](const std::tuple<int, int, std::vector<int>, int> &t) { U u; u.threads = std::get<0>(t); u.seed = (uint32_t)std::get<1>(t); u.skew = std::get<2>(t); u.len_class = std::get<3>(t); return u; });
}
static std::string g_self;
static Verdict runU(const U &u) {
  Verdict vd;
  std::string path = rd::tmpPath("crcfu") + ".case";
  pbt::write_file(path, serU(u).dump());
  pid_t pid = fork();
  if (pid == 0) { execl(g_self.c_str(), g_self.c_str(), "--first-use-child", path.c_str(), (char *)nullptr); _exit(111); }
  int st = 0; waitpid(pid, &st, 0);
  unlink(path.c_str());
  vd.nontrivial = true; vd.label("first_use_threads=" + std::to_string(u.threads));
  PBT_CHECK(vd, WIFEXITED(st) && WEXITSTATUS(st) == 0, "first checksums of a fresh process computed by %d threads at once: %s (exit status %d)", u.threads,
            WIFEXITED(st) && WEXITSTATUS(st) == 7 ? "carquet_crc32 differs from zlib's crc32 in at least one thread" : "child crashed or reported a sanitizer error", WIFEXITED(st) ? WEXITSTATUS(st) : -WTERMSIG(st));
  return vd;
}
struct UArg { pthread_barrier_t *bar; int skew; Bytes buf[3]; uint32_t got[3]; };
static void *crcThread(void *p) {
  UArg *a = (UArg *)p;
  pthread_barrier_wait(a->bar);
  for (int i = 0; i < a->skew; i++) sched_yield();
  for (int i = 0; i < 3; i++) a->got[i] = carquet_crc32(a->buf[i].data(), a->buf[i].size());
  return nullptr;
}
static int firstUseChild(const char *casefile) {
  std::ifstream f(casefile); std::stringstream ss; ss << f.rdbuf();
  U u = deU(CaseText::parse(ss.str()));
  int T = std::max(2, std::min(16, u.threads));
  std::vector<UArg> args((size_t)T); std::vector<pthread_t> th((size_t)T);
  pthread_barrier_t bar; pthread_barrier_init(&bar, nullptr, (unsigned)T);
  uint64_t sd = 0x9E3779B97F4A7C15ull ^ ((uint64_t)u.seed << 1 | 1);
  for (int i = 0; i < T; i++) {
    args[(size_t)i].bar = &bar; args[(size_t)i].skew = u.skew.empty() ? 0 : u.skew[(size_t)i % u.skew.size()];
    for (int k = 0; k < 3; k++) { size_t len = u.len_class == 0 ? 1 + gf::dxs(sd) % 64 : u.len_class == 1 ? 64 + gf::dxs(sd) % 4096 : 4096 + gf::dxs(sd) % 100000; Bytes &b = args[(size_t)i].buf[k]; b.resize(len); for (auto &x : b) x = (uint8_t)(gf::dxs(sd) >> 24); }
  }
  for (int i = 0; i < T; i++) pthread_create(&th[(size_t)i], nullptr, crcThread, &args[(size_t)i]);
  for (int i = 0; i < T; i++) pthread_join(th[(size_t)i], nullptr);
  pthread_barrier_destroy(&bar);
  for (int i = 0; i < T; i++) for (int k = 0; k < 3; k++) {
    uint32_t want = (uint32_t)::crc32(::crc32(0L, Z_NULL, 0), args[(size_t)i].buf[k].data(), (uInt)args[(size_t)i].buf[k].size());
    if (args[(size_t)i].got[k] != want) { fprintf(stderr, "thread %d of %d, buffer %d (%zu bytes): carquet_crc32 = %08x, zlib = %08x\n", i, T, k, args[(size_t)i].buf[k].size(), args[(size_t)i].got[k], want); return 7; }
  }
  return 0;
}

int main(int argc, char **argv) {
  g_self = "/proc/self/exe";
  { char buf[4096]; ssize_t n = readlink("/proc/self/exe", buf, sizeof buf - 1); if (n > 0) { buf[n] = 0; g_self = buf; } }
  if (argc == 3 && std::string(argv[1]) == "--first-use-child") return firstUseChild(argv[2]);
  add<U>("first_use", 0.4, genU, serU, deU, runU);
  add<F>("crc_fn", 1, genF, serF, deF, runF);
  registry().back().enumerate = enumF;
  add<D>("damage", 1, genD, serD, deD, runD);
  return main_(argc, argv);
}
