// C13: Thrift metadata round-trips and is genuine compact protocol.
//  w2p : parquet_write_* then parquet_parse_* returns an equal structure, bytes_read == bytes produced,
//        and an independent compact-protocol decoder reads the same (field id, wire type, value) tree.
//  r2p : the independent encoder serialises the same structures with the protocol's freedom (long-form
//        field headers, long-form list sizes) and with unknown fields of every wire type injected into
//        every struct; carquet must parse it to the same structure.
#include "harness/common/pbt.hpp"
#include "harness/common/carquet_internal.hpp"
#include "ref/parquet_model.hpp"
#include "ref/thrift_fuzz.hpp"
#include <deque>

using namespace pbt;
using tr::TVal;
using tr::TField;

// A case is the canonical reference encoding of the model structure (hex) plus a seed for the
// encoder freedoms / unknown-field injection.  kind 0 = FileMetaData, 1 = PageHeader.
struct C { int kind = 0; Bytes model; uint32_t seed = 0; int inject = 0; Bytes raw; };   // raw: hand-written encoding used instead of the seeded decoration (regression cases)
static CaseText ser(const C &c) { CaseText t; t.put_i("kind", c.kind); t.put_bytes("model", c.model); t.put_u("seed", c.seed); t.put_i("inject", c.inject); if (!c.raw.empty()) t.put_bytes("raw", c.raw); return t; }
static C de(const CaseText &t) { C c; c.kind = (int)t.get_i("kind"); c.model = t.get_bytes("model"); c.seed = (uint32_t)t.get_u("seed"); c.inject = (int)t.get_i("inject"); if (t.has("raw")) c.raw = t.get_bytes("raw"); return c; }

// ------------------------------------------------------------- generators
static rc::Gen<std::string> nameGen() {
  auto ch = rc::gen::map(irange(1, 255), [](int v) { return (char)v; });
  return rc::gen::weightedOneOf<std::string>({
      {1, rc::gen::just(std::string())},
      {6, rc::gen::resize(12, rc::gen::container<std::string>(rc::gen::map(irange('a', 'z'), [](int v) { return (char)v; })))},
      {3, rc::gen::resize(20, rc::gen::container<std::string>(ch))},
      {1, rc::gen::map(irange(200, 400), [](int n) { std::string s; for (int i = 0; i < n; i++) s.push_back((char)('A' + i % 50)); return s; })},
      // lengths at the varint boundaries of the length prefix (one / two / three bytes) and multiples of 128
      {1, rc::gen::map(rc::gen::element(127, 128, 129, 256, 384, 16383, 16384, 16385, 20000, 65535, 65536, 70000), [](int n) { std::string s; for (int i = 0; i < n; i++) s.push_back((char)('a' + i % 26)); return s; })},
  });
}
static rc::Gen<Bytes> binGen() {
  return rc::gen::weightedOneOf<Bytes>({
      {1, rc::gen::just(Bytes{})},
      {5, rc::gen::resize(16, rc::gen::container<Bytes>(rc::gen::arbitrary<uint8_t>()))},
      {1, rc::gen::map(irange(250, 400), [](int n) { Bytes b; for (int i = 0; i < n; i++) b.push_back((uint8_t)(i * 7)); return b; })},
      {1, rc::gen::map(rc::gen::element(127, 128, 129, 256, 16383, 16384, 16385, 65535, 65536), [](int n) { Bytes b; for (int i = 0; i < n; i++) b.push_back((uint8_t)(i * 13)); return b; })},
  });
}
static rc::Gen<int64_t> i64g() {
  return rc::gen::weightedOneOf<int64_t>({{3, rc::gen::element<int64_t>(0, 1, -1, INT64_MIN, INT64_MAX, INT32_MAX, INT32_MIN, 63, 64, -64, -65, 8191, 8192)},
                                          {3, rc::gen::map(bits64(), [](uint64_t v) { return (int64_t)v; })}, {3, rc::gen::map(irange(-200, 5000), [](int v) { return (int64_t)v; })},
                                          // every magnitude: a random number of significant bits, both signs (varint length boundaries, the 2^31..2^32 window)
                                          {4, rc::gen::map(rc::gen::tuple(bits64(), irange(0, 63), rc::gen::arbitrary<bool>()), [](const std::tuple<uint64_t, int, bool> &t) { uint64_t m = std::get<0>(t) >> std::get<1>(t); int64_t v = (int64_t)(m >> 1); return std::get<2>(t) ? -v : v; })},
                                          {2, rc::gen::element<int64_t>((int64_t)1 << 31, ((int64_t)1 << 31) + 1, 3000000000LL, 4294967295LL, (int64_t)1 << 32, ((int64_t)1 << 32) + 1, -((int64_t)1 << 31) - 1, -((int64_t)1 << 32), (int64_t)1 << 62, -((int64_t)1 << 62))}});
}
static rc::Gen<int32_t> i32g() { return rc::gen::map(i64g(), [](int64_t v) { return (int32_t)v; }); }
template <class T> static pq::Opt<T> optOf(bool present, T v) { return present ? pq::Opt<T>(v) : pq::Opt<T>(); }
#define PICK(g) (*(g))
static bool coin() { return *rc::gen::arbitrary<bool>(); }

static pq::Statistics genStats() {
  pq::Statistics s;
  if (coin()) s.max = PICK(binGen()); if (coin()) s.min = PICK(binGen());
  if (coin()) s.max_value = PICK(binGen()); if (coin()) s.min_value = PICK(binGen());
  if (coin()) s.null_count = PICK(i64g()); if (coin()) s.distinct_count = PICK(i64g());
  if (coin()) s.is_max_value_exact = coin(); if (coin()) s.is_min_value_exact = coin();
  return s;
}
static pq::LogicalType genLt() {
  pq::LogicalType l;
  l.kind = PICK(rc::gen::element(0, 0, 1, 2, 3, 4, 5, 6, 7, 8, 10, 11, 12, 13, 14, 15));
  l.scale = PICK(i32g()); l.precision = PICK(i32g()); l.utc = coin(); l.unit = PICK(irange(1, 3));
  l.bit_width = PICK(rc::gen::element(8, 16, 32, 64, -8, 0, 127)); l.is_signed = coin();
  return l;
}
static std::vector<pq::KeyValue> genKv() {
  std::vector<pq::KeyValue> v;
  int n = PICK(rc::gen::weightedOneOf<int>({{5, irange(0, 4)}, {1, irange(14, 17)}}));
  for (int i = 0; i < n; i++) { pq::KeyValue k; k.key = PICK(nameGen()); if (coin()) k.value = PICK(nameGen()); v.push_back(k); }
  return v;
}
static pq::FileMetaData genFile() {
  pq::FileMetaData f;
  f.version = PICK(i32g());
  int ns = PICK(rc::gen::weightedOneOf<int>({{6, irange(0, 8)}, {2, irange(13, 18)}, {1, irange(30, 45)}, {1, rc::gen::just(300)}}));
  for (int i = 0; i < ns; i++) {
    pq::SchemaElement e;
    if (coin()) e.type = PICK(rc::gen::weightedOneOf<int32_t>({{5, rc::gen::map(irange(0, 7), [](int v) { return (int32_t)v; })}, {1, i32g()}}));
    if (coin()) e.type_length = PICK(i32g());
    if (coin()) e.repetition = PICK(rc::gen::map(irange(0, 2), [](int v) { return (int32_t)v; }));
    e.name = PICK(nameGen());
    if (coin()) e.num_children = PICK(i32g());
    if (coin()) e.converted_type = PICK(rc::gen::map(irange(0, 21), [](int v) { return (int32_t)v; }));
    if (coin()) e.scale = PICK(i32g()); if (coin()) e.precision = PICK(i32g()); if (coin()) e.field_id = PICK(i32g());
    e.lt = genLt();
    f.schema.push_back(e);
  }
  f.num_rows = PICK(i64g());
  int ng = PICK(rc::gen::weightedOneOf<int>({{6, irange(0, 3)}, {1, irange(14, 17)}}));
  for (int g = 0; g < ng; g++) {
    pq::RowGroup rg;
    int nc = PICK(rc::gen::weightedOneOf<int>({{6, irange(0, 4)}, {1, irange(14, 20)}}));
    for (int c = 0; c < nc; c++) {
      pq::ColumnChunk cc;
      if (coin()) cc.file_path = PICK(nameGen());
      cc.file_offset = PICK(i64g());
      if (PICK(irange(0, 9)) > 0) {
        pq::ColumnMetaData m;
        m.type = PICK(irange(0, 7));
        int ne = PICK(rc::gen::weightedOneOf<int>({{6, irange(0, 4)}, {1, irange(14, 17)}}));
        for (int i = 0; i < ne; i++) m.encodings.push_back(PICK(rc::gen::element<int32_t>(0, 2, 3, 4, 5, 6, 7, 8, 9)));
        int np = PICK(rc::gen::weightedOneOf<int>({{6, irange(0, 3)}, {1, irange(14, 16)}}));
        for (int i = 0; i < np; i++) m.path.push_back(PICK(nameGen()));
        m.codec = PICK(irange(0, 7));
        m.num_values = PICK(i64g()); m.total_uncompressed_size = PICK(i64g()); m.total_compressed_size = PICK(i64g());
        if (coin()) m.key_value = genKv();
        m.data_page_offset = PICK(i64g());
        if (coin()) m.index_page_offset = PICK(i64g()); if (coin()) m.dictionary_page_offset = PICK(i64g());
        if (coin()) m.statistics = genStats();
        if (coin()) { std::vector<pq::PageEncodingStats> es; int n = PICK(irange(0, 3)); for (int i = 0; i < n; i++) { pq::PageEncodingStats x; x.page_type = PICK(irange(0, 3)); x.encoding = PICK(irange(0, 9)); x.count = PICK(i32g()); es.push_back(x); } m.encoding_stats = es; }
        if (coin()) m.bloom_filter_offset = PICK(i64g()); if (coin()) m.bloom_filter_length = PICK(i32g());
        cc.meta = m;
      }
      if (coin()) cc.offset_index_offset = PICK(i64g()); if (coin()) cc.offset_index_length = PICK(i32g());
      if (coin()) cc.column_index_offset = PICK(i64g()); if (coin()) cc.column_index_length = PICK(i32g());
      rg.columns.push_back(cc);
    }
    rg.total_byte_size = PICK(i64g()); rg.num_rows = PICK(i64g());
    if (coin()) rg.file_offset = PICK(i64g()); if (coin()) rg.total_compressed_size = PICK(i64g());
    if (coin()) rg.ordinal = (int16_t)PICK(i32g());
    f.row_groups.push_back(rg);
  }
  if (coin()) f.key_value = genKv();
  if (coin()) f.created_by = PICK(nameGen());
  return f;
}
static pq::PageHeader genPage() {
  pq::PageHeader h;
  h.type = PICK(rc::gen::element<int32_t>(0, 2, 3));
  h.uncompressed_size = PICK(i32g()); h.compressed_size = PICK(i32g());
  if (coin()) h.crc = PICK(i32g());
  if (h.type == 0) { pq::DataPageHeader d; d.num_values = PICK(i32g()); d.encoding = PICK(irange(0, 9)); d.def_enc = PICK(irange(0, 9)); d.rep_enc = PICK(irange(0, 9)); if (coin()) d.statistics = genStats(); h.data = d; }
  else if (h.type == 2) { pq::DictPageHeader d; d.num_values = PICK(i32g()); d.encoding = PICK(irange(0, 9)); if (coin()) d.is_sorted = coin(); h.dict = d; }
  else { pq::DataPageHeaderV2 d; d.num_values = PICK(i32g()); d.num_nulls = PICK(i32g()); d.num_rows = PICK(i32g()); d.encoding = PICK(irange(0, 9)); d.def_len = PICK(i32g()); d.rep_len = PICK(i32g()); if (coin()) d.is_compressed = coin(); if (coin()) d.statistics = genStats(); h.v2 = d; }
  return h;
}
static rc::Gen<C> genC(int kind) {
  return rc::gen::exec([kind]() {
    C c; c.kind = kind;
    c.model = kind == 0 ? tr::encode(pq::dom(genFile())) : tr::encode(pq::dom(genPage()));
    c.seed = (uint32_t)PICK(irange(0, 1 << 30));
    c.inject = PICK(rc::gen::element(0, 1, 1, 2, 3));
    return c;
  });
}

// ------------------------------------------------------------- model -> carquet structs
struct Hold {
  std::deque<std::string> strs; std::deque<Bytes> bins;
  std::deque<std::vector<parquet_schema_element_t>> se; std::deque<std::vector<parquet_row_group_t>> rgs; std::deque<std::vector<parquet_column_chunk_t>> ccs;
  std::deque<std::vector<carquet_encoding_t>> encs; std::deque<std::vector<char *>> paths; std::deque<std::vector<parquet_key_value_t>> kvs; std::deque<std::vector<parquet_page_encoding_stats_t>> pes;
  char *s(const std::string &x) { strs.push_back(x); return (char *)strs.back().c_str(); }
  uint8_t *b(const Bytes &x) { bins.push_back(x.empty() ? Bytes(1, 0) : x); return bins.back().data(); }
};
static int ltToCarquet(int kind) { return kind <= 8 ? kind : kind - 1; }
static void fillStats(Hold &h, const pq::Statistics &m, parquet_statistics_t &s) {
  memset(&s, 0, sizeof s);
  if (m.max) { s.max_deprecated = h.b(*m.max); s.max_deprecated_len = (int32_t)m.max->size(); }
  if (m.min) { s.min_deprecated = h.b(*m.min); s.min_deprecated_len = (int32_t)m.min->size(); }
  if (m.max_value) { s.max_value = h.b(*m.max_value); s.max_value_len = (int32_t)m.max_value->size(); }
  if (m.min_value) { s.min_value = h.b(*m.min_value); s.min_value_len = (int32_t)m.min_value->size(); }
  if (m.null_count) { s.has_null_count = true; s.null_count = *m.null_count; }
  if (m.distinct_count) { s.has_distinct_count = true; s.distinct_count = *m.distinct_count; }
  if (m.is_max_value_exact) { s.has_is_max_value_exact = true; s.is_max_value_exact = *m.is_max_value_exact; }
  if (m.is_min_value_exact) { s.has_is_min_value_exact = true; s.is_min_value_exact = *m.is_min_value_exact; }
}
static parquet_key_value_t *fillKv(Hold &h, const std::vector<pq::KeyValue> &kv) {
  h.kvs.emplace_back(kv.size() ? kv.size() : 1);
  for (size_t i = 0; i < kv.size(); i++) { h.kvs.back()[i].key = h.s(kv[i].key); h.kvs.back()[i].value = kv[i].value ? h.s(*kv[i].value) : nullptr; }
  return h.kvs.back().data();
}
static void fillFile(Hold &h, const pq::FileMetaData &m, parquet_file_metadata_t &f) {
  memset(&f, 0, sizeof f);
  f.version = m.version; f.num_rows = m.num_rows;
  h.se.emplace_back(m.schema.size() ? m.schema.size() : 1);
  f.schema = h.se.back().data(); f.num_schema_elements = (int32_t)m.schema.size();
  for (size_t i = 0; i < m.schema.size(); i++) {
    auto &e = m.schema[i]; auto &o = f.schema[i]; memset(&o, 0, sizeof o);
    if (e.type) { o.has_type = true; o.type = (carquet_physical_type_t)*e.type; }
    o.type_length = e.type_length.value_or(0);
    if (e.repetition) { o.has_repetition = true; o.repetition_type = (carquet_field_repetition_t)*e.repetition; }
    o.name = h.s(e.name); o.num_children = e.num_children.value_or(0);
    if (e.converted_type) { o.has_converted_type = true; o.converted_type = (carquet_converted_type_t)*e.converted_type; }
    o.scale = e.scale.value_or(0); o.precision = e.precision.value_or(0);
    if (e.field_id) { o.has_field_id = true; o.field_id = *e.field_id; }
    if (e.lt.kind) { o.has_logical_type = true; o.logical_type.id = (carquet_logical_type_id_t)ltToCarquet(e.lt.kind);
      if (e.lt.kind == 5) { o.logical_type.params.decimal.scale = e.lt.scale; o.logical_type.params.decimal.precision = e.lt.precision; }
      else if (e.lt.kind == 7) { o.logical_type.params.time.is_adjusted_to_utc = e.lt.utc; o.logical_type.params.time.unit = (carquet_time_unit_t)(e.lt.unit - 1); }
      else if (e.lt.kind == 8) { o.logical_type.params.timestamp.is_adjusted_to_utc = e.lt.utc; o.logical_type.params.timestamp.unit = (carquet_time_unit_t)(e.lt.unit - 1); }
      else if (e.lt.kind == 10) { o.logical_type.params.integer.bit_width = (int8_t)e.lt.bit_width; o.logical_type.params.integer.is_signed = e.lt.is_signed; } }
  }
  h.rgs.emplace_back(m.row_groups.size() ? m.row_groups.size() : 1);
  f.row_groups = h.rgs.back().data(); f.num_row_groups = (int32_t)m.row_groups.size();
  for (size_t g = 0; g < m.row_groups.size(); g++) {
    auto &rg = m.row_groups[g]; auto &o = f.row_groups[g]; memset(&o, 0, sizeof o);
    h.ccs.emplace_back(rg.columns.size() ? rg.columns.size() : 1);
    o.columns = h.ccs.back().data(); o.num_columns = (int32_t)rg.columns.size();
    o.total_byte_size = rg.total_byte_size; o.num_rows = rg.num_rows;
    if (rg.file_offset) { o.has_file_offset = true; o.file_offset = *rg.file_offset; }
    if (rg.total_compressed_size) { o.has_total_compressed_size = true; o.total_compressed_size = *rg.total_compressed_size; }
    if (rg.ordinal) { o.has_ordinal = true; o.ordinal = *rg.ordinal; }
    for (size_t c = 0; c < rg.columns.size(); c++) {
      auto &cc = rg.columns[c]; auto &oc = o.columns[c]; memset(&oc, 0, sizeof oc);
      if (cc.file_path) oc.file_path = h.s(*cc.file_path);
      oc.file_offset = cc.file_offset;
      if (cc.offset_index_offset) { oc.has_offset_index_offset = true; oc.offset_index_offset = *cc.offset_index_offset; }
      if (cc.offset_index_length) { oc.has_offset_index_length = true; oc.offset_index_length = *cc.offset_index_length; }
      if (cc.column_index_offset) { oc.has_column_index_offset = true; oc.column_index_offset = *cc.column_index_offset; }
      if (cc.column_index_length) { oc.has_column_index_length = true; oc.column_index_length = *cc.column_index_length; }
      if (cc.meta) {
        auto &mm = *cc.meta; auto &om = oc.metadata; oc.has_metadata = true;
        om.type = (carquet_physical_type_t)mm.type;
        h.encs.emplace_back(); for (auto x : mm.encodings) h.encs.back().push_back((carquet_encoding_t)x); if (h.encs.back().empty()) h.encs.back().push_back(CARQUET_ENCODING_PLAIN);
        om.encodings = h.encs.back().data(); om.num_encodings = (int32_t)mm.encodings.size();
        h.paths.emplace_back(); for (auto &x : mm.path) h.paths.back().push_back(h.s(x)); if (h.paths.back().empty()) h.paths.back().push_back(nullptr);
        om.path_in_schema = h.paths.back().data(); om.path_len = (int32_t)mm.path.size();
        om.codec = (carquet_compression_t)mm.codec; om.num_values = mm.num_values; om.total_uncompressed_size = mm.total_uncompressed_size; om.total_compressed_size = mm.total_compressed_size;
        if (mm.key_value) { om.key_value_metadata = fillKv(h, *mm.key_value); om.num_key_value = (int32_t)mm.key_value->size(); }
        om.data_page_offset = mm.data_page_offset;
        if (mm.index_page_offset) { om.has_index_page_offset = true; om.index_page_offset = *mm.index_page_offset; }
        if (mm.dictionary_page_offset) { om.has_dictionary_page_offset = true; om.dictionary_page_offset = *mm.dictionary_page_offset; }
        if (mm.statistics) { om.has_statistics = true; fillStats(h, *mm.statistics, om.statistics); }
        if (mm.encoding_stats) { h.pes.emplace_back(); for (auto &x : *mm.encoding_stats) { parquet_page_encoding_stats_t p; p.page_type = (carquet_page_type_t)x.page_type; p.encoding = (carquet_encoding_t)x.encoding; p.count = x.count; h.pes.back().push_back(p); }
          if (h.pes.back().empty()) h.pes.back().emplace_back(); om.encoding_stats = h.pes.back().data(); om.num_encoding_stats = (int32_t)mm.encoding_stats->size(); }
        if (mm.bloom_filter_offset) { om.has_bloom_filter_offset = true; om.bloom_filter_offset = *mm.bloom_filter_offset; }
        if (mm.bloom_filter_length) { om.has_bloom_filter_length = true; om.bloom_filter_length = *mm.bloom_filter_length; }
      }
    }
  }
  if (m.key_value) { f.key_value_metadata = fillKv(h, *m.key_value); f.num_key_value = (int32_t)m.key_value->size(); }
  if (m.created_by) f.created_by = h.s(*m.created_by);
}
static void fillPage(Hold &h, const pq::PageHeader &m, parquet_page_header_t &p) {
  memset(&p, 0, sizeof p);
  p.type = (carquet_page_type_t)m.type; p.uncompressed_page_size = m.uncompressed_size; p.compressed_page_size = m.compressed_size;
  if (m.crc) { p.has_crc = true; p.crc = *m.crc; }
  if (m.data) { auto &d = p.data_page_header; d.num_values = m.data->num_values; d.encoding = (carquet_encoding_t)m.data->encoding; d.definition_level_encoding = (carquet_encoding_t)m.data->def_enc; d.repetition_level_encoding = (carquet_encoding_t)m.data->rep_enc;
    if (m.data->statistics) { d.has_statistics = true; fillStats(h, *m.data->statistics, d.statistics); } }
  if (m.dict) { auto &d = p.dictionary_page_header; d.num_values = m.dict->num_values; d.encoding = (carquet_encoding_t)m.dict->encoding; d.is_sorted = m.dict->is_sorted.value_or(false); }
  if (m.v2) { auto &d = p.data_page_header_v2; d.num_values = m.v2->num_values; d.num_nulls = m.v2->num_nulls; d.num_rows = m.v2->num_rows; d.encoding = (carquet_encoding_t)m.v2->encoding; d.definition_levels_byte_length = m.v2->def_len; d.repetition_levels_byte_length = m.v2->rep_len; d.is_compressed = m.v2->is_compressed.value_or(true); }
}

// what carquet's *writer* serialises of a model (its own omission rules, mirrored from the property's wording)
static void normStats(pq::Statistics &s) {
  auto drop = [](pq::Opt<Bytes> &b) { if (b && b->empty()) b.reset(); };
  drop(s.max); drop(s.min); drop(s.max_value); drop(s.min_value);
  s.is_max_value_exact.reset(); s.is_min_value_exact.reset();
}
static pq::FileMetaData writerView(pq::FileMetaData f) {
  for (auto &e : f.schema) {
    if (e.type_length && *e.type_length <= 0) e.type_length.reset();
    if (e.num_children && *e.num_children <= 0) e.num_children.reset();
    if (e.scale && *e.scale == 0) e.scale.reset();
    if (e.precision && *e.precision == 0) e.precision.reset();
    if (e.lt.kind == 7 || e.lt.kind == 8) {}
  }
  for (auto &g : f.row_groups) for (auto &c : g.columns) if (c.meta) { c.meta->key_value.reset(); c.meta->encoding_stats.reset(); if (c.meta->statistics) normStats(*c.meta->statistics); }
  if (f.key_value && f.key_value->empty()) f.key_value.reset();
  return f;
}
static pq::PageHeader writerView(pq::PageHeader h) {
  if (h.data && h.data->statistics) normStats(*h.data->statistics);
  if (h.dict && !h.dict->is_sorted) h.dict->is_sorted = false;    // always written
  if (h.v2) { if (!h.v2->is_compressed) h.v2->is_compressed = true; h.v2->statistics.reset(); }
  return h;
}

// ------------------------------------------------------------- carquet structs -> model (what parse returned)
static pq::Statistics statsOf(const parquet_statistics_t &s) {
  pq::Statistics m;
  if (s.max_deprecated) m.max = Bytes(s.max_deprecated, s.max_deprecated + s.max_deprecated_len);
  if (s.min_deprecated) m.min = Bytes(s.min_deprecated, s.min_deprecated + s.min_deprecated_len);
  if (s.max_value) m.max_value = Bytes(s.max_value, s.max_value + s.max_value_len);
  if (s.min_value) m.min_value = Bytes(s.min_value, s.min_value + s.min_value_len);
  if (s.has_null_count) m.null_count = s.null_count;
  if (s.has_distinct_count) m.distinct_count = s.distinct_count;
  if (s.has_is_max_value_exact) m.is_max_value_exact = s.is_max_value_exact;
  if (s.has_is_min_value_exact) m.is_min_value_exact = s.is_min_value_exact;
  return m;
}
static std::string S(const char *p) { return p ? std::string(p) : std::string("<NULL>"); }
// parsed carquet structure -> model.  Fields without a presence flag (type_length, num_children, scale,
// precision) are taken as present iff the expected model has them present (absent must read back as 0).
static bool parsedFile(const parquet_file_metadata_t &f, const pq::FileMetaData &exp, pq::FileMetaData &m, std::string &why) {
  m.version = f.version; m.num_rows = f.num_rows;
  for (int32_t i = 0; i < f.num_schema_elements; i++) {
    auto &o = f.schema[i]; pq::SchemaElement e;
    const pq::SchemaElement *x = (size_t)i < exp.schema.size() ? &exp.schema[i] : nullptr;
    if (o.has_type) e.type = (int32_t)o.type;
    if (o.has_repetition) e.repetition = (int32_t)o.repetition_type;
    e.name = S(o.name);
    if (o.has_converted_type) e.converted_type = (int32_t)o.converted_type;
    if (o.has_field_id) e.field_id = o.field_id;
    auto nopres = [&](pq::Opt<int32_t> &dst, const pq::Opt<int32_t> *expf, int32_t got, const char *n) {
      if (expf && *expf) dst = got; else if (got != 0) { why = std::string("schema[") + std::to_string(i) + "]." + n + " was not in the bytes but parses as " + std::to_string(got); return false; }
      return true;
    };
    if (!nopres(e.type_length, x ? &x->type_length : nullptr, o.type_length, "type_length")) return false;
    if (!nopres(e.num_children, x ? &x->num_children : nullptr, o.num_children, "num_children")) return false;
    if (!nopres(e.scale, x ? &x->scale : nullptr, o.scale, "scale")) return false;
    if (!nopres(e.precision, x ? &x->precision : nullptr, o.precision, "precision")) return false;
    if (o.has_logical_type) {
      int id = (int)o.logical_type.id;
      e.lt.kind = id <= 8 ? id : id + 1;
      if (id == 0) e.lt.kind = x ? x->lt.kind : 0;   // a union member carquet does not model: nothing to compare
      if (e.lt.kind == 5) { e.lt.scale = o.logical_type.params.decimal.scale; e.lt.precision = o.logical_type.params.decimal.precision; }
      else if (e.lt.kind == 7) { e.lt.utc = o.logical_type.params.time.is_adjusted_to_utc; e.lt.unit = (int)o.logical_type.params.time.unit + 1; }
      else if (e.lt.kind == 8) { e.lt.utc = o.logical_type.params.timestamp.is_adjusted_to_utc; e.lt.unit = (int)o.logical_type.params.timestamp.unit + 1; }
      else if (e.lt.kind == 10) { e.lt.bit_width = o.logical_type.params.integer.bit_width; e.lt.is_signed = o.logical_type.params.integer.is_signed; }
    }
    m.schema.push_back(e);
  }
  for (int32_t g = 0; g < f.num_row_groups; g++) {
    auto &o = f.row_groups[g]; pq::RowGroup rg;
    rg.total_byte_size = o.total_byte_size; rg.num_rows = o.num_rows;
    if (o.has_file_offset) rg.file_offset = o.file_offset;
    if (o.has_total_compressed_size) rg.total_compressed_size = o.total_compressed_size;
    if (o.has_ordinal) rg.ordinal = o.ordinal;
    for (int32_t c = 0; c < o.num_columns; c++) {
      auto &oc = o.columns[c]; pq::ColumnChunk cc;
      if (oc.file_path) cc.file_path = std::string(oc.file_path);
      cc.file_offset = oc.file_offset;
      if (oc.has_offset_index_offset) cc.offset_index_offset = oc.offset_index_offset;
      if (oc.has_offset_index_length) cc.offset_index_length = oc.offset_index_length;
      if (oc.has_column_index_offset) cc.column_index_offset = oc.column_index_offset;
      if (oc.has_column_index_length) cc.column_index_length = oc.column_index_length;
      if (oc.has_metadata) {
        auto &om = oc.metadata; pq::ColumnMetaData mm;
        mm.type = (int32_t)om.type;
        for (int32_t i = 0; i < om.num_encodings; i++) mm.encodings.push_back((int32_t)om.encodings[i]);
        for (int32_t i = 0; i < om.path_len; i++) mm.path.push_back(S(om.path_in_schema[i]));
        mm.codec = (int32_t)om.codec; mm.num_values = om.num_values; mm.total_uncompressed_size = om.total_uncompressed_size; mm.total_compressed_size = om.total_compressed_size;
        const pq::ColumnMetaData *xm = nullptr;
        if ((size_t)g < exp.row_groups.size() && (size_t)c < exp.row_groups[g].columns.size() && exp.row_groups[g].columns[c].meta) xm = &*exp.row_groups[g].columns[c].meta;
        if (om.num_key_value > 0 || (xm && xm->key_value)) { std::vector<pq::KeyValue> kv; for (int32_t i = 0; i < om.num_key_value; i++) { pq::KeyValue k; k.key = S(om.key_value_metadata[i].key); if (om.key_value_metadata[i].value) k.value = std::string(om.key_value_metadata[i].value); kv.push_back(k); } mm.key_value = kv; }
        mm.data_page_offset = om.data_page_offset;
        if (om.has_index_page_offset) mm.index_page_offset = om.index_page_offset;
        if (om.has_dictionary_page_offset) mm.dictionary_page_offset = om.dictionary_page_offset;
        if (om.has_statistics) mm.statistics = statsOf(om.statistics);
        if (om.num_encoding_stats > 0 || (xm && xm->encoding_stats)) { std::vector<pq::PageEncodingStats> es; for (int32_t i = 0; i < om.num_encoding_stats; i++) { pq::PageEncodingStats p; p.page_type = (int32_t)om.encoding_stats[i].page_type; p.encoding = (int32_t)om.encoding_stats[i].encoding; p.count = om.encoding_stats[i].count; es.push_back(p); } mm.encoding_stats = es; }
        if (om.has_bloom_filter_offset) mm.bloom_filter_offset = om.bloom_filter_offset;
        if (om.has_bloom_filter_length) mm.bloom_filter_length = om.bloom_filter_length;
        cc.meta = mm;
      }
      rg.columns.push_back(cc);
    }
    m.row_groups.push_back(rg);
  }
  if (f.num_key_value > 0 || exp.key_value) { std::vector<pq::KeyValue> kv; for (int32_t i = 0; i < f.num_key_value; i++) { pq::KeyValue k; k.key = S(f.key_value_metadata[i].key); if (f.key_value_metadata[i].value) k.value = std::string(f.key_value_metadata[i].value); kv.push_back(k); } m.key_value = kv; }
  if (f.created_by) m.created_by = std::string(f.created_by);
  return true;
}
// empty binary statistics cannot be told from absent ones in carquet's struct (NULL pointer): fold them on the expected side
static void foldEmptyStats(pq::Statistics &s) { auto d = [](pq::Opt<Bytes> &b) { if (b && b->empty()) b.reset(); }; d(s.max); d(s.min); d(s.max_value); d(s.min_value); }
static pq::PageHeader parsedPage(const parquet_page_header_t &p, const pq::PageHeader &exp) {
  pq::PageHeader m;
  m.type = (int32_t)p.type; m.uncompressed_size = p.uncompressed_page_size; m.compressed_size = p.compressed_page_size;
  if (p.has_crc) m.crc = p.crc;
  if (exp.data) { pq::DataPageHeader d; d.num_values = p.data_page_header.num_values; d.encoding = (int32_t)p.data_page_header.encoding; d.def_enc = (int32_t)p.data_page_header.definition_level_encoding; d.rep_enc = (int32_t)p.data_page_header.repetition_level_encoding;
    if (p.data_page_header.has_statistics) d.statistics = exp.data->statistics ? *exp.data->statistics : pq::Statistics();   // the parse API cannot return page statistics: presence only
    m.data = d; }
  if (exp.dict) { pq::DictPageHeader d; d.num_values = p.dictionary_page_header.num_values; d.encoding = (int32_t)p.dictionary_page_header.encoding; if (exp.dict->is_sorted) d.is_sorted = p.dictionary_page_header.is_sorted; else if (p.dictionary_page_header.is_sorted) d.is_sorted = true; m.dict = d; }
  if (exp.v2) { pq::DataPageHeaderV2 d; d.num_values = p.data_page_header_v2.num_values; d.num_nulls = p.data_page_header_v2.num_nulls; d.num_rows = p.data_page_header_v2.num_rows; d.encoding = (int32_t)p.data_page_header_v2.encoding; d.def_len = p.data_page_header_v2.definition_levels_byte_length; d.rep_len = p.data_page_header_v2.repetition_levels_byte_length;
    if (exp.v2->is_compressed) d.is_compressed = p.data_page_header_v2.is_compressed; else if (!p.data_page_header_v2.is_compressed) d.is_compressed = false;   // default true when absent
    if (p.data_page_header_v2.has_statistics) d.statistics = exp.v2->statistics ? *exp.v2->statistics : pq::Statistics();
    m.v2 = d; }
  return m;
}

static bool decodeModel(const C &c, pq::FileMetaData &f, pq::PageHeader &h, std::string &err) {
  TVal d; size_t used = 0;
  if (!tr::decode(c.model.data(), c.model.size(), d, err, &used)) return false;
  pq::FromDom fd;
  bool ok = c.kind == 0 ? fd.read(d, f) : fd.read(d, h);
  err = fd.err;
  return ok;
}

struct Arena { carquet_arena_t a; bool ok; Arena() { ok = carquet_arena_init(&a) == CARQUET_OK; } ~Arena() { if (ok) carquet_arena_destroy(&a); } };

// --------------------------------------------------------------- w2p
static Verdict runW2P(const C &c) {
  Verdict vd;
  pq::FileMetaData f; pq::PageHeader h; std::string err;
  if (!decodeModel(c, f, h, err)) { vd.vacuous = true; vd.label("model_decode_failed:" + err); return vd; }
  Hold hold; CBuf out; carquet_error_t e = CARQUET_ERROR_INIT;
  TVal expect;
  if (c.kind == 0) {
    parquet_file_metadata_t cf; fillFile(hold, f, cf);
    if (parquet_write_file_metadata(&cf, &out.b, &e) != CARQUET_OK) { vd.vacuous = true; return vd; }
    expect = pq::dom(writerView(f));
    size_t big = 0; for (auto &g : f.row_groups) big = std::max(big, g.columns.size());
    vd.nontrivial = f.schema.size() >= 15 || f.row_groups.size() >= 15 || big >= 15;
    if (vd.nontrivial) vd.label("list>=15");
  } else {
    parquet_page_header_t cp; fillPage(hold, h, cp);
    if (parquet_write_page_header(&cp, &out.b, &e) != CARQUET_OK) { vd.vacuous = true; return vd; }
    expect = pq::dom(writerView(h));
    vd.nontrivial = (h.data && h.data->statistics) || h.v2 || h.crc;
    vd.label(h.data ? "data_page" : h.dict ? "dictionary_page" : "data_page_v2");
  }
  // (2) independent decoder reads the same tree and consumes every byte produced
  TVal got; size_t used = 0;
  bool ok = tr::decode(out.b.data, out.b.size, got, err, &used);
  PBT_CHECK(vd, ok, "independent compact-protocol decoder rejects carquet's bytes: %s", err.c_str());
  PBT_CHECK(vd, used == out.b.size, "independent decoder consumed %zu of %zu bytes produced", used, out.b.size);
  std::string why;
  ok = tr::equal(expect, got, why, "root");
  PBT_CHECK(vd, ok, "bytes do not carry the expected (field id, wire type, value) tree: %s", why.c_str());
  // (1) carquet parses its own bytes back to an equal structure
  Exact in(out.b.data, out.b.size);
  if (c.kind == 0) {
    Arena ar; parquet_file_metadata_t pf;
    carquet_status_t s = parquet_parse_file_metadata(in.p, in.n, &ar.a, &pf, &e);
    PBT_CHECK(vd, s == CARQUET_OK, "parse of own FileMetaData bytes fails: %d %s", (int)s, e.message);
    pq::FileMetaData wv = writerView(f), back;
    for (auto &g : wv.row_groups) for (auto &cc : g.columns) if (cc.meta && cc.meta->statistics) foldEmptyStats(*cc.meta->statistics);
    PBT_CHECK(vd, parsedFile(pf, wv, back, why), "%s", why.c_str());
    ok = tr::equal(pq::dom(wv), pq::dom(back), why, "root");
    PBT_CHECK(vd, ok, "write->parse changed the structure: %s", why.c_str());
  } else {
    parquet_page_header_t pp; size_t br = 12345;
    carquet_status_t s = parquet_parse_page_header(in.p, in.n, &pp, &br, &e);
    PBT_CHECK(vd, s == CARQUET_OK, "parse of own PageHeader bytes fails: %d %s", (int)s, e.message);
    PBT_CHECK(vd, br == in.n, "bytes_read %zu, bytes produced %zu", br, in.n);
    pq::PageHeader wv = writerView(h), back = parsedPage(pp, wv);
    ok = tr::equal(pq::dom(wv), pq::dom(back), why, "root");
    PBT_CHECK(vd, ok, "write->parse changed the page header: %s", why.c_str());
  }
  return vd;
}

// --------------------------------------------------------------- r2p
static Verdict runR2P(const C &c) {
  Verdict vd;
  pq::FileMetaData f; pq::PageHeader h; std::string err, why;
  if (!decodeModel(c, f, h, err)) { vd.vacuous = true; vd.label("model_decode_failed:" + err); return vd; }
  uint64_t s = 0x9E3779B97F4A7C15ull ^ ((uint64_t)c.seed << 1 | 1);
  tf::feat().clear();
  TVal plain = c.kind == 0 ? pq::dom(f) : pq::dom(h);
  TVal deco = tf::decorate(plain, s, c.inject, 0);
  Bytes bytes = tr::encode(deco);
  if (!c.raw.empty()) {   // hand-written encoding of the same structure
    bytes = c.raw;
    TVal chk; size_t used = 0;
    if (!tr::decode(bytes.data(), bytes.size(), chk, err, &used) || used != bytes.size()) { vd.vacuous = true; vd.label("oracle_disagreement"); return vd; }
    deco = chk; tf::feat().insert("hand_written");
  }
  {  // oracle self-check: the reference decoder must read back what the reference encoder wrote
    TVal chk; size_t used = 0;
    if (!tr::decode(bytes.data(), bytes.size(), chk, err, &used) || used != bytes.size() || !tr::equal(deco, chk, why, "root")) { vd.vacuous = true; vd.label("oracle_disagreement"); return vd; }
  }
  for (auto &x : tf::feat()) vd.label(x);
  vd.nontrivial = tf::feat().count("unknown_field_in_nested_struct") || tf::feat().count("list>=15") || tf::feat().count("field_id_gap>15") || tf::feat().count("long_form_field_header");
  if (tf::feat().count("unknown_list_of_bool") && excluded("KF-THRIFT-SKIP-BOOL-LIST")) { vd.excluded = "KF-THRIFT-SKIP-BOOL-LIST"; return vd; }
  Exact in(bytes);
  carquet_error_t e = CARQUET_ERROR_INIT;
  if (c.kind == 0) {
    Arena ar; parquet_file_metadata_t pf;
    carquet_status_t st = parquet_parse_file_metadata(in.p, in.n, &ar.a, &pf, &e);
    PBT_CHECK(vd, st == CARQUET_OK, "parse of a valid compact-protocol FileMetaData fails: %d %s", (int)st, e.message);
    pq::FileMetaData exp = f, back;
    for (auto &g : exp.row_groups) for (auto &cc : g.columns) if (cc.meta && cc.meta->statistics) foldEmptyStats(*cc.meta->statistics);
    PBT_CHECK(vd, parsedFile(pf, exp, back, why), "%s", why.c_str());
    bool ok = tr::equal(pq::dom(exp), pq::dom(back), why, "root");
    PBT_CHECK(vd, ok, "parsed structure differs from the encoded one: %s", why.c_str());
  } else {
    parquet_page_header_t pp; size_t br = 0;
    carquet_status_t st = parquet_parse_page_header(in.p, in.n, &pp, &br, &e);
    PBT_CHECK(vd, st == CARQUET_OK, "parse of a valid compact-protocol PageHeader fails: %d %s", (int)st, e.message);
    PBT_CHECK(vd, br == in.n, "bytes_read %zu, header is %zu bytes", br, in.n);
    pq::PageHeader back = parsedPage(pp, h);
    bool ok = tr::equal(pq::dom(h), pq::dom(back), why, "root");
    PBT_CHECK(vd, ok, "parsed page header differs from the encoded one: %s", why.c_str());
  }
  return vd;
}

int main(int argc, char **argv) {
  add<C>("w2p_file", 2, [] { return genC(0); }, ser, de, runW2P);
  add<C>("w2p_page", 1, [] { return genC(1); }, ser, de, runW2P);
  add<C>("r2p_file", 3, [] { return genC(0); }, ser, de, runR2P);
  add<C>("r2p_page", 1.5, [] { return genC(1); }, ser, de, runR2P);
  return main_(argc, argv);
}
