// C12: encoded bytes follow the Parquet encoding specifications.
// Direction 1: carquet encoder -> independent spec decoder (ref/enc_ref.hpp).
// Direction 2: independent spec encoder (with legal layout freedom) -> carquet decoder.
#include "harness/common/pbt.hpp"
#include "harness/common/carquet_internal.hpp"
#include "gen/seqs.hpp"
#include "ref/enc_ref.hpp"

using namespace pbt;

struct G {
  int w = 0;                    // width / type selector
  std::vector<int64_t> ints;
  std::vector<Bytes> strs;
  // direction-2 layout freedom
  std::vector<int64_t> plan;    // hybrid: per run  kind(0 rle,1 packed), length  (values consumed in order); rle length 0 allowed
  int block = 128, mini = 4, widen = 0, unused = 0, policy = 0, pad = 0;
};
static CaseText ser(const G &g) {
  CaseText t;
  t.put_i("w", g.w);
  t.put_ints("ints", g.ints);
  t.put_i("nstr", (long long)g.strs.size());
  for (size_t i = 0; i < g.strs.size(); i++) t.put_bytes("s" + std::to_string(i), g.strs[i]);
  t.put_ints("plan", g.plan);
  t.put_i("block", g.block); t.put_i("mini", g.mini); t.put_i("widen", g.widen);
  t.put_i("unused", g.unused); t.put_i("policy", g.policy); t.put_i("pad", g.pad);
  return t;
}
static G de(const CaseText &t) {
  G g;
  g.w = (int)t.get_i("w");
  g.ints = t.get_ints<int64_t>("ints");
  long n = t.get_i("nstr", 0);
  for (long i = 0; i < n; i++) g.strs.push_back(t.get_bytes("s" + std::to_string(i)));
  g.plan = t.get_ints<int64_t>("plan");
  g.block = (int)t.get_i("block", 128); g.mini = (int)t.get_i("mini", 4); g.widen = (int)t.get_i("widen", 0);
  g.unused = (int)t.get_i("unused", 0); g.policy = (int)t.get_i("policy", 0); g.pad = (int)t.get_i("pad", 0);
  return g;
}
static std::vector<int64_t> widen64(const std::vector<uint32_t> &v) { return std::vector<int64_t>(v.begin(), v.end()); }

static rc::Gen<int> widthGen(int maxw) {
  return rc::gen::map(rc::gen::weightedOneOf<int>({{3, rc::gen::element(1, 1, 2, 3)}, {2, irange(0, maxw)}, {1, rc::gen::element(0, 7, 8, 9, 15, 16, 17, 31, 32)}}),
                      [maxw](int w) { return std::min(w, maxw); });
}
static rc::Gen<G> genSeq(int maxw) {
  return rc::gen::mapcat(widthGen(maxw), [](int w) {
    return rc::gen::map(gen::anySeq(w), [w](const std::vector<uint32_t> &v) { G g; g.w = w; g.ints = widen64(v); return g; });
  });
}

// =============================================================== direction 1
static Verdict d1Rle(const G &g) {
  Verdict vd;
  std::vector<uint32_t> v(g.ints.begin(), g.ints.end());
  vd.nontrivial = gen::hasUnalignedLongRun(v) || (v.size() > 8 && g.w > 8);
  CBuf out;
  if (carquet_rle_encode_all(v.data(), (int64_t)v.size(), g.w, &out.b) != CARQUET_OK) { vd.vacuous = true; return vd; }
  std::vector<uint32_t> got;
  std::string err;
  bool ok = ref::hybrid_decode(out.b.data, out.b.size, g.w, v.size(), got, err, true);
  PBT_CHECK(vd, ok, "spec decoder rejects carquet's hybrid stream: %s", err.c_str());
  for (size_t i = 0; i < v.size(); i++) PBT_CHECK(vd, got[i] == v[i], "value %zu: spec decoder reads %u, encoded %u", i, got[i], v[i]);
  { std::string ap = appendCheck(out.bytes(), [&](carquet_buffer_t *b) { return carquet_rle_encode_all(v.data(), (int64_t)v.size(), g.w, b); }); PBT_CHECK(vd, ap.empty(), "RLE hybrid: %s", ap.c_str()); }
  // levels entry point emits the same format
  if (g.w <= 15) {
    std::vector<int16_t> lv(g.ints.begin(), g.ints.end());
    CBuf o2;
    if (carquet_rle_encode_levels(lv.data(), (int64_t)lv.size(), g.w, &o2.b) == CARQUET_OK) {
      ok = ref::hybrid_decode(o2.b.data, o2.b.size, g.w, v.size(), got, err, true);
      PBT_CHECK(vd, ok, "spec decoder rejects carquet's level stream: %s", err.c_str());
      for (size_t i = 0; i < v.size(); i++) PBT_CHECK(vd, got[i] == v[i], "level %zu: spec decoder reads %u, encoded %u", i, got[i], v[i]);
    }
  }
  return vd;
}
static rc::Gen<G> genPack() {
  return rc::gen::mapcat(irange(0, 32), [](int w) {
    return rc::gen::mapcat(rc::gen::weightedOneOf<int>({{5, irange(0, 40)}, {1, irange(41, 200)}}), [w](int n) {
      return rc::gen::map(rc::gen::container<std::vector<uint32_t>>((size_t)n, gen::valueOfWidth(w)), [w](const std::vector<uint32_t> &v) { G g; g.w = w; g.ints = widen64(v); return g; });
    });
  });
}
static Verdict d1Bitpack(const G &g) {
  Verdict vd;
  std::vector<uint32_t> v(g.ints.begin(), g.ints.end());
  vd.nontrivial = v.size() >= 2 && g.w >= 2 && g.w % 8 != 0;
  Exact packed(carquet_packed_size(v.size(), g.w));
  size_t wr = carquet_bitpack_32(v.data(), v.size(), g.w, packed.p);
  PBT_CHECK(vd, wr == packed.n, "bitpack_32 wrote %zu bytes, spec size %zu", wr, packed.n);
  ref::BitReader br(packed.p, packed.p + packed.n);
  for (size_t i = 0; i < v.size(); i++) {
    uint64_t x = 0;
    PBT_CHECK(vd, br.get(g.w, x), "packed stream too short at value %zu", i);
    PBT_CHECK(vd, x == v[i], "value %zu: LSB-first reader gets %llu, packed %u (w=%d)", i, (unsigned long long)x, v[i], g.w);
  }
  return vd;
}
static rc::Gen<std::vector<int64_t>> deltaVals(bool is32) {
  auto len = rc::gen::weightedOneOf<int>({{3, rc::gen::element(1, 2, 32, 33, 34, 128, 129, 130, 256, 257, 258, 384, 385, 513, 641, 1025)}, {4, irange(1, 140)}, {1, irange(141, 700)}});
  return rc::gen::mapcat(len, [is32](int n) {
    auto base = is32 ? rc::gen::map(gen::int32Gen(), [](int32_t x) { return (int64_t)x; }) : gen::int64Gen();
    auto arb = rc::gen::container<std::vector<int64_t>>((size_t)n, base);
    auto width = rc::gen::map(rc::gen::tuple(rc::gen::weightedOneOf<int>({{1, rc::gen::just(0)}, {7, irange(0, is32 ? 31 : 63)}}), base,   // width 0: constant values, the most compact stream
                               rc::gen::container<std::vector<uint64_t>>((size_t)n, bits64())),
                              [is32](const std::tuple<int, int64_t, std::vector<uint64_t>> &p) {
                                int w = std::get<0>(p);
                                std::vector<int64_t> v; uint64_t x = (uint64_t)std::get<1>(p);
                                for (uint64_t r : std::get<2>(p)) { x += (w == 0 ? 0 : (r & ((1ull << w) - 1))); v.push_back(is32 ? (int64_t)(int32_t)(uint32_t)x : (int64_t)x); }
                                return v;
                              });
    return rc::gen::weightedOneOf<std::vector<int64_t>>({{2, arb}, {4, width}});
  });
}
static Verdict d1Delta(const G &g) {
  Verdict vd;
  bool is32 = g.w == 32;
  size_t n = g.ints.size();
  size_t cap = 64 + n * 11 + 128 * 9;
  Exact enc(cap);
  size_t written = 0;
  carquet_status_t s;
  if (is32) { std::vector<int32_t> v(g.ints.begin(), g.ints.end()); s = carquet_delta_encode_int32(v.data(), (int32_t)n, enc.p, cap, &written); }
  else s = carquet_delta_encode_int64(g.ints.data(), (int32_t)n, enc.p, cap, &written);
  if (s != CARQUET_OK) { vd.vacuous = true; return vd; }
  std::vector<int64_t> got;
  std::string err;
  size_t consumed = 0, mw = 0;
  bool ok = ref::delta_decode(enc.p, written, is32, got, err, &consumed, &mw);
  if (mw > 32) {
    vd.label("delta_width>32");
    if (excluded("KF-DELTA-WIDE")) { vd.excluded = "KF-DELTA-WIDE"; return vd; }
  }
  vd.nontrivial = n > 129 || mw > 32 || (mw % 8 != 0 && n > 33);
  PBT_CHECK(vd, ok, "spec decoder rejects carquet's delta stream: %s (n=%zu, widest mini-block %zu bits)", err.c_str(), n, mw);
  PBT_CHECK(vd, got.size() == n, "spec decoder reads %zu values, %zu were encoded", got.size(), n);
  for (size_t i = 0; i < n; i++)
    PBT_CHECK(vd, got[i] == (is32 ? (int64_t)(int32_t)g.ints[i] : g.ints[i]), "value %zu: spec decoder reads %lld, encoded %lld (widest mini-block %zu bits)", i, (long long)got[i], (long long)g.ints[i], mw);
  PBT_CHECK(vd, consumed == written, "spec decoder consumes %zu of %zu bytes written", consumed, written);
  return vd;
}
static rc::Gen<G> genStrs() {
  auto plain = rc::gen::container<std::vector<Bytes>>(gen::bytesGen(30));
  auto chain = rc::gen::map(rc::gen::container<std::vector<std::tuple<int, Bytes>>>(rc::gen::tuple(irange(0, 40), gen::bytesGen(12))),
                            [](const std::vector<std::tuple<int, Bytes>> &s) {
                              std::vector<Bytes> out; Bytes prev;
                              for (auto &t : s) { size_t k = std::min<size_t>((size_t)std::get<0>(t), prev.size()); Bytes b(prev.begin(), prev.begin() + k);
                                b.insert(b.end(), std::get<1>(t).begin(), std::get<1>(t).end()); out.push_back(b); prev = b; }
                              return out;
                            });
  return rc::gen::mapcat(rc::gen::weightedOneOf<std::vector<Bytes>>({{1, plain}, {2, chain}}), [](const std::vector<Bytes> &s) {
    return rc::gen::map(rc::gen::tuple(irange(0, 2), rc::gen::element(0, 0, 1, 5), rc::gen::arbitrary<uint8_t>()), [s](const std::tuple<int, int, uint8_t> &t) {
      G g; g.strs = s; g.policy = std::get<0>(t); g.widen = std::get<1>(t); g.unused = std::get<2>(t); return g; });
  });
}
static Verdict d1Strings(const G &g, bool incremental) {
  Verdict vd;
  size_t n = g.strs.size();
  if (n == 0) { vd.vacuous = true; return vd; }
  std::vector<Bytes> copy = g.strs;
  std::vector<carquet_byte_array_t> arr(n);
  size_t shared = 0;
  for (size_t i = 0; i < n; i++) { arr[i].data = copy[i].data(); arr[i].length = (int32_t)copy[i].size();
    if (i && !copy[i].empty() && !copy[i - 1].empty() && copy[i][0] == copy[i - 1][0]) shared++; }
  vd.nontrivial = n >= 2 && (!incremental || shared > 0);
  CBuf out;
  carquet_status_t s = incremental ? carquet_delta_strings_encode(arr.data(), (int32_t)n, &out.b) : carquet_delta_length_encode(arr.data(), (int32_t)n, &out.b);
  if (s != CARQUET_OK) { vd.vacuous = true; return vd; }
  std::vector<Bytes> got;
  std::string err;
  size_t consumed = 0;
  bool ok = incremental ? ref::delta_strings_decode(out.b.data, out.b.size, got, err, &consumed) : ref::delta_length_decode(out.b.data, out.b.size, got, err, &consumed);
  PBT_CHECK(vd, ok, "spec decoder rejects carquet's stream: %s", err.c_str());
  PBT_CHECK(vd, got.size() == n && consumed == out.b.size, "spec decoder reads %zu values / %zu bytes; encoded %zu values / %zu bytes", got.size(), consumed, n, out.b.size);
  for (size_t i = 0; i < n; i++) PBT_CHECK(vd, got[i] == g.strs[i], "value %zu differs after spec decoding", i);
  std::string ap = appendCheck(out.bytes(), [&](carquet_buffer_t *b) { return incremental ? carquet_delta_strings_encode(arr.data(), (int32_t)n, b) : carquet_delta_length_encode(arr.data(), (int32_t)n, b); });
  PBT_CHECK(vd, ap.empty(), "%s: %s", incremental ? "DELTA_BYTE_ARRAY" : "DELTA_LENGTH_BYTE_ARRAY", ap.c_str());
  return vd;
}
static rc::Gen<G> genBss() {
  return rc::gen::mapcat(rc::gen::weightedOneOf<int>({{2, rc::gen::just(4)}, {2, rc::gen::just(8)}, {3, rc::gen::map(irange(1, 20), [](int L) { return 100 + L; })}}), [](int w) {
    int L = w >= 100 ? w - 100 : w;
    // rarely a count around 32768 / 65536 (block-wise kernels, 16-bit counters); those bytes come from a seeded xorshift
    return rc::gen::mapcat(rc::gen::weightedOneOf<int>({{240, irange(0, 70)}, {60, irange(71, 600)}, {L <= 8 ? 5 : 0, rc::gen::element(32767, 32768, 32769, 32784, 40000, 65535, 65536, 65537, 70001)}}), [w, L](int n) {
      if (n > 600) return rc::gen::map(bits64(), [w, L, n](uint64_t seed) { Bytes b((size_t)n * (size_t)L); uint64_t s = seed | 1; for (auto &x : b) { s ^= s << 13; s ^= s >> 7; s ^= s << 17; x = (uint8_t)(s >> 24); } G g; g.w = w; g.strs.push_back(b); return g; });
      return rc::gen::map(rc::gen::container<Bytes>((size_t)(n * L), rc::gen::arbitrary<uint8_t>()), [w](const Bytes &b) { G g; g.w = w; g.strs.push_back(b); return g; });
    });
  });
}
static Verdict bssBoth(const G &g) {
  Verdict vd;
  size_t L = g.w >= 100 ? g.w - 100 : g.w;
  const Bytes &flat = g.strs.at(0);
  size_t n = flat.size() / L;
  vd.nontrivial = n >= 2 && L >= 2;
  Bytes want = ref::bss_encode(flat, L);
  Exact in(flat), enc(n * L), dst(n * L);
  size_t written = 0;
  carquet_status_t s;
  if (g.w == 4) s = carquet_byte_stream_split_encode_float(in.as<float>(), (int64_t)n, enc.p, enc.n, &written);
  else if (g.w == 8) s = carquet_byte_stream_split_encode_double(in.as<double>(), (int64_t)n, enc.p, enc.n, &written);
  else s = carquet_byte_stream_split_encode(in.p, (int64_t)n, (int32_t)L, enc.p, enc.n, &written);
  if (s == CARQUET_OK) {
    PBT_CHECK(vd, written == want.size() && memcmp(enc.p, want.data(), want.size()) == 0, "encoder output differs from the K-streams layout (n=%zu L=%zu)", n, L);
  } else vd.vacuous = true;
  Exact renc(want);
  if (g.w == 4) s = carquet_byte_stream_split_decode_float(renc.p, renc.n, dst.as<float>(), (int64_t)n);
  else if (g.w == 8) s = carquet_byte_stream_split_decode_double(renc.p, renc.n, dst.as<double>(), (int64_t)n);
  else s = carquet_byte_stream_split_decode(renc.p, renc.n, (int32_t)L, dst.p, (int64_t)n);
  PBT_CHECK(vd, s == CARQUET_OK, "decoder rejects a spec stream: %d", (int)s);
  PBT_CHECK(vd, memcmp(dst.p, flat.data(), n * L) == 0, "decoder output differs from the encoded values (n=%zu L=%zu)", n, L);
  return vd;
}
// PLAIN, both directions, byte-exact.  w: 0 bool,1 i32,2 i64,3 i96,4 f32,5 f64,6 byte_array,100+L fixed
static rc::Gen<G> genPlain() {
  auto fixed = [](int esz) {
    return rc::gen::map(rc::gen::container<std::vector<Bytes>>(rc::gen::container<Bytes>((size_t)esz, rc::gen::arbitrary<uint8_t>())), [](const std::vector<Bytes> &s) { G g; g.strs = s; return g; });
  };
  auto withw = [](rc::Gen<G> gg, int w) { return rc::gen::map(gg, [w](G g) { g.w = w; return g; }); };
  return rc::gen::mapcat(rc::gen::element(0, 1, 2, 3, 4, 5, 6, 7), [=](int k) -> rc::Gen<G> {
    switch (k) {
      case 0: return withw(rc::gen::map(rc::gen::container<std::vector<uint8_t>>(rc::gen::element<uint8_t>(0, 1, 0, 1, 0, 1, 2, 0x80, 0xff, 0xfe)),   /* the encoder takes 0 / non-0 */ [](const std::vector<uint8_t> &b) { G g; g.ints.assign(b.begin(), b.end()); return g; }), 0);
      case 1: case 4: return withw(rc::gen::map(rc::gen::container<std::vector<uint32_t>>(gen::f32bits()), [](const std::vector<uint32_t> &b) { G g; g.ints.assign(b.begin(), b.end()); return g; }), k);
      case 2: case 5: return withw(rc::gen::map(rc::gen::container<std::vector<uint64_t>>(gen::f64bits()), [](const std::vector<uint64_t> &b) { G g; for (auto x : b) g.ints.push_back((int64_t)x); return g; }), k);
      case 3: return withw(fixed(12), 3);
      case 6: return withw(rc::gen::map(rc::gen::container<std::vector<Bytes>>(gen::bytesGen(40)), [](const std::vector<Bytes> &s) { G g; g.strs = s; return g; }), 6);
      default: return rc::gen::mapcat(irange(1, 20), [=](int L) { return withw(fixed(L), 100 + L); });
    }
  });
}
static Verdict plainBoth(const G &g) {
  Verdict vd;
  CBuf out;
  Bytes want;
  size_t n = (g.w == 3 || g.w == 6 || g.w >= 100) ? g.strs.size() : g.ints.size();
  vd.nontrivial = n >= 2;
  carquet_status_t s = CARQUET_OK;
  if (g.w == 0) { std::vector<uint8_t> v(g.ints.begin(), g.ints.end()); want = ref::plain_bool(v); Exact in(v); s = carquet_encode_plain_boolean(in.p, (int64_t)n, &out.b);
    if (s == CARQUET_OK) PBT_CHECK(vd, out.bytes() == want, "PLAIN boolean bytes differ from the spec layout (n=%zu)", n);
    Exact e(want), d(n); int64_t r = carquet_decode_plain_boolean(e.p, e.n, d.p, (int64_t)n);
    std::vector<uint8_t> canon(v); for (auto &x : canon) x = x ? 1 : 0;
    PBT_CHECK(vd, r == (int64_t)want.size() && memcmp(d.p, canon.data(), n) == 0, "PLAIN boolean decode of spec bytes wrong (r=%lld)", (long long)r);
  } else if (g.w == 1 || g.w == 4) { std::vector<uint32_t> v(g.ints.begin(), g.ints.end()); want = ref::plain_le(v); Exact in(want);
    s = g.w == 1 ? carquet_encode_plain_int32(in.as<int32_t>(), (int64_t)n, &out.b) : carquet_encode_plain_float(in.as<float>(), (int64_t)n, &out.b);
    if (s == CARQUET_OK) PBT_CHECK(vd, out.bytes() == want, "PLAIN 4-byte values are not little-endian as specified");
    Exact d(n * 4); int64_t r = g.w == 1 ? carquet_decode_plain_int32(in.p, in.n, d.as<int32_t>(), (int64_t)n) : carquet_decode_plain_float(in.p, in.n, d.as<float>(), (int64_t)n);
    PBT_CHECK(vd, r == (int64_t)want.size() && memcmp(d.p, v.data(), n * 4) == 0, "PLAIN 4-byte decode of spec bytes wrong");
  } else if (g.w == 2 || g.w == 5) { std::vector<uint64_t> v(g.ints.begin(), g.ints.end()); want = ref::plain_le(v); Exact in(want);
    s = g.w == 2 ? carquet_encode_plain_int64(in.as<int64_t>(), (int64_t)n, &out.b) : carquet_encode_plain_double(in.as<double>(), (int64_t)n, &out.b);
    if (s == CARQUET_OK) PBT_CHECK(vd, out.bytes() == want, "PLAIN 8-byte values are not little-endian as specified");
    Exact d(n * 8); int64_t r = g.w == 2 ? carquet_decode_plain_int64(in.p, in.n, d.as<int64_t>(), (int64_t)n) : carquet_decode_plain_double(in.p, in.n, d.as<double>(), (int64_t)n);
    PBT_CHECK(vd, r == (int64_t)want.size() && memcmp(d.p, v.data(), n * 8) == 0, "PLAIN 8-byte decode of spec bytes wrong");
  } else if (g.w == 6) { want = ref::plain_byte_arrays(g.strs);
    std::vector<Bytes> copy = g.strs; std::vector<carquet_byte_array_t> arr(n);
    for (size_t i = 0; i < n; i++) { arr[i].data = copy[i].data(); arr[i].length = (int32_t)copy[i].size(); }
    if (n) s = carquet_encode_plain_byte_array(arr.data(), (int64_t)n, &out.b);
    if (s == CARQUET_OK && n) PBT_CHECK(vd, out.bytes() == want, "PLAIN byte arrays are not <4-byte LE length><bytes>");
    if (n) { Exact e(want); std::vector<carquet_byte_array_t> got(n); int64_t r = carquet_decode_plain_byte_array(e.p, e.n, got.data(), (int64_t)n);
      PBT_CHECK(vd, r == (int64_t)want.size(), "PLAIN byte array decode consumed %lld of %zu", (long long)r, want.size());
      for (size_t i = 0; i < n; i++) PBT_CHECK(vd, got[i].length == (int32_t)g.strs[i].size() && memcmp(got[i].data, g.strs[i].data(), g.strs[i].size()) == 0, "PLAIN byte array %zu differs", i); }
  } else { size_t L = g.w == 3 ? 12 : (size_t)(g.w - 100);
    for (auto &x : g.strs) want.insert(want.end(), x.begin(), x.end());
    Exact in(want);
    if (n) s = g.w == 3 ? carquet_encode_plain_int96(in.as<carquet_int96_t>(), (int64_t)n, &out.b) : carquet_encode_plain_fixed_byte_array(in.p, (int64_t)n, (int32_t)L, &out.b);
    if (s == CARQUET_OK && n) PBT_CHECK(vd, out.bytes() == want, "PLAIN fixed-width values are not stored back to back");
    if (n) { Exact d(n * L); int64_t r = g.w == 3 ? carquet_decode_plain_int96(in.p, in.n, d.as<carquet_int96_t>(), (int64_t)n) : carquet_decode_plain_fixed_byte_array(in.p, in.n, d.p, (int64_t)n, (int32_t)L);
      PBT_CHECK(vd, r == (int64_t)want.size() && memcmp(d.p, want.data(), want.size()) == 0, "PLAIN fixed-width decode of spec bytes wrong"); }
  }
  if (s != CARQUET_OK) vd.vacuous = true;
  return vd;
}

// =============================================================== direction 2
// hybrid plan: the value sequence is cut into runs; kind 0 = RLE (all values of
// the cut must be equal, else it is emitted bit-packed), kind 1 = bit-packed;
// zero-length RLE runs and zero-group packed runs may be inserted.
static rc::Gen<G> genPlan() {
  return rc::gen::mapcat(genSeq(32), [](const G &g0) {
    auto cut = rc::gen::pair(irange(0, 1), rc::gen::weightedOneOf<int>({{3, irange(0, 9)}, {2, rc::gen::element(8, 16, 24, 64)}, {1, irange(0, 300)}}));
    return rc::gen::map(rc::gen::tuple(rc::gen::container<std::vector<std::pair<int, int>>>(cut), rc::gen::arbitrary<uint8_t>()),
                        [g0](const std::tuple<std::vector<std::pair<int, int>>, uint8_t> &t) {
                          G g = g0;
                          for (auto &c : std::get<0>(t)) { g.plan.push_back(c.first); g.plan.push_back(c.second); }
                          g.pad = std::get<1>(t);
                          return g;
                        });
  });
}
static std::vector<ref::Run> buildPlan(const G &g, std::vector<uint32_t> &v, std::vector<std::string> &feat) {
  std::vector<ref::Run> plan;
  v.assign(g.ints.begin(), g.ints.end());
  size_t pos = 0;
  auto addPacked = [&](size_t len, bool last) {
    // a packed run that is not the last one must hold whole groups
    if (!last) len = len / 8 * 8;
    ref::Run r; r.rle = false;
    r.vals.assign(v.begin() + pos, v.begin() + pos + len);
    pos += len;
    if (len > 8) feat.push_back("multi_group_packed_run");
    if (len % 8) feat.push_back("padded_final_group");
    if (len == 0) feat.push_back("zero_group_packed_run");
    plan.push_back(r);
  };
  for (size_t i = 0; i + 1 < g.plan.size() && pos < v.size(); i += 2) {
    int kind = (int)g.plan[i];
    size_t len = std::min<size_t>((size_t)g.plan[i + 1], v.size() - pos);
    if (kind == 0) {
      size_t k = 0;
      while (k < len && v[pos + k] == v[pos]) k++;
      ref::Run r; r.rle = true; r.count = k; r.vals = {v[pos]};
      if (k == 0) feat.push_back("zero_length_rle_run");
      else if (k < 8) feat.push_back("rle_run<8");
      pos += k;
      plan.push_back(r);
    } else {
      addPacked(len, pos + len == v.size());
    }
  }
  if (pos < v.size()) {
    // remainder: canonical plan
    std::vector<uint32_t> rest(v.begin() + pos, v.end());
    for (auto &r : ref::hybrid_plan_simple(rest)) plan.push_back(r);
  }
  return plan;
}
static Verdict d2Rle(const G &g) {
  Verdict vd;
  std::vector<uint32_t> v;
  std::vector<std::string> feat;
  auto plan = buildPlan(g, v, feat);
  uint32_t pad = (uint32_t)g.pad & gen::maskw(g.w);
  Bytes enc = ref::hybrid_encode(plan, g.w, pad);
  {  // reference self-check: the strict spec decoder must read the plan back
    std::vector<uint32_t> chk; std::string err;
    if (!ref::hybrid_decode(enc.data(), enc.size(), g.w, v.size(), chk, err, false) || chk != v) { vd.vacuous = true; vd.label("oracle_disagreement"); return vd; }
  }
  std::set<std::string> fs(feat.begin(), feat.end());
  for (auto &f : fs) vd.label(f);
  vd.nontrivial = !fs.empty() && v.size() >= 2;
  size_t n = v.size();
  Exact in(enc);
  {
    Exact dst(n * 4);
    int64_t r = carquet_rle_decode_all(in.p, in.n, g.w, dst.as<uint32_t>(), (int64_t)n);
    PBT_CHECK(vd, r == (int64_t)n, "decode_all returns %lld of %zu values of a spec stream", (long long)r, n);
    for (size_t i = 0; i < n; i++) PBT_CHECK(vd, dst.as<uint32_t>()[i] == v[i], "decode_all value %zu: %u, stream holds %u", i, dst.as<uint32_t>()[i], v[i]);
  }
  if (g.w <= 15) {
    Exact dst(n * 2);
    int64_t r = carquet_rle_decode_levels(in.p, in.n, g.w, dst.as<int16_t>(), (int64_t)n);
    PBT_CHECK(vd, r == (int64_t)n, "decode_levels returns %lld of %zu values of a spec stream", (long long)r, n);
    for (size_t i = 0; i < n; i++) PBT_CHECK(vd, (uint32_t)dst.as<int16_t>()[i] == v[i], "decode_levels value %zu: %d, stream holds %u", i, dst.as<int16_t>()[i], v[i]);
  }
  {  // streaming: single gets
    carquet_rle_decoder_t dec;
    carquet_rle_decoder_init(&dec, in.p, in.n, g.w);
    for (size_t i = 0; i < n; i++) {
      uint32_t x = carquet_rle_decoder_get(&dec);
      PBT_CHECK(vd, carquet_rle_decoder_status(&dec) == CARQUET_OK, "streaming decoder fails on a spec stream at value %zu", i);
      PBT_CHECK(vd, x == v[i], "streaming get %zu: %u, stream holds %u", i, x, v[i]);
    }
  }
  return vd;
}
static Verdict d2Bitunpack(const G &g) {
  Verdict vd;
  std::vector<uint32_t> v(g.ints.begin(), g.ints.end());
  vd.nontrivial = v.size() >= 2 && g.w >= 2 && g.w % 8 != 0;
  Bytes enc;
  ref::BitWriter bw(enc);
  for (auto x : v) bw.put(x, g.w);
  bw.flush();
  Exact in(enc), dst(v.size() * 4);
  size_t rd = carquet_bitunpack_32(in.p, v.size(), g.w, dst.as<uint32_t>());
  PBT_CHECK(vd, rd == enc.size(), "bitunpack_32 consumed %zu of %zu bytes", rd, enc.size());
  for (size_t i = 0; i < v.size(); i++) PBT_CHECK(vd, dst.as<uint32_t>()[i] == v[i], "value %zu: %u, packed %u (w=%d)", i, dst.as<uint32_t>()[i], v[i], g.w);
  return vd;
}
static rc::Gen<G> genDeltaD2(bool is32) {
  return rc::gen::mapcat(deltaVals(is32), [is32](const std::vector<int64_t> &v) {
    auto geom = rc::gen::weightedOneOf<std::pair<int, int>>({
        {4, rc::gen::just(std::make_pair(128, 4))},
        {3, rc::gen::element(std::make_pair(128, 1), std::make_pair(128, 2), std::make_pair(256, 8), std::make_pair(256, 4), std::make_pair(256, 2), std::make_pair(256, 1),
                             std::make_pair(512, 16), std::make_pair(512, 8), std::make_pair(512, 4), std::make_pair(384, 4), std::make_pair(1024, 32))}});
    return rc::gen::map(rc::gen::tuple(geom, rc::gen::element(0, 0, 0, 1, 3, 9), rc::gen::arbitrary<uint8_t>()),
                        [v, is32](const std::tuple<std::pair<int, int>, int, uint8_t> &t) {
                          G g; g.w = is32 ? 32 : 64; g.ints = v; g.block = std::get<0>(t).first; g.mini = std::get<0>(t).second; g.widen = std::get<1>(t); g.unused = std::get<2>(t); return g;
                        });
  });
}
static Verdict d2Delta(const G &g) {
  Verdict vd;
  bool is32 = g.w == 32;
  size_t n = g.ints.size();
  ref::DeltaGeom geom; geom.block = (uint32_t)g.block; geom.mini = (uint32_t)g.mini; geom.widen = g.widen; geom.unused_width = (uint8_t)g.unused;
  Bytes enc = ref::delta_encode(g.ints, is32, geom);
  size_t mw = 0;
  { std::vector<int64_t> chk; std::string err; size_t c = 0;
    bool ok = ref::delta_decode(enc.data(), enc.size(), is32, chk, err, &c, &mw);
    bool same = ok && chk.size() == n && c == enc.size();
    for (size_t i = 0; same && i < n; i++) same = chk[i] == (is32 ? (int64_t)(int32_t)g.ints[i] : g.ints[i]);
    if (!same) { vd.vacuous = true; vd.label("oracle_disagreement"); return vd; } }
  bool std_geom = g.block == 128 && g.mini == 4;
  if (!std_geom) vd.label("non_default_block_geometry");
  if (mw > 32) vd.label("delta_width>32");
  if (g.widen) vd.label("wider_than_necessary");
  if (g.unused && (n - 1) % (size_t)g.block != 0) vd.label("arbitrary_width_byte_for_unused_miniblock");
  if (mw > 32 && excluded("KF-DELTA-WIDE")) { vd.excluded = "KF-DELTA-WIDE"; return vd; }
  if (!std_geom && excluded("KF-DELTA-GEOMETRY")) { vd.excluded = "KF-DELTA-GEOMETRY"; return vd; }
  vd.nontrivial = !std_geom || g.widen || mw > 32 || (g.unused && n > 1);
  Exact in(enc);
  size_t consumed = 0;
  carquet_status_t s;
  if (is32) {
    Exact dst(n * 4);
    s = carquet_delta_decode_int32(in.p, in.n, dst.as<int32_t>(), (int32_t)n, &consumed);
    PBT_CHECK(vd, s == CARQUET_OK, "decoder rejects a spec stream (block %d, %d mini-blocks, widest %zu bits, n=%zu): status %d", g.block, g.mini, mw, n, (int)s);
    for (size_t i = 0; i < n; i++) PBT_CHECK(vd, dst.as<int32_t>()[i] == (int32_t)g.ints[i], "value %zu: %d, stream holds %d (block %d/%d, widest %zu bits)", i, dst.as<int32_t>()[i], (int32_t)g.ints[i], g.block, g.mini, mw);
  } else {
    Exact dst(n * 8);
    s = carquet_delta_decode_int64(in.p, in.n, dst.as<int64_t>(), (int32_t)n, &consumed);
    PBT_CHECK(vd, s == CARQUET_OK, "decoder rejects a spec stream (block %d, %d mini-blocks, widest %zu bits, n=%zu): status %d", g.block, g.mini, mw, n, (int)s);
    for (size_t i = 0; i < n; i++) PBT_CHECK(vd, dst.as<int64_t>()[i] == g.ints[i], "value %zu: %lld, stream holds %lld (block %d/%d, widest %zu bits)", i, (long long)dst.as<int64_t>()[i], (long long)g.ints[i], g.block, g.mini, mw);
  }
  PBT_CHECK(vd, consumed == enc.size(), "decoder consumed %zu of %zu bytes", consumed, enc.size());
  return vd;
}
static Verdict d2Strings(const G &g, bool incremental) {
  Verdict vd;
  size_t n = g.strs.size();
  if (n == 0) { vd.vacuous = true; return vd; }
  ref::DeltaGeom geom; geom.widen = g.widen; geom.unused_width = (uint8_t)g.unused;
  Bytes enc = incremental ? ref::delta_strings_encode(g.strs, g.policy, geom) : ref::delta_length_encode(g.strs, geom);
  size_t total = 0;
  for (auto &s : g.strs) total += s.size();
  vd.nontrivial = n >= 2 && total > 0 && (g.policy != 0 || g.widen || !incremental);
  if (incremental && g.policy == 2) vd.label("shorter_than_longest_prefix");
  if (incremental && g.policy == 1) vd.label("no_prefix_sharing");
  Exact in(enc), work(total);
  std::vector<carquet_byte_array_t> got(n);
  size_t consumed = 0;
  carquet_status_t s = incremental ? carquet_delta_strings_decode(in.p, in.n, got.data(), (int32_t)n, work.p, total, &consumed)
                                   : carquet_delta_length_decode(in.p, in.n, got.data(), (int32_t)n, &consumed);
  PBT_CHECK(vd, s == CARQUET_OK, "decoder rejects a spec stream: status %d (n=%zu)", (int)s, n);
  PBT_CHECK(vd, consumed == enc.size(), "decoder consumed %zu of %zu bytes", consumed, enc.size());
  for (size_t i = 0; i < n; i++)
    PBT_CHECK(vd, got[i].length == (int32_t)g.strs[i].size() && memcmp(got[i].data, g.strs[i].data(), g.strs[i].size()) == 0, "value %zu differs", i);
  return vd;
}

// spec example vectors: a broken reference must not be able to accuse carquet
static void selfcheck() {
  using namespace ref;
  std::vector<Run> plan(1);
  plan[0].rle = false;
  plan[0].vals = {0, 1, 2, 3, 4, 5, 6, 7};
  Bytes b = hybrid_encode(plan, 3);
  const uint8_t want[] = {0x03, 0x88, 0xC6, 0xFA};
  if (b.size() != 4 || memcmp(b.data(), want, 4) != 0) { fprintf(stderr, "reference hybrid encoder fails the spec vector\n"); exit(5); }
  Bytes d = delta_encode({7, 5, 3, 1, 2, 3, 4, 5}, false);
  // header 128,4,8,zigzag(7)=14 ; block: zigzag(-2)=3, widths 2,0,0,0 ; 32 values at 2 bits = 8 bytes: C0 3F 00...
  const uint8_t dw[] = {0x80, 0x01, 0x04, 0x08, 0x0e, 0x03, 0x02, 0x00, 0x00, 0x00, 0xC0, 0x3F, 0, 0, 0, 0, 0, 0};
  if (d.size() != sizeof dw || memcmp(d.data(), dw, sizeof dw) != 0) { fprintf(stderr, "reference delta encoder fails the spec vector\n"); exit(5); }
}

int main(int argc, char **argv) {
  selfcheck();
  add<G>("d1_rle", 2, [] { return genSeq(32); }, ser, de, d1Rle);
  add<G>("d1_bitpack", 1, genPack, ser, de, d1Bitpack);
  add<G>("d1_delta32", 1.5, [] { return rc::gen::map(deltaVals(true), [](const std::vector<int64_t> &v) { G g; g.w = 32; g.ints = v; return g; }); }, ser, de, d1Delta);
  add<G>("d1_delta64", 1.5, [] { return rc::gen::map(deltaVals(false), [](const std::vector<int64_t> &v) { G g; g.w = 64; g.ints = v; return g; }); }, ser, de, d1Delta);
  add<G>("d1_delta_length", 0.7, genStrs, ser, de, [](const G &g) { return d1Strings(g, false); });
  add<G>("d1_delta_strings", 0.7, genStrs, ser, de, [](const G &g) { return d1Strings(g, true); });
  add<G>("bss_both", 1, genBss, ser, de, bssBoth);
  add<G>("plain_both", 1, genPlain, ser, de, plainBoth);
  add<G>("d2_rle", 3, genPlan, ser, de, d2Rle);
  add<G>("d2_bitunpack", 1, genPack, ser, de, d2Bitunpack);
  add<G>("d2_delta32", 1.5, [] { return genDeltaD2(true); }, ser, de, d2Delta);
  add<G>("d2_delta64", 1.5, [] { return genDeltaD2(false); }, ser, de, d2Delta);
  add<G>("d2_delta_length", 0.7, genStrs, ser, de, [](const G &g) { return d2Strings(g, false); });
  add<G>("d2_delta_strings", 0.7, genStrs, ser, de, [](const G &g) { return d2Strings(g, true); });
  return main_(argc, argv);
}
