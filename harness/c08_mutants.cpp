// C08, rapidcheck engine: near-valid inputs.  A valid encoding is produced by the independent reference encoders
// (ref/enc_ref.hpp, system codec libraries, reference Parquet writer for footers / page headers); then parameters and
// bytes are perturbed (byte edits, truncation, boundary varints and 32-bit words, operand-hungry last byte, wrong count,
// wrong bit width, wrong capacity, deep nesting of unknown thrift containers) and the decoder contract of
// harness/common/decoders.hpp is checked.  The unperturbed call is part of the domain too (it must succeed).
#include "harness/common/pbt.hpp"
#include "harness/common/decoders.hpp"
#include "gen/seqs.hpp"
#include "gen/bytes.hpp"
#include "gen/files.hpp"
#include "ref/enc_ref.hpp"
#include "ref/parquet_writer.hpp"
#include <sys/stat.h>

using namespace pbt;

struct C { dc::Call call; int valid = 0; std::string how; Bytes pre, unit; long rep_count = 0; bool multi = false; };
static Bytes fullInput(const C &c) { Bytes b = c.pre; for (long i = 0; i < c.rep_count; i++) b.insert(b.end(), c.unit.begin(), c.unit.end()); b.insert(b.end(), c.call.in.begin(), c.call.in.end()); return b; }
static CaseText ser(const C &c) {
  CaseText t; t.put_i("fam", c.call.fam); t.put_i("sub", c.call.sub); t.put_i("bw", c.call.bw); t.put_i("n", c.call.n); t.put_i("m", c.call.m); t.put_i("tl", c.call.tl);
  t.put_i("valid", c.valid); t.put("how", c.how); t.put_bytes("pre", c.pre); t.put_bytes("unit", c.unit); t.put_i("rep_count", c.rep_count);
  t.put_bytes("in", c.call.in); t.put_bytes("in2", c.call.in2); return t;
}
static C de(const CaseText &t) {
  C c; c.call.fam = (int)t.get_i("fam"); c.call.sub = (int)t.get_i("sub"); c.call.bw = (int)t.get_i("bw"); c.call.n = t.get_i("n"); c.call.m = t.get_i("m"); c.call.tl = (int)t.get_i("tl");
  c.valid = (int)t.get_i("valid", 0); c.how = t.get_or("how", ""); if (t.has("pre")) c.pre = t.get_bytes("pre"); if (t.has("unit")) c.unit = t.get_bytes("unit"); c.rep_count = (long)t.get_i("rep_count", 0);
  c.call.in = t.get_bytes("in"); c.call.in2 = t.get_bytes("in2"); return c;
}

// ----------------------------------------------------------------------------- valid encodings
static Bytes le32(uint32_t v) { return Bytes{(uint8_t)v, (uint8_t)(v >> 8), (uint8_t)(v >> 16), (uint8_t)(v >> 24)}; }
static rc::Gen<std::vector<Bytes>> stringsGen() {
  auto word = rc::gen::weightedOneOf<Bytes>({{3, gen::bytesGen(12)}, {1, gen::bytesGen(300)}, {2, rc::gen::element(Bytes{'a', 'b', 'c'}, Bytes{'a', 'b', 'c', 'd'}, Bytes{'a', 'b'}, Bytes{})}});
  return rc::gen::container<std::vector<Bytes>>(word);
}

static C validRle() {
  C c; c.call.fam = dc::RLE; c.call.sub = *irange(0, 3);
  int w = *rc::gen::weightedOneOf<int>({{4, irange(0, 8)}, {2, irange(9, 32)}, {1, rc::gen::element(1, 16, 31, 32)}});
  if (c.call.sub == 1 || c.call.sub == 2) w = std::min(w, 15);
  std::vector<uint32_t> v = *gen::anySeq(w);
  Bytes enc = ref::hybrid_encode(ref::hybrid_plan_simple(v), w);
  c.call.bw = w; c.call.n = (int64_t)v.size();
  if (c.call.sub == 2) { Bytes p = le32((uint32_t)enc.size()); p.insert(p.end(), enc.begin(), enc.end()); Bytes junk = *gen::bytesGen(6); p.insert(p.end(), junk.begin(), junk.end()); enc = p; }
  c.call.in = enc;
  if (c.call.sub == 3) c.call.in2 = *rc::gen::resize(40, rc::gen::container<Bytes>(rc::gen::arbitrary<uint8_t>()));
  return c;
}
static C validPlain() {
  C c; c.call.fam = dc::PLAIN; c.call.sub = *irange(0, 8);
  int ty = c.call.sub <= 7 ? c.call.sub : *irange(0, 7);
  int n = *rc::gen::weightedOneOf<int>({{5, irange(0, 40)}, {1, irange(41, 600)}});
  c.call.bw = ty; c.call.n = n;
  switch (ty) {
    case 0: { std::vector<uint8_t> v; for (int i = 0; i < n; i++) v.push_back((uint8_t)*irange(0, 1)); c.call.in = ref::plain_bool(v); break; }
    case 1: case 4: { std::vector<uint32_t> v; for (int i = 0; i < n; i++) v.push_back(*gen::f32bits()); c.call.in = ref::plain_le(v); break; }
    case 2: case 5: { std::vector<uint64_t> v; for (int i = 0; i < n; i++) v.push_back(*gen::f64bits()); c.call.in = ref::plain_le(v); break; }
    case 3: { std::vector<uint32_t> v; for (int i = 0; i < n * 3; i++) v.push_back(*gen::f32bits()); c.call.in = ref::plain_le(v); break; }
    case 6: { std::vector<Bytes> v = *stringsGen(); c.call.n = (int64_t)v.size(); c.call.in = ref::plain_byte_arrays(v); break; }
    default: { int tl = *rc::gen::weightedOneOf<int>({{4, irange(1, 20)}, {1, rc::gen::element(1, 2, 16, 255, 1000)}}); c.call.tl = tl; c.call.in = *rc::gen::container<Bytes>((size_t)n * (size_t)tl, rc::gen::arbitrary<uint8_t>()); break; }
  }
  return c;
}
static C validDelta() {
  C c; c.call.fam = dc::DELTA; c.call.sub = *irange(0, 3);
  if (c.call.sub <= 1) {
    bool is32 = c.call.sub == 0;
    int n = *rc::gen::weightedOneOf<int>({{5, irange(1, 70)}, {2, irange(71, 700)}});
    std::vector<int64_t> v; for (int i = 0; i < n; i++) v.push_back(is32 ? (int64_t)*gen::int32Gen() : *gen::int64Gen());
    if (*irange(0, 2) == 0) { int64_t base = v[0]; for (int i = 1; i < n; i++) { base += *irange(-5, 40); v[(size_t)i] = is32 ? (int64_t)(int32_t)base : base; } }
    c.call.in = ref::delta_encode(v, is32); c.call.n = n;
  } else {
    std::vector<Bytes> v = *stringsGen(); if (v.empty()) v.push_back(Bytes{'x'});
    c.call.n = (int64_t)v.size();
    size_t total = 0; for (auto &s : v) total += s.size();
    if (c.call.sub == 2) c.call.in = ref::delta_length_encode(v);
    else { c.call.in = ref::delta_strings_encode(v, *irange(0, 1)); c.call.m = (int64_t)total; }
  }
  return c;
}
static C validBss() {
  C c; c.call.fam = dc::BSS; c.call.sub = *irange(0, 2);
  int n = *rc::gen::weightedOneOf<int>({{5, irange(0, 70)}, {1, irange(71, 600)}});
  size_t w = c.call.sub == 0 ? 4 : c.call.sub == 1 ? 8 : (size_t)*rc::gen::weightedOneOf<int>({{4, irange(1, 20)}, {1, rc::gen::element(1, 2, 16, 33, 255)}});
  if (c.call.sub == 2) c.call.tl = (int)w;
  Bytes flat = *rc::gen::container<Bytes>((size_t)n * w, rc::gen::arbitrary<uint8_t>());
  c.call.in = ref::bss_encode(flat, w); c.call.n = n;
  return c;
}
static C validDict() {
  C c; c.call.fam = dc::DICT; c.call.sub = *irange(0, 3);
  size_t es = (c.call.sub == 0 || c.call.sub == 2) ? 4 : 8;
  int dn = *rc::gen::weightedOneOf<int>({{5, irange(1, 20)}, {1, irange(21, 300)}});
  c.call.in2 = *rc::gen::container<Bytes>((size_t)dn * es, rc::gen::arbitrary<uint8_t>());
  c.call.m = dn;
  int w = ref::bits_for((uint64_t)(dn - 1));
  if (*irange(0, 3) == 0) w = *irange(w, 32);
  std::vector<uint32_t> idx = *rc::gen::container<std::vector<uint32_t>>(rc::gen::map(irange(0, dn - 1), [](int v) { return (uint32_t)v; }));
  if (*irange(0, 1)) { std::vector<uint32_t> r; for (auto x : idx) r.insert(r.end(), (size_t)*gen::runLen(), x); idx = r; }
  Bytes enc = ref::hybrid_encode(ref::hybrid_plan_simple(idx), w);
  c.call.in.push_back((uint8_t)w); c.call.in.insert(c.call.in.end(), enc.begin(), enc.end());
  c.call.n = (int64_t)idx.size();
  return c;
}
static C validCodec() {
  C c; c.call.fam = dc::CODEC; c.call.sub = *irange(0, 4);
  Bytes plain = gen::expand(*rc::gen::resize(8, gen::segsGen(2000)), 1 << 16);
  int codec = c.call.sub == 0 || c.call.sub == 4 ? pq::SNAPPY : c.call.sub == 1 ? pq::LZ4_RAW : c.call.sub == 2 ? pq::GZIP : pq::ZSTD;
  Bytes out; if (!pw::compress(codec, plain, out)) out = plain;
  c.call.in = out; c.call.n = (int64_t)plain.size();
  // concatenated members / frames (block-wise writers produce them): a second complete stream behind the first; the
  // declared capacity is that of the first, of both, or in between
  if ((codec == pq::GZIP || codec == pq::ZSTD) && *irange(0, 2) == 0) {
    Bytes plain2 = gen::expand(*rc::gen::resize(6, gen::segsGen(2000)), 1 << 15), out2;
    if (pw::compress(codec, plain2, out2)) { c.call.in.insert(c.call.in.end(), out2.begin(), out2.end()); c.call.n = *rc::gen::element<int64_t>((int64_t)plain.size(), (int64_t)(plain.size() + plain2.size()), (int64_t)(plain.size() + plain2.size() / 2), (int64_t)plain.size() + 1); c.how = ""; c.multi = true; }
  }
  return c;
}
static C validThrift() {
  C c; c.call.fam = dc::THRIFT; c.call.sub = *irange(0, 1);
  gf::Opts o; o.max_cols = 5; o.max_rows = 12; o.max_rgs = 2; o.max_pages = 2;
  pw::FileSpec fs = *gf::specGen(o);
  pw::Written w = pw::write_file(fs);
  if (c.call.sub == 0) c.call.in.assign(w.bytes.begin() + (long)w.footer_off, w.bytes.begin() + (long)(w.footer_off + w.footer_len));
  else if (!w.pages.empty()) { auto &p = w.pages[(size_t)*irange(0, (int)w.pages.size() - 1)]; size_t extra = (size_t)*irange(0, 8); size_t end = std::min(w.bytes.size(), p.header_off + p.header_len + extra); c.call.in.assign(w.bytes.begin() + (long)p.header_off, w.bytes.begin() + (long)end); }
  else c.call.sub = 0, c.call.in.assign(w.bytes.begin() + (long)w.footer_off, w.bytes.begin() + (long)(w.footer_off + w.footer_len));
  return c;
}
// length lists whose entries are each plausible but whose sum passes 2^32 (or 2^31): DELTA_LENGTH_BYTE_ARRAY /
// DELTA_BYTE_ARRAY streams with a few data bytes behind them, a PLAIN byte-array page with such length prefixes
static C hugeLengths() {
  C c; c.call.fam = dc::DELTA; c.call.sub = *irange(2, 3);
  int n = *irange(2, 7);
  std::vector<int64_t> lens;
  for (int i = 0; i < n; i++) lens.push_back(*rc::gen::element<int64_t>(INT32_MAX, INT32_MAX - 1, 1 << 30, (1 << 30) + 1, 1 << 29, 0x7ffffffc, 6, 0, 1, 1u << 31 >> 1));
  Bytes enc = ref::delta_encode(lens, true);
  if (c.call.sub == 3) { std::vector<int64_t> pre((size_t)n, 0); Bytes p = ref::delta_encode(pre, true); p.insert(p.end(), enc.begin(), enc.end()); enc = p; c.call.m = *rc::gen::element<int64_t>(0, 64, 1 << 20); }
  Bytes tail = *gen::bytesGen(200);
  enc.insert(enc.end(), tail.begin(), tail.end());
  c.call.in = enc; c.call.n = n;
  c.how = "huge_lengths";
  return c;
}

// unknown containers nested D deep in front of the end of a struct: field 30 (long-form header) of the outer struct.
//  kind 0: list<list<...<i32>>> - every level is the byte 0x19 (one element of type list)
//  kind 1: struct{1: struct{1: ...}} - every level is 0x1C (field delta 1, type struct)
//  kind 2: set<set<...>> (0x1A);  kind 3: map<i32, map<i32, ...>> - every level is 01 5B 02 (one entry, key 1)
static C deepThrift() {
  C c; c.call.fam = dc::THRIFT; c.call.sub = *irange(0, 1);
  int kind = *irange(0, 3);
  long depth = *rc::gen::weightedOneOf<int>({{3, irange(1, 64)}, {2, irange(65, 5000)}, {2, rc::gen::element(100000, 250000, 600000)}});
  c.rep_count = depth;
  if (kind == 0) { c.pre = {0x09, 0x3C}; c.unit = {0x19}; c.call.in = {0x15, 0x00, 0x00}; }
  else if (kind == 2) { c.pre = {0x0A, 0x3C}; c.unit = {0x1A}; c.call.in = {0x15, 0x00, 0x00}; }
  else if (kind == 1) { c.pre = {0x0C, 0x3C}; c.unit = {0x1C}; c.call.in.assign((size_t)std::min<long>(depth, 4096) + 2, 0x00); }
  else { c.pre = {0x0B, 0x3C}; c.unit = {0x01, 0x5B, 0x02}; c.call.in = {0x00, 0x00}; }
  c.how = "deep_nesting kind=" + std::to_string(kind) + " depth=" + std::to_string(depth);
  return c;
}

// ----------------------------------------------------------------------------- perturbations
static void mutateBytes(Bytes &b, std::string &how) {
  int k = *irange(0, 9);
  size_t n = b.size();
  auto pos = [&](size_t lim) { return (size_t)*irange(0, (int)std::max<size_t>(lim, 1) - 1); };
  switch (k) {
    case 0: if (n) { size_t p = pos(n); b[p] ^= (uint8_t)(1u << *irange(0, 7)); how += " bitflip@" + std::to_string(p); } break;
    case 1: if (n) { size_t p = pos(n); b[p] = *rc::gen::element<uint8_t>(0, 1, 0x7f, 0x80, 0xff, 0xfe, 0x0f, 0xf0); how += " setbyte@" + std::to_string(p); } break;
    case 2: if (n) { size_t p = pos(n + 1); b.resize(p); how += " truncate@" + std::to_string(p); } break;
    case 3: { size_t p = pos(n + 1); Bytes ins = *gen::bytesGen(6); b.insert(b.begin() + (long)p, ins.begin(), ins.end()); how += " insert@" + std::to_string(p); break; }
    case 4: { size_t p = pos(n + 1); Bytes v = *rc::gen::element(Bytes{0xff, 0xff, 0xff, 0xff, 0x0f}, Bytes{0xff, 0xff, 0xff, 0xff, 0xff, 0xff, 0xff, 0xff, 0xff, 0x01}, Bytes{0x80, 0x80, 0x80, 0x80, 0x08}, Bytes{0xff, 0xff, 0xff, 0xff, 0x07}, Bytes{0x80, 0x80, 0x01});
              for (size_t i = 0; i < v.size(); i++) { if (p + i < b.size()) b[p + i] = v[i]; else b.push_back(v[i]); } how += " varint@" + std::to_string(p); break; }
    case 5: if (n >= 4) { size_t p = pos(n - 3); uint32_t v = *rc::gen::element<uint32_t>(0xffffffffu, 0x7fffffffu, 0x80000000u, 0xfffffffcu, (uint32_t)n, (uint32_t)n - 3, 0); for (int i = 0; i < 4; i++) b[p + (size_t)i] = (uint8_t)(v >> (8 * i)); how += " word32@" + std::to_string(p); } break;
    case 6: if (n) { b[n - 1] = *rc::gen::element<uint8_t>(0x01, 0x02, 0x03, 0xfd, 0xfe, 0xff, 0xf0, 0x0f, 0x19, 0x1c, 0x80); how += " hungry_last_byte"; } break;
    case 7: if (n >= 2) { size_t p = pos(n - 1), q = pos(n - 1); size_t len = std::min<size_t>((size_t)*irange(1, 16), n - std::max(p, q)); for (size_t i = 0; i < len; i++) b[p + i] = b[q + i]; how += " copyrange"; } break;
    case 8: if (n) { size_t p = pos(n); size_t len = std::min<size_t>((size_t)*irange(1, 8), n - p); b.erase(b.begin() + (long)p, b.begin() + (long)(p + len)); how += " erase@" + std::to_string(p); } break;
    default: { Bytes t = *gen::bytesGen(4); b.insert(b.end(), t.begin(), t.end()); how += " append"; }
  }
}
static void mutateParams(C &c, std::string &how) {
  int k = *irange(0, 7);
  dc::Call &q = c.call;
  switch (k) {
    case 0: q.n += *rc::gen::element<int64_t>(1, -1, 7, 8, 9, 100); how += " count+-"; break;
    case 1: q.n = *rc::gen::element<int64_t>(0, -1, -1000, 1 << 20, 2000000); how += " count_boundary"; break;
    case 2: q.bw = *rc::gen::weightedOneOf<int>({{3, irange(0, 40)}, {1, irange(41, 255)}, {1, rc::gen::element(31, 32, 33, 63, 64, 65, 255)}}); if (q.fam == dc::DICT && !q.in.empty()) q.in[0] = (uint8_t)q.bw; how += " bit_width=" + std::to_string(q.bw); break;
    case 3: q.m += *rc::gen::element<int64_t>(1, -1, -8, 1000); how += " m+-"; break;
    case 4: q.m = *rc::gen::element<int64_t>(0, -1, 1, 1 << 20); how += " m_boundary"; break;
    case 5: q.tl = *rc::gen::element(0, -1, 1, 3, 4, 12, 17, 32767, -32768); how += " type_length=" + std::to_string(q.tl); break;
    case 6: if (q.fam == dc::DICT && q.in.size() > 1) { q.in[0] = 32; Bytes e = ref::hybrid_encode({ref::Run{true, 9, {*rc::gen::element<uint32_t>(0x80000000u, 0xffffffffu, 0x7fffffffu, (uint32_t)q.m)}}}, 32); q.in.resize(1); q.in.insert(q.in.end(), e.begin(), e.end()); q.n = 9; how += " index_top_bit"; } break;
    default: if (!q.in2.empty()) { mutateBytes(q.in2, how); how += "(in2)"; }
  }
}

static rc::Gen<C> genC() {
  return rc::gen::exec([]() {
    int fam = *rc::gen::weightedElement<int>({{3, dc::THRIFT}, {3, dc::RLE}, {2, dc::PLAIN}, {3, dc::DELTA}, {1, dc::BSS}, {2, dc::DICT}, {3, dc::CODEC}});
    C c;
    switch (fam) {
      case dc::THRIFT: c = *irange(0, 5) == 0 ? deepThrift() : validThrift(); break;
      case dc::RLE: c = validRle(); break;
      case dc::PLAIN: c = validPlain(); break;
      case dc::DELTA: c = *irange(0, 7) == 0 ? hugeLengths() : validDelta(); break;
      case dc::BSS: c = validBss(); break;
      case dc::DICT: c = validDict(); break;
      default: c = validCodec();
    }
    if (!c.how.empty()) return c;   // deep nesting cases are used as built
    int nm = *rc::gen::weightedElement<int>({{2, 0}, {5, 1}, {2, 2}, {1, 3}});
    c.valid = nm == 0 && !c.multi;
    for (int i = 0; i < nm; i++) { if (*irange(0, 2) == 0) mutateParams(c, c.how); else mutateBytes(c.call.in, c.how); }
    if (c.valid) c.how = "valid";
    return c;
  });
}

static Verdict run(const C &c0) {
  Verdict vd;
  C c = c0; c.call.in = fullInput(c0);
  dc::Out o = dc::exec(c.call);
  vd.label(std::string(dc::famName(c.call.fam)) + "/" + dc::subName(c.call.fam, c.call.sub) + (c.valid ? ":valid" : ":mutant") + (o.success ? ":accepted" : ":rejected"));
  vd.nontrivial = c.call.in.size() >= 2;
  PBT_CHECK(vd, o.ok, "%s [%s] %s", dc::describe(c.call).c_str(), c.how.c_str(), o.msg);
  // a valid encoding with its own parameters must decode (this also keeps the generator honest: rejected valid inputs would
  // mean the "near-valid" mutants are not near anything).  Streaming / bit reader calls always "succeed".
  if (c.valid)
    PBT_CHECK(vd, o.success, "%s: a valid encoding with matching parameters is rejected", dc::describe(c.call).c_str());
  return vd;
}

// --emit DIR COUNT SEED: write generated calls in the byte format of the fuzz target (seed corpus), DIR/<family>/<k>
static int emitCorpus(const char *dir, int count, uint64_t seed) {
  rc::Random rnd(seed);
  int written = 0;
  for (int i = 0; i < count; i++) {
    rc::Random r = rnd.split();
    C c = genC()(r, 20 + i % 80).value();
    c.call.in = fullInput(c);
    if (c.call.in.size() + c.call.in2.size() > 4000) continue;
    Bytes b = dc::toBytes(c.call);
    std::string d = std::string(dir) + "/" + std::to_string(c.call.fam);
    mkdir(d.c_str(), 0755);
    pbt::write_file(d + "/" + std::to_string(i), std::string(b.begin(), b.end()));
    written++;
  }
  printf("emitted %d inputs\n", written);
  return 0;
}

int main(int argc, char **argv) {
  if (argc == 5 && std::string(argv[1]) == "--emit") return emitCorpus(argv[2], atoi(argv[3]), strtoull(argv[4], nullptr, 10));
  case_cpu_limit() = 20;
  add<C>("mutants", 1, genC, ser, de, run);
  return main_(argc, argv);
}
