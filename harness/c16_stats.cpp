// C16: statistics are true bounds and pruning never discards matching data.
//  builder : state machine over the statistics builder (add_values / add_nulls / add_byte_arrays / reset / build)
//  pruning : reference-written files whose chunk statistics are true bounds (exact, loosened, deprecated fields,
//            absent) x six operators x probes -> row_group_matches / filter_row_groups vs brute force
//  helpers : carquet_statistics_compare, carquet_statistics_range_overlaps, carquet_column_index_page_might_match
//  (the writer's own page statistics are checked by the C05 engine, which feeds this property too)
#include "harness/common/pbt.hpp"
#include "harness/common/reading.hpp"
#include "gen/files.hpp"

extern "C" {
typedef struct carquet_statistics_builder carquet_statistics_builder_t;
carquet_statistics_builder_t *carquet_statistics_builder_create(carquet_physical_type_t type, int32_t type_length);
void carquet_statistics_builder_destroy(carquet_statistics_builder_t *);
void carquet_statistics_builder_reset(carquet_statistics_builder_t *);
void carquet_statistics_add_nulls(carquet_statistics_builder_t *, int64_t);
carquet_status_t carquet_statistics_add_values(carquet_statistics_builder_t *, const void *, int64_t);
carquet_status_t carquet_statistics_add_byte_arrays(carquet_statistics_builder_t *, const carquet_byte_array_t *, int64_t);
carquet_status_t carquet_statistics_build(const carquet_statistics_builder_t *, carquet_arena_t *, parquet_statistics_t *);
carquet_status_t carquet_statistics_compare(const parquet_statistics_t *, carquet_physical_type_t, const void *, size_t, int *);
carquet_status_t carquet_statistics_range_overlaps(const parquet_statistics_t *, carquet_physical_type_t, const void *, const void *, size_t, bool *);
typedef struct carquet_column_index_builder carquet_column_index_builder_t;
carquet_column_index_builder_t *carquet_column_index_builder_create(carquet_physical_type_t, int32_t);
void carquet_column_index_builder_destroy(carquet_column_index_builder_t *);
carquet_status_t carquet_column_index_add_page(carquet_column_index_builder_t *, int64_t, const void *, int32_t, const void *, int32_t, bool);
carquet_status_t carquet_column_index_page_might_match(const carquet_column_index_builder_t *, int32_t, const void *, const void *, int32_t, bool *);
}

using namespace pbt;

static int cmpv(int type, const Bytes &a, const Bytes &b) { return pw::cmp_values(type, a, b); }
// total order used for the builder check: NaN greatest, -0 == +0
static int cmpTotal(int type, const Bytes &a, const Bytes &b) {
  bool na = pw::is_nan(type, a), nb = pw::is_nan(type, b);
  if (na || nb) return na && nb ? 0 : na ? 1 : -1;
  return cmpv(type, a, b);
}
static int cmpInt96(const Bytes &a, const Bytes &b) {   // the order the builder documents: three uint32 words, most significant last
  for (int w = 2; w >= 0; w--) { uint32_t x, y; memcpy(&x, a.data() + 4 * w, 4); memcpy(&y, b.data() + 4 * w, 4); if (x != y) return x < y ? -1 : 1; }
  return 0;
}

// ------------------------------------------------------------------ builder
struct SB { int type = 1, tl = 0; std::vector<int> ops; std::vector<Bytes> vals; };   // ops: 0 add_value(next val), 1 add_nulls(k>>4), 2 reset, 3 build
static CaseText serSB(const SB &s) { CaseText t; t.put_i("type", s.type); t.put_i("tl", s.tl); t.put_ints("ops", s.ops); t.put_i("nstr", (long long)s.vals.size()); for (size_t i = 0; i < s.vals.size(); i++) t.put_bytes("s" + std::to_string(i), s.vals[i]); return t; }
static SB deSB(const CaseText &t) { SB s; s.type = (int)t.get_i("type"); s.tl = (int)t.get_i("tl"); s.ops = t.get_ints<int>("ops"); long n = t.get_i("nstr"); for (long i = 0; i < n; i++) s.vals.push_back(t.get_bytes("s" + std::to_string(i))); return s; }
static rc::Gen<SB> genSB() {
  return rc::gen::mapcat(rc::gen::tuple(irange(0, 7), irange(1, 20)), [](const std::tuple<int, int> &tt) {
    int type = std::get<0>(tt), tl = type == pq::FIXED_LEN_BYTE_ARRAY ? std::get<1>(tt) : 0;
    auto vg = type == pq::BYTE_ARRAY ? rc::gen::weightedOneOf<Bytes>({{8, gen::bytesGen(12)}, {1, rc::gen::map(irange(257, 400), [](int n) { return Bytes((size_t)n, (uint8_t)'a'); })}, {1, rc::gen::map(irange(250, 256), [](int n) { return Bytes((size_t)n, (uint8_t)'z'); })}})
                                     : gf::valueGen(type, tl);
    auto op = rc::gen::weightedOneOf<int>({{8, rc::gen::just(0)}, {2, rc::gen::map(irange(0, 5), [](int k) { return 1 + 16 * k; })}, {1, rc::gen::just(2)}, {2, rc::gen::just(3)}});
    return rc::gen::map(rc::gen::pair(rc::gen::container<std::vector<int>>(op), rc::gen::container<std::vector<Bytes>>(vg)), [type, tl](const std::pair<std::vector<int>, std::vector<Bytes>> &p) {
      SB s; s.type = type; s.tl = tl; s.ops = p.first; s.vals = p.second; s.ops.push_back(3); return s; });
  });
}
struct Arena { carquet_arena_t a; bool ok; Arena() { ok = carquet_arena_init(&a) == CARQUET_OK; } ~Arena() { if (ok) carquet_arena_destroy(&a); } };
static Verdict runSB(const SB &s) {
  Verdict vd;
  carquet_statistics_builder_t *b = carquet_statistics_builder_create((carquet_physical_type_t)s.type, s.tl);
  PBT_CHECK(vd, b != nullptr, "builder create failed");
  struct Fr { carquet_statistics_builder_t *b; ~Fr() { carquet_statistics_builder_destroy(b); } } fr{b};
  std::vector<Bytes> cur; int64_t nulls = 0; size_t vi = 0;
  bool sawnan = false, unequal = false, big = false;
  for (int op : s.ops) {
    int kind = op % 16;
    if (kind == 0) {
      if (vi >= s.vals.size()) continue;
      const Bytes &v = s.vals[vi++];
      if (excluded("KF-STATS-BUILDER-LONG-BYTE-ARRAY") && v.size() > 256) continue;
      carquet_status_t st;
      if (s.type == pq::BYTE_ARRAY) { Exact e(v); carquet_byte_array_t ba; ba.data = e.p; ba.length = (int32_t)v.size(); st = carquet_statistics_add_byte_arrays(b, &ba, 1); }
      else { Exact e(v); st = carquet_statistics_add_values(b, e.p, 1); }
      PBT_CHECK(vd, st == CARQUET_OK, "adding a value fails: %d", (int)st);
      if (pw::is_nan(s.type, v)) sawnan = true;
      if (!cur.empty() && cur.back().size() != v.size()) unequal = true;
      if (v.size() > 256) big = true;
      cur.push_back(v);
    } else if (kind == 1) { carquet_statistics_add_nulls(b, op / 16); nulls += op / 16; }
    else if (kind == 2) { carquet_statistics_builder_reset(b); cur.clear(); nulls = 0; }
    else {
      Arena ar; parquet_statistics_t st;
      PBT_CHECK(vd, carquet_statistics_build(b, &ar.a, &st) == CARQUET_OK, "build fails");
      PBT_CHECK(vd, st.has_null_count && st.null_count == nulls, "null_count %lld (present %d), %lld nulls were added", (long long)st.null_count, (int)st.has_null_count, (long long)nulls);
      Bytes mn, mx; bool hasmn = st.min_value && st.min_value_len > 0, hasmx = st.max_value && st.max_value_len > 0;
      if (hasmn) mn.assign(st.min_value, st.min_value + st.min_value_len);
      if (hasmx) mx.assign(st.max_value, st.max_value + st.max_value_len);
      for (auto &v : cur) {
        if (s.type == pq::INT96) {
          if (hasmn) PBT_CHECK(vd, cmpInt96(mn, v) <= 0, "INT96 min is above an added value");
          if (hasmx) PBT_CHECK(vd, cmpInt96(mx, v) >= 0, "INT96 max is below an added value");
          continue;
        }
        bool nan = pw::is_nan(s.type, v);
        // bounds must hold under IEEE comparison ignoring NaN values, or under the total order "NaN greatest"
        if (hasmn) { bool ieee = nan || (!pw::is_nan(s.type, mn) && cmpv(s.type, mn, v) <= 0); bool tot = cmpTotal(s.type, mn, v) <= 0;
          PBT_CHECK(vd, ieee || tot, "min %s is not <= added value %s (type %d)", pbt::hex(mn).substr(0, 24).c_str(), pbt::hex(v).substr(0, 24).c_str(), s.type); }
        if (hasmx) { bool ieee = nan || (!pw::is_nan(s.type, mx) && cmpv(s.type, mx, v) >= 0); bool tot = cmpTotal(s.type, mx, v) >= 0;
          PBT_CHECK(vd, ieee || tot, "max %s is not >= added value %s (type %d)", pbt::hex(mx).substr(0, 24).c_str(), pbt::hex(v).substr(0, 24).c_str(), s.type); }
      }
      // a min/max that is reported must be one of the added values (exactness is claimed: is_*_value_exact = true)
      if (hasmn && !cur.empty() && s.type != pq::INT96) { bool found = false; for (auto &v : cur) if (v == mn) found = true; PBT_CHECK(vd, found, "reported min is not among the added values although it is flagged exact"); }
    }
  }
  vd.nontrivial = sawnan || unequal;
  static const char *tn[] = {"bool", "int32", "int64", "int96", "float", "double", "byte_array", "fixed"};
  vd.label(std::string("builder_") + tn[s.type]); if (sawnan) vd.label("nan"); if (big) vd.label("byte_array>256");
  return vd;
}

// ------------------------------------------------------------------ pruning
struct P { pw::FileSpec fs; int mode = 0; uint32_t seed = 1; };
static CaseText serP(const P &p) { CaseText t; t.put_i("mode", p.mode); t.put_u("seed", p.seed); gf::putSpec(t, p.fs); return t; }
static P deP(const CaseText &t) { P p; p.mode = (int)t.get_i("mode"); p.seed = (uint32_t)t.get_u("seed"); p.fs = gf::getSpec(t); return p; }
static rc::Gen<P> genP() {
  return rc::gen::exec([]() {
    P p; p.mode = *irange(0, 2); p.seed = (uint32_t)*irange(1, 1 << 30);
    gf::Opts o; o.max_cols = 3; o.max_rows = 12; o.max_rgs = 1; o.thrift_extras = false; o.layouts = false; o.stats = false; o.max_pages = 2;
    o.types = {pq::INT32, pq::INT64, pq::FLOAT, pq::DOUBLE, pq::BYTE_ARRAY, pq::FIXED_LEN_BYTE_ARRAY};
    o.nested = *irange(0, 2) == 0;   // a third of the files: structs / lists around the leaves (column index != schema element index - 1)
    p.fs.root = gf::genSchema(o);
    auto lv = pw::leaves(p.fs.root);
    int nrg = *irange(1, 12);
    for (int g = 0; g < nrg; g++) {
      size_t rows = (size_t)*irange(1, 10);
      p.fs.rg_rows.push_back((int64_t)rows);
      std::vector<pw::ChunkSpec> rg;
      for (auto &lf : lv) {
        pw::ChunkSpec cs = gf::genChunk(o, lf, rows, pq::UNCOMPRESSED);
        // clustered values so that row groups differ: shift by group for ints; no NaN for floats; deprecated stats need bytes < 0x80
        int smode = *rc::gen::element(0, 0, 1, 2, 3, 4);   // 4 = no statistics
        for (auto &v : cs.values) {
          if (lf.type == pq::FLOAT) { float f = (float)((int)(v[0] % 50) - 25 + g * 10) / 2.0f; memcpy(v.data(), &f, 4); }
          else if (lf.type == pq::DOUBLE) { double d = ((int)(v[0] % 50) - 25 + g * 10) / 4.0; memcpy(v.data(), &d, 8); }
          else if (lf.type == pq::INT32) { int32_t x; memcpy(&x, v.data(), 4); if (v[1] & 1) { x = (int32_t)(v[0] % 40) - 20 + g * 15; memcpy(v.data(), &x, 4); } }
          else if (lf.type == pq::INT64) { int64_t x; memcpy(&x, v.data(), 8); if (v[1] & 1) { x = (int64_t)(v[0] % 40) - 20 + g * 15; memcpy(v.data(), &x, 8); } }
          else if (smode == 2 || smode == 3) for (auto &c : v) c &= 0x7f;
        }
        cs.chunk_stats = smode != 4; cs.stats_mode = smode == 4 ? 0 : smode;
        rg.push_back(cs);
      }
      p.fs.row_groups.push_back(rg);
    }
    return p;
  });
}
static bool matches(int type, int op, const Bytes &x, const Bytes &probe) {
  int c = cmpv(type, x, probe);
  switch (op) { case 0: return c == 0; case 1: return c != 0; case 2: return c < 0; case 3: return c <= 0; case 4: return c > 0; default: return c >= 0; }
}
static Verdict runP(const P &p) {
  Verdict vd;
  auto lv = pw::leaves(p.fs.root);
  pw::Written w = pw::write_file(p.fs);
  rd::Opened op(w.bytes, p.mode);
  PBT_CHECK(vd, op.r != nullptr, "valid file rejected: %s", op.err.message);
  int nrg = (int)p.fs.row_groups.size();
  uint64_t s = 0x9E3779B97F4A7C15ull ^ ((uint64_t)p.seed << 1 | 1);
  bool bound_probe = false, absent = false, depr = false;
  for (size_t k = 0; k < lv.size(); k++) {
    int type = lv[k].type;
    size_t w8 = pw::fixed_width(type, lv[k].type_length);
    // probes: every group's min/max, +-1, actual values, global extremes, prefixes/extensions
    std::vector<Bytes> probes;
    for (int g = 0; g < nrg; g++) {
      auto &cs = p.fs.row_groups[(size_t)g][k];
      if (!cs.chunk_stats) absent = true; else if (cs.stats_mode >= 2) depr = true;
      for (auto &v : cs.values) {
        if (gf::dxs(s) % 3 == 0) probes.push_back(v);
        if (type == pq::INT32 || type == pq::INT64) { int64_t x = 0; memcpy(&x, v.data(), w8); if (w8 == 4) x = (int32_t)x; for (int d : {-1, 1}) { int64_t y = x + d; if ((w8 == 4 && (y < INT32_MIN || y > INT32_MAX))) continue; Bytes b(w8); memcpy(b.data(), &y, w8); if (gf::dxs(s) % 4 == 0) probes.push_back(b); } }
        if (type == pq::BYTE_ARRAY && gf::dxs(s) % 4 == 0) { Bytes b = v; if (!b.empty()) b.pop_back(); probes.push_back(b); b = v; b.push_back(0); probes.push_back(b); }
      }
      if (!cs.values.empty()) {
        const Bytes *mn = &cs.values[0], *mx = &cs.values[0];
        for (auto &v : cs.values) { if (cmpv(type, v, *mn) < 0) mn = &v; if (cmpv(type, v, *mx) > 0) mx = &v; }
        probes.push_back(*mn); probes.push_back(*mx); bound_probe = true;
        if (type == pq::FLOAT) { float a, b2; memcpy(&a, mn->data(), 4); memcpy(&b2, mx->data(), 4); float m = (a + b2) / 2; Bytes b(4); memcpy(b.data(), &m, 4); probes.push_back(b); m = a - 0.5f; memcpy(b.data(), &m, 4); probes.push_back(b); m = b2 + 0.5f; memcpy(b.data(), &m, 4); probes.push_back(b); }
        if (type == pq::DOUBLE) { double a, b2; memcpy(&a, mn->data(), 8); memcpy(&b2, mx->data(), 8); double m = (a + b2) / 2; Bytes b(8); memcpy(b.data(), &m, 8); probes.push_back(b); m = a - 0.25; memcpy(b.data(), &m, 8); probes.push_back(b); m = b2 + 0.25; memcpy(b.data(), &m, 8); probes.push_back(b); }
      }
    }
    if (type == pq::INT32) { for (int32_t x : {INT32_MIN, INT32_MAX, 0}) { Bytes b(4); memcpy(b.data(), &x, 4); probes.push_back(b); } }
    if (type == pq::INT64) { for (int64_t x : {INT64_MIN, INT64_MAX, (int64_t)0}) { Bytes b(8); memcpy(b.data(), &x, 8); probes.push_back(b); } }
    if (type == pq::BYTE_ARRAY) { probes.push_back(Bytes{}); probes.push_back(Bytes(3, 0x7f)); }
    if (probes.size() > 60) probes.resize(60);
    for (auto &probe : probes) {
      if (type != pq::BYTE_ARRAY && probe.size() != w8) continue;
      Exact pv(probe);
      for (int cop = 0; cop < 6; cop++) {
        std::vector<int32_t> expect_list;
        for (int g = 0; g < nrg; g++) {
          auto &cs = p.fs.row_groups[(size_t)g][k];
          bool truth = false;
          for (auto &v : cs.values) if (matches(type, cop, v, probe)) { truth = true; break; }
          bool mm = false;
          carquet_status_t st = carquet_reader_row_group_matches(op.r, g, (int32_t)k, (carquet_compare_op_t)cop, pv.p, (int32_t)probe.size(), &mm);
          PBT_CHECK(vd, st == CARQUET_OK, "row_group_matches fails with %d", (int)st);
          PBT_CHECK(vd, mm || !truth, "row group %d column %zu (type %d, stats %s) holds a row matching op %d against %s but is reported as 'cannot match'", g, k, type, cs.chunk_stats ? (cs.stats_mode >= 2 ? "deprecated" : cs.stats_mode == 1 ? "loosened" : "exact") : "absent", cop, pbt::hex(probe).substr(0, 24).c_str());
          if (!cs.chunk_stats) PBT_CHECK(vd, mm, "row group %d column %zu has no statistics but is reported as 'cannot match'", g, k);
          if (mm) expect_list.push_back(g);
        }
        for (int maxi : {1, 2, nrg - 1, nrg, nrg + 1}) {
          if (maxi <= 0) continue;
          Exact out((size_t)maxi * 4);
          int32_t n = carquet_reader_filter_row_groups(op.r, (int32_t)k, (carquet_compare_op_t)cop, pv.p, (int32_t)probe.size(), out.as<int32_t>(), maxi);
          size_t want = std::min<size_t>(expect_list.size(), (size_t)maxi);
          PBT_CHECK(vd, n == (int32_t)want, "filter_row_groups(max %d) returned %d, %zu groups might match", maxi, n, expect_list.size());
          for (size_t i = 0; i < want; i++) PBT_CHECK(vd, out.as<int32_t>()[i] == expect_list[i], "filter_row_groups entry %zu is %d, expected %d (ascending list of might-match groups)", i, out.as<int32_t>()[i], expect_list[i]);
        }
      }
    }
  }
  vd.nontrivial = bound_probe && nrg >= 2;
  if (absent) vd.label("statistics_absent_in_some_group"); if (depr) vd.label("deprecated_min_max_fields"); vd.label(rd::modeName(p.mode));
  return vd;
}

// ------------------------------------------------------------------ helpers
struct Hp { int type = 1, tl = 0; std::vector<Bytes> vals, probes; std::vector<int> cuts; };
static CaseText serHp(const Hp &h) { CaseText t; t.put_i("type", h.type); t.put_i("tl", h.tl); t.put_ints("cuts", h.cuts); t.put_i("nv", (long long)h.vals.size()); for (size_t i = 0; i < h.vals.size(); i++) t.put_bytes("v" + std::to_string(i), h.vals[i]); t.put_i("np", (long long)h.probes.size()); for (size_t i = 0; i < h.probes.size(); i++) t.put_bytes("p" + std::to_string(i), h.probes[i]); return t; }
static Hp deHp(const CaseText &t) { Hp h; h.type = (int)t.get_i("type"); h.tl = (int)t.get_i("tl"); h.cuts = t.get_ints<int>("cuts"); long n = t.get_i("nv"); for (long i = 0; i < n; i++) h.vals.push_back(t.get_bytes("v" + std::to_string(i))); n = t.get_i("np"); for (long i = 0; i < n; i++) h.probes.push_back(t.get_bytes("p" + std::to_string(i))); return h; }
static rc::Gen<Hp> genHp() {
  return rc::gen::mapcat(rc::gen::tuple(rc::gen::element<int>(pq::INT32, pq::INT64, pq::FLOAT, pq::DOUBLE, pq::BYTE_ARRAY, pq::FIXED_LEN_BYTE_ARRAY), irange(1, 12)), [](const std::tuple<int, int> &tt) {
    int type = std::get<0>(tt), tl = type == pq::FIXED_LEN_BYTE_ARRAY ? std::get<1>(tt) : 0;
    auto nonan = rc::gen::suchThat(gf::valueGen(type, tl), [type](const Bytes &b) { return !pw::is_nan(type, b); });
    return rc::gen::map(rc::gen::tuple(rc::gen::nonEmpty(rc::gen::container<std::vector<Bytes>>(nonan)), rc::gen::container<std::vector<Bytes>>(nonan), rc::gen::container<std::vector<int>>(irange(1, 30))),
                        [type, tl](const std::tuple<std::vector<Bytes>, std::vector<Bytes>, std::vector<int>> &t) { Hp h; h.type = type; h.tl = tl; h.vals = std::get<0>(t); h.probes = std::get<1>(t); h.cuts = std::get<2>(t); return h; });
  });
}
static Verdict runHp(const Hp &h) {
  Verdict vd;
  int type = h.type;
  const Bytes *mn = &h.vals[0], *mx = &h.vals[0];
  for (auto &v : h.vals) { if (cmpv(type, v, *mn) < 0) mn = &v; if (cmpv(type, v, *mx) > 0) mx = &v; }
  Bytes mnb = *mn, mxb = *mx;
  parquet_statistics_t st; memset(&st, 0, sizeof st);
  Exact emn(mnb), emx(mxb);
  st.min_value = emn.p; st.min_value_len = (int32_t)mnb.size(); st.max_value = emx.p; st.max_value_len = (int32_t)mxb.size();
  std::vector<Bytes> probes = h.probes;
  for (auto &v : h.vals) probes.push_back(v);
  vd.nontrivial = h.vals.size() >= 2 && cmpv(type, mnb, mxb) != 0;
  for (auto &pb : probes) {
    Exact pv(pb);
    int res = 99;
    if (pb.empty() && type == pq::BYTE_ARRAY && mnb.empty()) {}
    carquet_status_t s = carquet_statistics_compare(&st, (carquet_physical_type_t)type, pv.p, pb.size(), &res);
    if (s == CARQUET_OK) {
      bool present = false; for (auto &v : h.vals) if (v == pb) present = true;
      PBT_CHECK(vd, !present || res == 0, "statistics_compare says %d for a value that is in the data", res);
      if (res == -1) PBT_CHECK(vd, cmpv(type, pb, mnb) < 0, "statistics_compare says 'below min' for a value that is not below the minimum");
      if (res == 1) PBT_CHECK(vd, cmpv(type, pb, mxb) > 0, "statistics_compare says 'above max' for a value that is not above the maximum");
    }
  }
  // range queries [a,b]
  for (size_t i = 0; i + 1 < probes.size(); i += 2) {
    Bytes a = probes[i], b = probes[i + 1];
    if (cmpv(type, a, b) > 0) std::swap(a, b);
    if (type == pq::BYTE_ARRAY && a.size() != b.size()) continue;   // the helpers take one value_len for both ends
    bool truth = false; for (auto &v : h.vals) if (cmpv(type, v, a) >= 0 && cmpv(type, v, b) <= 0) truth = true;
    Exact ea(a), eb(b);
    bool ov = false;
    carquet_status_t s = carquet_statistics_range_overlaps(&st, (carquet_physical_type_t)type, ea.p, eb.p, a.size(), &ov);
    if (s == CARQUET_OK) PBT_CHECK(vd, ov || !truth, "range_overlaps says 'no overlap' although a stored value lies in [%s, %s] (type %d)", pbt::hex(a).substr(0, 20).c_str(), pbt::hex(b).substr(0, 20).c_str(), type);
    // open-ended ranges
    truth = false; for (auto &v : h.vals) if (cmpv(type, v, a) >= 0) truth = true;
    s = carquet_statistics_range_overlaps(&st, (carquet_physical_type_t)type, ea.p, nullptr, a.size(), &ov);
    if (s == CARQUET_OK) PBT_CHECK(vd, ov || !truth, "range_overlaps([a, +inf)) says 'no overlap' although a stored value is >= a");
  }
  // page-level might-match over a column index filled with true per-page bounds
  carquet_column_index_builder_t *cb = carquet_column_index_builder_create((carquet_physical_type_t)type, h.tl);
  PBT_CHECK(vd, cb != nullptr, "column index builder create failed");
  struct Fr { carquet_column_index_builder_t *b; ~Fr() { carquet_column_index_builder_destroy(b); } } fr{cb};
  std::vector<std::pair<size_t, size_t>> pages; size_t pos = 0;
  for (int c : h.cuts) { if (pos >= h.vals.size()) break; size_t e = std::min(h.vals.size(), pos + (size_t)c); pages.emplace_back(pos, e); pos = e; }
  if (pos < h.vals.size()) pages.emplace_back(pos, h.vals.size());
  for (auto &pg : pages) {
    const Bytes *a = &h.vals[pg.first], *b = a;
    for (size_t i = pg.first; i < pg.second; i++) { if (cmpv(type, h.vals[i], *a) < 0) a = &h.vals[i]; if (cmpv(type, h.vals[i], *b) > 0) b = &h.vals[i]; }
    Exact ea(*a), eb(*b);
    PBT_CHECK(vd, carquet_column_index_add_page(cb, 0, ea.p, (int32_t)a->size(), eb.p, (int32_t)b->size(), false) == CARQUET_OK, "add_page failed");
  }
  for (size_t i = 0; i + 1 < probes.size(); i += 2) {
    Bytes a = probes[i], b = probes[i + 1];
    if (cmpv(type, a, b) > 0) std::swap(a, b);
    if (a.size() != b.size()) continue;
    Exact ea(a), eb(b);
    for (size_t pi = 0; pi < pages.size(); pi++) {
      bool truth = false; for (size_t k = pages[pi].first; k < pages[pi].second; k++) if (cmpv(type, h.vals[k], a) >= 0 && cmpv(type, h.vals[k], b) <= 0) truth = true;
      bool mm = false;
      carquet_status_t s = carquet_column_index_page_might_match(cb, (int32_t)pi, ea.p, eb.p, (int32_t)a.size(), &mm);
      if (s == CARQUET_OK) PBT_CHECK(vd, mm || !truth, "page_might_match says 'no' for page %zu although it holds a value in [%s, %s] (type %d)", pi, pbt::hex(a).substr(0, 20).c_str(), pbt::hex(b).substr(0, 20).c_str(), type);
    }
  }
  // point queries: every stored value must be reported as a possible match of the page that holds it
  for (size_t pi = 0; pi < pages.size(); pi++)
    for (size_t k = pages[pi].first; k < pages[pi].second; k++) {
      const Bytes &v = h.vals[k]; Exact ev(v), ev2(v);
      bool mm = false;
      carquet_status_t s = carquet_column_index_page_might_match(cb, (int32_t)pi, ev.p, ev2.p, (int32_t)v.size(), &mm);
      if (s == CARQUET_OK) PBT_CHECK(vd, mm, "page_might_match says 'no' for page %zu and the point query of a value stored in it (%zu bytes, type %d)", pi, v.size(), type);
    }
  static const char *tn[] = {"bool", "int32", "int64", "int96", "float", "double", "byte_array", "fixed"};
  vd.label(std::string("helpers_") + tn[type]);
  return vd;
}

int main(int argc, char **argv) {
  add<SB>("builder", 2, genSB, serSB, deSB, runSB);
  add<P>("pruning", 2, genP, serP, deP, runP);
  add<Hp>("helpers", 1.5, genHp, serHp, deHp, runHp);
  return main_(argc, argv);
}
