// C10: built-in Snappy and LZ4 speak the standard formats.
//  (a) compressor output -> independent strict decoder (+ libsnappy / liblz4), LZ4 end-of-block rules
//  (b) grammar-generated valid streams (all tag kinds / length encodings / overlaps) -> carquet decompressor
//  (c) streams the formats define as invalid -> must be rejected
#include "harness/common/pbt.hpp"
#include "harness/common/carquet_internal.hpp"
#include "gen/bytes.hpp"
#include "ref/lz_ref.hpp"
#include <lz4.h>
#include <snappy.h>

using namespace pbt;

// ------------------------------------------------------------------ (a)
struct A { int codec = 0; std::vector<gen::Seg> segs; };
static CaseText serA(const A &c) { CaseText t; t.put_i("codec", c.codec); gen::putSegs(t, c.segs); return t; }
static A deA(const CaseText &t) { A c; c.codec = (int)t.get_i("codec"); c.segs = gen::getSegs(t); return c; }
static uint32_t g_big = 200000;
static rc::Gen<A> genA(int codec) { return rc::gen::map(gen::segsGen(g_big), [codec](const std::vector<gen::Seg> &s) { A a; a.codec = codec; a.segs = s; return a; }); }

static Verdict runSnappyOut(const A &c) {
  Verdict vd;
  Bytes x = gen::expand(c.segs, (size_t)16 << 20);
  size_t n = x.size(), bound = carquet_snappy_compress_bound(n), w = 0;
  Exact src(x), dst(bound);
  if (carquet_snappy_compress(src.p, n, dst.p, bound, &w) != CARQUET_OK) { vd.vacuous = true; return vd; }
  Bytes out; std::string err; ref::SnStats st;
  bool ok = ref::snappy_decode(dst.p, w, out, err, &st);
  PBT_CHECK(vd, ok, "independent Snappy decoder rejects the compressor's output: %s (n=%zu)", err.c_str(), n);
  PBT_CHECK(vd, out == x, "independent Snappy decoder recovers different bytes (n=%zu)", n);
  // second opinion: libsnappy
  size_t ulen = 0;
  bool v2 = snappy::IsValidCompressedBuffer((const char *)dst.p, w) && snappy::GetUncompressedLength((const char *)dst.p, w, &ulen) && ulen == n;
  if (v2) { Bytes o2(n); v2 = snappy::RawUncompress((const char *)dst.p, w, (char *)o2.data()) && o2 == x; }
  PBT_CHECK(vd, v2, "libsnappy does not recover the input from the compressor's output (n=%zu)", n);
  vd.nontrivial = st.copy1 + st.copy2 > 0 && n > 100;
  if (st.copy1) vd.label("emits_copy1"); if (st.copy2) vd.label("emits_copy2"); if (st.overlap) vd.label("emits_overlapping_copy");
  for (int i = 1; i < 5; i++) if (st.lit_ext[i]) vd.label("emits_literal_ext" + std::to_string(i));
  if (n > 65536) vd.label(">64KiB");
  return vd;
}
static Verdict runLz4Out(const A &c) {
  Verdict vd;
  Bytes x = gen::expand(c.segs, (size_t)16 << 20);
  size_t n = x.size(), bound = carquet_lz4_compress_bound(n), w = 0;
  Exact src(x), dst(bound);
  if (carquet_lz4_compress(src.p, n, dst.p, bound, &w) != CARQUET_OK) { vd.vacuous = true; return vd; }
  Bytes out; std::string err; ref::LzInfo info;
  bool ok = ref::lz4_decode(dst.p, w, out, err, &info);
  PBT_CHECK(vd, ok, "independent LZ4 block decoder rejects the compressor's output: %s (n=%zu, %zu bytes)", err.c_str(), n, w);
  PBT_CHECK(vd, out == x, "independent LZ4 decoder recovers different bytes (n=%zu)", n);
  ok = ref::lz4_end_rules(info, n, err);
  PBT_CHECK(vd, ok, "LZ4 end-of-block rule violated: %s (n=%zu)", err.c_str(), n);
  Bytes o2(n ? n : 1);
  int r = LZ4_decompress_safe((const char *)dst.p, (char *)o2.data(), (int)w, (int)n);
  PBT_CHECK(vd, r == (int)n && memcmp(o2.data(), x.data(), n) == 0, "liblz4 does not recover the input (returned %d, n=%zu)", r, n);
  vd.nontrivial = info.nmatch > 0 && n > 100;
  if (info.nmatch) vd.label("emits_match"); if (info.ext255) vd.label("emits_255_chain"); if (info.overlap) vd.label("emits_overlapping_match");
  if (n > 65536) vd.label(">64KiB"); if (n == 0) vd.label("empty"); if (n < 13) vd.label("<13_bytes");
  return vd;
}

// ------------------------------------------------------------------ (b), (c)
// abstract element list; offsets are resolved against the output produced so far
struct El { int kind = 0; uint32_t len = 1; int lenbytes = 0; int mode = 0; uint32_t raw = 0; uint32_t seed = 0; };
struct B { std::vector<El> els; int mut = -1; uint32_t k = 0; int tail = 5; };
static CaseText serB(const B &b) {
  CaseText t; std::vector<uint32_t> f;
  for (auto &e : b.els) { f.push_back((uint32_t)e.kind); f.push_back(e.len); f.push_back((uint32_t)e.lenbytes); f.push_back((uint32_t)e.mode); f.push_back(e.raw); f.push_back(e.seed); }
  t.put_ints("els", f); t.put_i("mut", b.mut); t.put_u("k", b.k); t.put_i("tail", b.tail);
  return t;
}
static B deB(const CaseText &t) {
  B b; auto f = t.get_ints<uint32_t>("els");
  for (size_t i = 0; i + 5 < f.size(); i += 6) { El e; e.kind = (int)f[i]; e.len = f[i + 1]; e.lenbytes = (int)f[i + 2]; e.mode = (int)f[i + 3]; e.raw = f[i + 4]; e.seed = f[i + 5]; b.els.push_back(e); }
  b.mut = (int)t.get_i("mut"); b.k = (uint32_t)t.get_u("k"); b.tail = (int)t.get_i("tail", 5);
  return b;
}
static Bytes litBytes(uint32_t seed, size_t len) {
  Bytes o; uint64_t s = 0x1234567ull ^ ((uint64_t)seed << 1 | 1);
  bool lowent = seed % 3 == 0;
  for (size_t i = 0; i < len; i++) { uint64_t r = gen::xs(s); o.push_back(lowent ? (uint8_t)('a' + (r >> 30) % 3) : (uint8_t)(r >> 24)); }
  return o;
}
static uint32_t resolveOff(const El &e, size_t produced, uint32_t maxoff) {
  uint32_t lim = (uint32_t)std::min<size_t>(produced, maxoff);
  if (lim == 0) return 0;
  switch (e.mode) {
    case 0: return 1;
    case 1: return lim;
    case 2: return 1 + e.raw % lim;
    default: { uint32_t m = std::min<uint32_t>(lim, e.len > 1 ? e.len - 1 : 1); return 1 + e.raw % m; }   // offset < length: overlapping copy
  }
}
static rc::Gen<uint32_t> u32(int lo, int hi) { return rc::gen::map(irange(lo, hi), [](int v) { return (uint32_t)v; }); }

// ---- Snappy
static rc::Gen<El> genSnEl() {
  auto lit = rc::gen::mapcat(rc::gen::weightedOneOf<int>({{6, rc::gen::just(0)}, {3, rc::gen::just(1)}, {2, rc::gen::just(2)}, {1, rc::gen::just(3)}, {1, rc::gen::just(4)}}), [](int lb) {
    rc::Gen<uint32_t> len = lb == 0 ? u32(1, 60)
                            : lb == 1 ? rc::gen::weightedOneOf<uint32_t>({{4, u32(61, 256)}, {1, u32(1, 60)}})
                            : lb == 2 ? rc::gen::weightedOneOf<uint32_t>({{4, u32(257, 3000)}, {1, rc::gen::element<uint32_t>(65535, 65536)}, {1, u32(1, 256)}})
                            : lb == 3 ? rc::gen::weightedOneOf<uint32_t>({{1, rc::gen::element<uint32_t>(65537, 70000)}, {4, u32(1, 2000)}})
                                      : u32(1, 2000);
    return rc::gen::map(rc::gen::pair(len, u32(0, 1 << 30)), [lb](const std::pair<uint32_t, uint32_t> &p) { El e; e.kind = 0; e.lenbytes = lb; e.len = p.first; e.seed = p.second; return e; });
  });
  auto copy = rc::gen::mapcat(rc::gen::element(1, 2, 4), [](int kind) {
    rc::Gen<uint32_t> len = kind == 1 ? u32(4, 11) : rc::gen::weightedOneOf<uint32_t>({{3, u32(1, 64)}, {2, rc::gen::element<uint32_t>(1, 2, 3, 4, 11, 12, 60, 63, 64)}});
    return rc::gen::map(rc::gen::tuple(len, irange(0, 3), u32(0, 1 << 30)), [kind](const std::tuple<uint32_t, int, uint32_t> &t) { El e; e.kind = kind; e.len = std::get<0>(t); e.mode = std::get<1>(t); e.raw = std::get<2>(t); return e; });
  });
  return rc::gen::weightedOneOf<El>({{2, lit}, {3, copy}});
}
static rc::Gen<B> genSnB(bool bad) {
  return rc::gen::map(rc::gen::tuple(rc::gen::container<std::vector<El>>(genSnEl()), bad ? irange(0, 5) : rc::gen::just(-1), u32(0, 1 << 20)),
                      [](const std::tuple<std::vector<El>, int, uint32_t> &t) { B b; b.els = std::get<0>(t); b.mut = std::get<1>(t); b.k = std::get<2>(t); return b; });
}
// resolve abstract elements into concrete ones (copies before any output become literals)
static std::vector<ref::SnEl> resolveSn(const B &b, std::set<std::string> &feat) {
  std::vector<ref::SnEl> out; size_t produced = 0;
  for (auto &e : b.els) {
    ref::SnEl s;
    uint32_t maxoff = e.kind == 1 ? 2047u : e.kind == 2 ? 65535u : 0xffffffffu;
    uint32_t off = e.kind ? resolveOff(e, produced, maxoff) : 0;
    if (e.kind == 0 || off == 0) {
      s.kind = 0; s.len = e.kind == 0 ? e.len : std::max<uint32_t>(1, e.len % 61); s.lenbytes = e.kind == 0 ? e.lenbytes : 0;
      s.lit = litBytes(e.seed ^ (uint32_t)produced, s.len);
      if (s.lenbytes) { feat.insert("literal_ext" + std::to_string(s.lenbytes)); bool minimal = (s.lenbytes == 1 ? s.len > 60 : s.lenbytes == 2 ? s.len > 256 : s.lenbytes == 3 ? s.len > 65536 : s.len > (1u << 24)); if (!minimal) feat.insert("non_minimal_literal_length"); }
    } else {
      s.kind = e.kind; s.len = e.len; s.off = off;
      feat.insert("copy" + std::to_string(e.kind));
      if (off < s.len) feat.insert("overlapping_copy");
      if (off == 1) feat.insert("offset1_run");
      if (off == produced) feat.insert("offset=produced");
    }
    produced += s.len;
    out.push_back(s);
  }
  return out;
}
static bool libsnappyDecode(const Bytes &s, Bytes &out) {
  size_t ulen = 0;
  if (!snappy::IsValidCompressedBuffer((const char *)s.data(), s.size())) return false;
  if (!snappy::GetUncompressedLength((const char *)s.data(), s.size(), &ulen)) return false;
  out.resize(ulen);
  return snappy::RawUncompress((const char *)s.data(), s.size(), (char *)out.data());
}
static Verdict runSnappyIn(const B &b) {
  Verdict vd;
  std::set<std::string> feat;
  auto els = resolveSn(b, feat);
  Bytes want;
  if (!ref::snappy_model(els, want)) { vd.vacuous = true; vd.label("generator_bug"); return vd; }
  Bytes stream = ref::snappy_serialize(els, (uint32_t)want.size());
  Bytes o2; std::string err;
  if (!libsnappyDecode(stream, o2) || o2 != want || !ref::snappy_decode(stream.data(), stream.size(), o2, err) || o2 != want) { vd.vacuous = true; vd.label("oracle_disagreement"); return vd; }
  for (auto &f : feat) vd.label(f);
  vd.nontrivial = feat.count("copy4") || feat.count("literal_ext2") || feat.count("literal_ext3") || feat.count("literal_ext4") || feat.count("offset1_run") || feat.count("overlapping_copy");
  Exact in(stream), dst(want.size());
  size_t got = (size_t)-1;
  carquet_status_t s = carquet_snappy_decompress(in.p, in.n, dst.p, want.size(), &got);
  PBT_CHECK(vd, s == CARQUET_OK, "decompressor rejects a valid Snappy block (%zu elements, %zu -> %zu bytes): status %d", els.size(), stream.size(), want.size(), (int)s);
  PBT_CHECK(vd, got == want.size() && memcmp(dst.p, want.data(), want.size()) == 0, "decompressor returns different bytes for a valid Snappy block (got %zu want %zu)", got, want.size());
  size_t ul = (size_t)-1;
  s = carquet_snappy_get_uncompressed_length(in.p, in.n, &ul);
  PBT_CHECK(vd, s == CARQUET_OK && ul == want.size(), "get_uncompressed_length gives %zu (status %d), preamble says %zu", ul, (int)s, want.size());
  return vd;
}
static Verdict runSnappyBad(const B &b) {
  Verdict vd;
  std::set<std::string> feat;
  auto els = resolveSn(b, feat);
  Bytes want;
  if (els.empty() || !ref::snappy_model(els, want) || want.empty()) { vd.vacuous = true; return vd; }
  uint32_t declared = (uint32_t)want.size();
  size_t cap = want.size();
  Bytes stream;
  const char *cls = "";
  // choose a copy element to damage (if any)
  std::vector<size_t> copies;
  for (size_t i = 0; i < els.size(); i++) if (els[i].kind) copies.push_back(i);
  int mut = b.mut;
  if ((mut == 0 || mut == 1) && copies.empty()) mut = 2;
  if (mut == 0) { els[copies[b.k % copies.size()]].off = 0; cls = "offset_0"; stream = ref::snappy_serialize(els, declared); }
  else if (mut == 1) {
    size_t idx = copies[b.k % copies.size()], produced = 0;
    for (size_t i = 0; i < idx; i++) produced += els[i].len;
    uint32_t maxoff = els[idx].kind == 1 ? 2047u : els[idx].kind == 2 ? 65535u : 0xffffffffu;
    if (produced + 1 > maxoff) { mut = 2; }
    else { els[idx].off = (uint32_t)std::min<uint64_t>(maxoff, produced + 1 + (b.k >> 8) % 5); cls = "offset_beyond_output"; stream = ref::snappy_serialize(els, declared); }
  }
  if (mut == 2) { stream = ref::snappy_serialize(els, declared); stream.resize(b.k % stream.size()); cls = "truncated_stream"; }
  else if (mut == 3) { stream = ref::snappy_serialize(els, declared + 1 + b.k % 7); cap = declared + 8; cls = "output_shorter_than_declared"; }
  else if (mut == 4) {
    uint32_t d2 = declared - 1 - (b.k % declared); stream = ref::snappy_serialize(els, d2); cls = "output_longer_than_declared";
    // only an element that *crosses* the declared length is asserted; whole elements after a complete
    // output are "trailing bytes", which this check deliberately does not assert (DESIGN.md, C10)
    size_t acc = 0; bool boundary = d2 == 0;
    for (auto &e : els) { acc += e.len; if (acc == d2) boundary = true; }
    if (boundary) { vd.vacuous = true; vd.label("trailing_elements_after_complete_output(not asserted)"); return vd; }
  }
  else if (mut == 5) { stream = ref::snappy_serialize(els, declared); cap = declared - 1 - (b.k % declared); cls = "capacity_smaller_than_declared"; }
  vd.label(cls);
  // the oracles must agree that the stream is invalid (for the capacity class: that it is valid but too long)
  Bytes o2; std::string err;
  bool refok = ref::snappy_decode(stream.data(), stream.size(), o2, err);
  bool libok = libsnappyDecode(stream, o2);
  if (mut == 5) { if (!refok || !libok) { vd.vacuous = true; vd.label("oracle_disagreement"); return vd; } }
  else if (refok || libok) { vd.vacuous = true; vd.label("oracle_disagreement"); return vd; }
  vd.nontrivial = true;
  Exact in(stream), dst(cap);
  size_t got = 0;
  carquet_status_t s = carquet_snappy_decompress(in.p, in.n, dst.p, cap, &got);
  PBT_CHECK(vd, s != CARQUET_OK, "decompressor accepts an invalid Snappy stream (%s: %s), returning %zu bytes", cls, err.c_str(), got);
  return vd;
}

// ---- LZ4: El.kind 0 = literal run (len may be 0), kind 1 = match (len >= 4); built into sequences
static rc::Gen<El> genLzEl() {
  auto lit = rc::gen::map(rc::gen::pair(rc::gen::weightedOneOf<uint32_t>({{5, u32(0, 14)}, {3, rc::gen::element<uint32_t>(15, 16, 269, 270, 271, 524, 525, 526)}, {1, u32(15, 1200)}}), u32(0, 1 << 30)),
                          [](const std::pair<uint32_t, uint32_t> &p) { El e; e.kind = 0; e.len = p.first; e.seed = p.second; return e; });
  auto mat = rc::gen::map(rc::gen::tuple(rc::gen::weightedOneOf<uint32_t>({{50, u32(4, 18)}, {30, rc::gen::element<uint32_t>(19, 20, 273, 274, 275, 528, 529, 530)}, {10, u32(19, 1200)}, {1, rc::gen::element<uint32_t>(65039, 65040, 65041, 65042, 65554, 70000, 131072, 200000)}})   /* the block format has no upper limit on a match length */, irange(0, 3), u32(0, 1 << 30)),
                          [](const std::tuple<uint32_t, int, uint32_t> &t) { El e; e.kind = 1; e.len = std::get<0>(t); e.mode = std::get<1>(t); e.raw = std::get<2>(t); return e; });
  return rc::gen::weightedOneOf<El>({{1, lit}, {1, mat}});
}
static rc::Gen<B> genLzB(bool bad) {
  return rc::gen::map(rc::gen::tuple(rc::gen::container<std::vector<El>>(genLzEl()), bad ? irange(0, 5) : rc::gen::just(-1), u32(0, 1 << 20), rc::gen::weightedOneOf<int>({{4, irange(5, 20)}, {1, irange(0, 4)}})),
                      [](const std::tuple<std::vector<El>, int, uint32_t, int> &t) { B b; b.els = std::get<0>(t); b.mut = std::get<1>(t); b.k = std::get<2>(t); b.tail = std::get<3>(t); return b; });
}
static std::vector<ref::LzSeq> resolveLz(const B &b, std::set<std::string> &feat, bool &conformant) {
  std::vector<ref::LzSeq> seqs; ref::LzSeq cur; size_t produced = 0; uint32_t lastm = 0;
  for (auto &e : b.els) {
    if (e.kind == 0) { Bytes l = litBytes(e.seed ^ (uint32_t)produced, e.len); cur.lit.insert(cur.lit.end(), l.begin(), l.end()); produced += e.len; }
    else {
      uint32_t off = resolveOff(e, produced, 65535u);
      if (off == 0) { Bytes l = litBytes(e.raw, 1 + e.len % 7); cur.lit.insert(cur.lit.end(), l.begin(), l.end()); produced += l.size(); continue; }
      cur.off = off; cur.mlen = e.len; produced += e.len; lastm = e.len;
      if (off < e.len) feat.insert("overlapping_match");
      if (off == 1) feat.insert("offset1_run");
      if (e.len >= 19 + 255) feat.insert("match_len_255_chain");
      if (e.len >= 19) feat.insert("match_len_extended");
      if (cur.lit.size() >= 15 + 255) feat.insert("literal_len_255_chain");
      if (cur.lit.size() >= 15) feat.insert("literal_len_extended");
      if (cur.lit.empty()) feat.insert("zero_literal_sequence");
      seqs.push_back(cur); cur = ref::LzSeq();
    }
  }
  // final literals-only sequence
  size_t need = lastm ? (size_t)std::max<int>(b.tail, 0) : 0;
  conformant = true;
  if (lastm) { size_t conf = std::max<size_t>(5, lastm >= 12 ? 0 : 12 - lastm); if (b.tail >= 5) need = std::max(need, conf); else conformant = false; }
  while (cur.lit.size() < need) cur.lit.push_back((uint8_t)('z' - cur.lit.size() % 5));
  if (cur.lit.size() >= 15) feat.insert("literal_len_extended");
  seqs.push_back(cur);
  return seqs;
}
static Verdict runLz4In(const B &b) {
  Verdict vd;
  std::set<std::string> feat; bool conformant = true;
  auto seqs = resolveLz(b, feat, conformant);
  Bytes want;
  if (!ref::lz4_model(seqs, want)) { vd.vacuous = true; vd.label("generator_bug"); return vd; }
  Bytes stream = ref::lz4_serialize(seqs);
  Bytes o2; std::string err;
  if (!ref::lz4_decode(stream.data(), stream.size(), o2, err) || o2 != want) { vd.vacuous = true; vd.label("oracle_disagreement"); return vd; }
  Bytes o3(want.size() ? want.size() : 1);
  int r = LZ4_decompress_safe((const char *)stream.data(), (char *)o3.data(), (int)stream.size(), (int)want.size());
  bool libok = r == (int)want.size() && memcmp(o3.data(), want.data(), want.size()) == 0;
  if (!libok) {
    if (conformant) { vd.vacuous = true; vd.label("oracle_disagreement"); return vd; }
    vd.vacuous = true; vd.label("relaxed_end_rejected_by_liblz4"); return vd;   // end-of-block rule violations on decode are not asserted
  }
  if (!conformant) vd.label("relaxed_end_accepted_by_liblz4");
  for (auto &f : feat) vd.label(f);
  vd.nontrivial = feat.count("match_len_255_chain") || feat.count("literal_len_255_chain") || feat.count("overlapping_match") || feat.count("zero_literal_sequence");
  Exact in(stream), dst(want.size());
  size_t got = (size_t)-1;
  carquet_status_t s = carquet_lz4_decompress(in.p, in.n, dst.p, want.size(), &got);
  PBT_CHECK(vd, s == CARQUET_OK, "decompressor rejects a valid LZ4 block (%zu sequences, %zu -> %zu bytes): status %d", seqs.size(), stream.size(), want.size(), (int)s);
  PBT_CHECK(vd, got == want.size() && memcmp(dst.p, want.data(), want.size()) == 0, "decompressor returns different bytes for a valid LZ4 block (got %zu want %zu)", got, want.size());
  return vd;
}
static Verdict runLz4Bad(const B &b) {
  Verdict vd;
  std::set<std::string> feat; bool conformant = true;
  B b2 = b; b2.tail = std::max(b.tail, 5);
  auto seqs = resolveLz(b2, feat, conformant);
  Bytes want;
  if (!ref::lz4_model(seqs, want) || want.empty()) { vd.vacuous = true; return vd; }
  std::vector<size_t> ms;
  for (size_t i = 0; i < seqs.size(); i++) if (seqs[i].off) ms.push_back(i);
  int mut = b.mut;
  size_t cap = want.size();
  Bytes stream;
  const char *cls = "";
  if ((mut == 0 || mut == 1) && ms.empty()) mut = 2;
  if (mut == 0) { seqs[ms[b.k % ms.size()]].off = 0; cls = "offset_0";
    // serialise by hand: off==0 would mean "no match" to the serialiser
    stream.clear();
    for (auto &s : seqs) { bool last = &s == &seqs.back(); size_t ll = s.lit.size(), ml = last ? 0 : s.mlen - 4;
      stream.push_back((uint8_t)((std::min<size_t>(ll, 15) << 4) | (last ? 0 : std::min<size_t>(ml, 15)))); if (ll >= 15) ref::lz_len(stream, ll - 15);
      stream.insert(stream.end(), s.lit.begin(), s.lit.end());
      if (!last) { stream.push_back((uint8_t)s.off); stream.push_back((uint8_t)(s.off >> 8)); if (ml >= 15) ref::lz_len(stream, ml - 15); } } }
  else if (mut == 1) { size_t idx = ms[b.k % ms.size()], produced = 0;
    for (size_t i = 0; i < idx; i++) produced += seqs[i].lit.size() + seqs[i].mlen;
    produced += seqs[idx].lit.size();
    if (produced + 1 > 65535) mut = 2; else { seqs[idx].off = (uint32_t)std::min<size_t>(65535, produced + 1 + (b.k >> 8) % 5); cls = "offset_beyond_output"; stream = ref::lz4_serialize(seqs); } }
  if (mut == 2 || mut == 3) {
    // truncation at a point where the grammar requires more bytes: inside literals, inside the offset, before an extension byte
    stream = ref::lz4_serialize(seqs);
    std::vector<size_t> cuts; size_t pos = 0;
    for (auto &s : seqs) { size_t ll = s.lit.size(); pos++;                       // token
      if (ll >= 15) { size_t ext = (ll - 15) / 255 + 1; for (size_t i = 0; i < ext; i++) cuts.push_back(pos + i); pos += ext; }
      for (size_t i = 0; i < ll; i++) cuts.push_back(pos + i);                     // cut leaves fewer literals than announced
      pos += ll;
      if (s.off) { cuts.push_back(pos + 1); pos += 2; size_t ml = s.mlen - 4; if (ml >= 15) { size_t ext = (ml - 15) / 255 + 1; for (size_t i = 0; i < ext; i++) cuts.push_back(pos + i); pos += ext; } } }
    if (cuts.empty()) { vd.vacuous = true; return vd; }
    stream.resize(cuts[b.k % cuts.size()]); cls = "truncated_inside_element"; }
  else if (mut >= 4) { stream = ref::lz4_serialize(seqs); cap = want.size() - 1 - (b.k % want.size()); cls = "output_exceeds_capacity"; }
  vd.label(cls);
  Bytes o2; std::string err;
  bool refok = ref::lz4_decode(stream.data(), stream.size(), o2, err);
  Bytes o3(want.size() + 16);
  int r = LZ4_decompress_safe((const char *)stream.data(), (char *)o3.data(), (int)stream.size(), (int)cap);
  if (mut >= 4) { if (!refok || r >= 0) { vd.vacuous = true; vd.label("oracle_disagreement"); return vd; } err = "valid block, destination too small"; }
  else if (mut == 0) { if (refok) { vd.vacuous = true; vd.label("oracle_disagreement"); return vd; } }   // liblz4 does not check for offset 0; the format document declares it invalid
  else if (refok || r >= 0) { vd.vacuous = true; vd.label("oracle_disagreement"); return vd; }
  vd.nontrivial = true;
  Exact in(stream), dst(cap);
  size_t got = 0;
  carquet_status_t s = carquet_lz4_decompress(in.p, in.n, dst.p, cap, &got);
  PBT_CHECK(vd, s != CARQUET_OK, "decompressor accepts an invalid LZ4 block (%s: %s), returning %zu bytes", cls, err.c_str(), got);
  return vd;
}

int main(int argc, char **argv) {
  if (getenv("VERIF_TIER") && std::string(getenv("VERIF_TIER")) == "thorough") g_big = 2000000;
  add<A>("snappy_out", 1, [] { return genA(0); }, serA, deA, runSnappyOut);
  add<A>("lz4_out", 1, [] { return genA(1); }, serA, deA, runLz4Out);
  add<B>("snappy_in", 3, [] { return genSnB(false); }, serB, deB, runSnappyIn);
  add<B>("lz4_in", 3, [] { return genLzB(false); }, serB, deB, runLz4In);
  add<B>("snappy_bad", 2, [] { return genSnB(true); }, serB, deB, runSnappyBad);
  add<B>("lz4_bad", 2, [] { return genLzB(true); }, serB, deB, runLz4Bad);
  return main_(argc, argv);
}
