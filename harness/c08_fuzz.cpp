// C08, libFuzzer engine: one decoder family per process (--family=N pins the family byte of every mutated input), the
// contract of harness/common/decoders.hpp as in-target oracle.  Replay: run the binary with the saved input's path.
#include "harness/common/decoders.hpp"
#include <map>
#include <set>
#include <string>
#include <unistd.h>

extern "C" size_t LLVMFuzzerMutate(uint8_t *Data, size_t Size, size_t MaxSize);
extern "C" void __sanitizer_set_death_callback(void (*)(void));

static int g_fam = -1;
static std::string g_out;
static uint64_t g_evals = 0, g_short = 0;
static std::map<std::string, uint64_t> g_classes;
static std::set<uint64_t> g_nt;
static std::vector<std::string> g_samples;
static bool g_written = false;

static uint64_t fnv(const uint8_t *d, size_t n) { uint64_t h = 1469598103934665603ull; for (size_t i = 0; i < n; i++) { h ^= d[i]; h *= 1099511628211ull; } return h; }
static void writeStats() {
  if (g_out.empty() || g_written) return;
  g_written = true;
  FILE *f = fopen((g_out + "/stats.json").c_str(), "w");
  if (!f) return;
  fprintf(f, "{\"evaluations\": %llu, \"vacuous\": %llu, \"excluded\": 0, \"classes\": {", (unsigned long long)g_evals, (unsigned long long)g_short);
  bool first = true;
  for (auto &kv : g_classes) { fprintf(f, "%s\"%s\": %llu", first ? "" : ", ", kv.first.c_str(), (unsigned long long)kv.second); first = false; }
  fprintf(f, "}, \"per_prop\": {\"fuzz_%s\": %llu}, \"samples\": [", g_fam >= 0 ? dc::famName(g_fam) : "any", (unsigned long long)g_evals);
  for (size_t i = 0; i < g_samples.size(); i++) fprintf(f, "%s\"%s\"", i ? ", " : "", g_samples[i].c_str());
  fprintf(f, "]}\n");
  fclose(f);
  f = fopen((g_out + "/nontrivial.u64").c_str(), "wb");
  if (f) { for (uint64_t h : g_nt) fwrite(&h, 8, 1, f); fclose(f); }
}
static void onDeath() { writeStats(); }

extern "C" int LLVMFuzzerInitialize(int *argc, char ***argv) {
  for (int i = 1; i < *argc; i++) {
    std::string a = (*argv)[i];
    if (a.rfind("--family=", 0) == 0) g_fam = atoi(a.c_str() + 9) % dc::NFAM;
    if (a.rfind("--out=", 0) == 0) g_out = a.substr(6);
  }
  dc::warmup();
  atexit(writeStats);
  __sanitizer_set_death_callback(onDeath);
  return 0;
}

extern "C" size_t LLVMFuzzerCustomMutator(uint8_t *data, size_t size, size_t max_size, unsigned int) {
  size_t n = LLVMFuzzerMutate(data, size, max_size);
  if (g_fam >= 0 && n >= 1) data[n - 1] = (uint8_t)g_fam;
  return n;
}

extern "C" int LLVMFuzzerTestOneInput(const uint8_t *data, size_t size) {
  dc::Call c;
  if (!dc::fromBytes(data, size, c)) { g_short++; return 0; }
  if (g_fam >= 0 && c.fam != g_fam) { g_short++; return 0; }
  dc::Out o = dc::exec(c);
  g_evals++;
  std::string cls = std::string(dc::famName(c.fam)) + "/" + dc::subName(c.fam, c.sub) + (o.success ? (o.produced > 0 ? ":decoded" : ":empty_success") : ":rejected");
  g_classes[cls]++;
  if (c.n < 0) g_classes["negative_count"]++;
  if (o.success && o.produced > 0 && g_nt.size() < 2000000) { if (g_nt.insert(fnv(data, size)).second && g_samples.size() < 12 && (g_nt.size() % 37) == 1) g_samples.push_back(dc::describe(c) + " -> " + std::to_string(o.produced) + " produced"); }
  if (!o.ok) {
    fprintf(stderr, "C08 CONTRACT VIOLATION: %s\n  call: %s\n", o.msg, dc::describe(c).c_str());
    writeStats();
    __builtin_trap();
  }
  return 0;
}
