// C04: no input file can make the reader memory-unsafe, hang or leak.
// A valid file from the reference writer is damaged by generated structure-aware mutations (footer and page-header fields
// through the reference Thrift DOM with offsets kept consistent, level-length prefixes, dictionary bit widths, payload bytes,
// footer length, magic, truncation, deep nesting of unknown fields, raw byte edits) and then driven through a generated
// script of valid API calls in one of the three I/O modes.  Oracle: no sanitizer report; every failing call that was given
// an error struct leaves a non-OK code and a NUL-terminated message; out-of-range indices are errors; counts returned never
// exceed the request; byte-array results are dereferenced; the live-heap byte count after close equals the one before open;
// no case uses more than 20 s of CPU.
#include "harness/common/pbt.hpp"
#include "harness/common/consume.hpp"
#include "harness/common/hostile_script.hpp"
#include "gen/files.hpp"
#include "ref/thrift_ref.hpp"
#include "ref/parquet_writer.hpp"

extern "C" size_t __sanitizer_get_current_allocated_bytes();
using namespace pbt;
using tr::TVal;

struct Mut { int kind = 0; long a = 0, b = 0, c = 0; };
enum { M_FOOT_INT = 0, M_FOOT_DROP, M_FOOT_LIST, M_FOOT_BIN, M_PAGE_INT, M_PAGE_DROP, M_BODY_BYTE, M_BODY_WORD, M_TRUNC, M_FOOT_LEN, M_MAGIC, M_RAW, M_DEEP, M_FOOT_RETYPE, M_DEEP_SCHEMA, M_NKINDS };
static const char *mutName(int k) { static const char *n[] = {"footer_int", "footer_drop_field", "footer_list_resize", "footer_binary", "page_header_int", "page_header_drop_field", "page_body_byte", "page_body_word", "truncate", "footer_length", "magic", "raw_bytes", "deep_nesting", "footer_retype", "deep_schema"}; return n[k]; }

struct C { pw::FileSpec fs; std::vector<Mut> muts; int mode = 0; std::vector<int> sc; };
static CaseText ser(const C &c) {
  CaseText t; t.put_i("mode", c.mode); t.put_ints("script", c.sc);
  std::vector<long> m; for (auto &x : c.muts) { m.push_back(x.kind); m.push_back(x.a); m.push_back(x.b); m.push_back(x.c); }
  t.put_ints("muts", m); gf::putSpec(t, c.fs); return t;
}
static C de(const CaseText &t) {
  C c; c.mode = (int)t.get_i("mode"); c.sc = t.get_ints<int>("script");
  auto m = t.get_ints<long>("muts"); for (size_t i = 0; i + 3 < m.size(); i += 4) { Mut x; x.kind = (int)m[i]; x.a = m[i + 1]; x.b = m[i + 2]; x.c = m[i + 3]; c.muts.push_back(x); }
  c.fs = gf::getSpec(t); return c;
}
static rc::Gen<Mut> genMut() {
  return rc::gen::map(rc::gen::tuple(rc::gen::weightedElement<int>({{6, M_FOOT_INT}, {2, M_FOOT_DROP}, {2, M_FOOT_LIST}, {2, M_FOOT_BIN}, {5, M_PAGE_INT}, {1, M_PAGE_DROP}, {4, M_BODY_BYTE}, {3, M_BODY_WORD}, {1, M_TRUNC}, {1, M_FOOT_LEN}, {1, M_MAGIC}, {2, M_RAW}, {1, M_DEEP}, {1, M_FOOT_RETYPE}, {1, M_DEEP_SCHEMA}}),
                                     irange(0, 100000), irange(0, 100000), irange(0, 100000)),
                      [](const std::tuple<int, int, int, int> &t) { Mut m; m.kind = std::get<0>(t); m.a = std::get<1>(t); m.b = std::get<2>(t); m.c = std::get<3>(t); return m; });
}
static rc::Gen<C> genC() {
  gf::Opts o; o.max_cols = 5; o.max_rows = 60; o.max_rgs = 2; o.max_pages = 3; o.nested = true;
  // rarely a wide file: the parsed metadata then spans several arena blocks of the reader (a few hundred column chunks)
  gf::Opts wide; wide.max_cols = 120; wide.max_rows = 3; wide.max_rgs = 4; wide.max_pages = 1; wide.nested = false; wide.min_cols = 40;
  auto spec = rc::gen::weightedOneOf<pw::FileSpec>({{14, gf::specGen(o)}, {1, gf::specGen(wide)}});
  return rc::gen::map(rc::gen::tuple(spec, rc::gen::resize(4, rc::gen::container<std::vector<Mut>>(genMut())), irange(0, 2), rc::gen::container<std::vector<int>>(12, irange(0, 1000))),
                      [](const std::tuple<pw::FileSpec, std::vector<Mut>, int, std::vector<int>> &t) { C c; c.fs = std::get<0>(t); c.mode = std::get<2>(t); c.sc = std::get<3>(t); c.muts = std::get<1>(t); if (c.muts.size() > 3) c.muts.resize(3); if (c.muts.empty() && (c.sc[0] % 8) != 0) { Mut m; m.kind = c.sc[1] % M_NKINDS; m.a = c.sc[2] * 31 + c.sc[5]; m.b = c.sc[3] * 17 + c.sc[6]; m.c = c.sc[4] * 13 + c.sc[7]; c.muts.push_back(m); } return c; });
}

// ------------------------------------------------------------------------------------------------ DOM helpers
static void collect(TVal &v, std::vector<TVal *> &ints, std::vector<TVal *> &bins, std::vector<TVal *> &structs, std::vector<TVal *> &lists) {
  switch (v.type) {
    case tr::T_BYTE: case tr::T_I16: case tr::T_I32: case tr::T_I64: ints.push_back(&v); break;
    case tr::T_BINARY: bins.push_back(&v); break;
    case tr::T_LIST: case tr::T_SET: lists.push_back(&v); for (auto &e : v.elems) collect(e, ints, bins, structs, lists); break;
    case tr::T_STRUCT: structs.push_back(&v); for (auto &f : v.fields) collect(*f.v, ints, bins, structs, lists); break;
    default: break;
  }
}
static int64_t boundary(long sel, int64_t orig, int64_t fsize, const std::vector<TVal *> &ints) {
  static const int64_t fixed[] = {0, 1, -1, 2, 3, 7, 8, 9, 12, 16, 255, 256, 10000, 10001, 65535, 65536, INT32_MAX, INT32_MIN, (int64_t)INT32_MAX + 1, (int64_t)1 << 32, INT64_MAX, INT64_MIN, INT64_MAX / 2, 0x7ffffffc, -2, 100000, 1000000, 0x3fffffff, 0x40000000, (int64_t)0xffffffffu};
  const int NF = (int)(sizeof fixed / sizeof fixed[0]);
  int k = (int)(sel % (NF + 10));
  if (k < NF) return fixed[k];
  switch (k - NF) {
    case 0: return orig + 1; case 1: return orig - 1; case 2: return orig * 2; case 3: return -orig; case 4: return fsize; case 5: return fsize - 1; case 6: return fsize + 1; case 7: return fsize - orig;
    case 8: return ints.empty() ? 0 : ints[(size_t)(sel / 64) % ints.size()]->i;   // a neighbouring field's value
    default: return orig ^ ((int64_t)1 << ((sel / 64) % 40));
  }
}
static void put_le32(Bytes &b, size_t off, uint32_t v) { for (int i = 0; i < 4; i++) if (off + (size_t)i < b.size()) b[off + (size_t)i] = (uint8_t)(v >> (8 * i)); }

// shift every footer offset that lies behind `pos` by `delta` (a page header changed its size)
static void shiftOffsets(TVal &root, int64_t pos, int64_t delta) {
  TVal *rgs = const_cast<TVal *>(root.get(4));
  if (!rgs) return;
  for (auto &rg : rgs->elems) {
    TVal *cols = const_cast<TVal *>(rg.get(1)); if (!cols) continue;
    for (auto &cc : cols->elems) {
      TVal *fo = const_cast<TVal *>(cc.get(2)); if (fo && fo->i > pos) fo->i += delta;
      TVal *md = const_cast<TVal *>(cc.get(3)); if (!md) continue;
      for (int16_t id : {(int16_t)9, (int16_t)10, (int16_t)11}) { TVal *x = const_cast<TVal *>(md->get(id)); if (x && x->i > pos) x->i += delta; }
    }
    TVal *fo = const_cast<TVal *>(rg.get(5)); if (fo && fo->i > pos) fo->i += delta;
  }
}

struct Hostile { Bytes bytes; std::vector<std::string> applied; bool structural = false; };
static Hostile build(const C &c) {
  Hostile h;
  pw::Written w = pw::write_file(c.fs);
  Bytes body(w.bytes.begin(), w.bytes.begin() + (long)w.footer_off);
  TVal foot; std::string err; size_t used = 0;
  bool have = tr::decode(w.bytes.data() + w.footer_off, w.footer_len, foot, err, &used);
  std::vector<pw::PageInfo> pages = w.pages;
  int64_t fsize = (int64_t)w.bytes.size();
  long forced_len = -1; int magic_mode = 0; long trunc_at = -1; std::vector<Mut> raws; Bytes deep;
  for (auto &m : c.muts) {
    switch (m.kind) {
      case M_PAGE_INT: case M_PAGE_DROP: {
        if (pages.empty()) break;
        size_t j = (size_t)m.a % pages.size();
        pw::PageInfo &p = pages[j];
        TVal ph; size_t u2 = 0;
        if (!tr::decode(body.data() + p.header_off, p.header_len, ph, err, &u2)) break;
        std::vector<TVal *> ints, bins, structs, lists; collect(ph, ints, bins, structs, lists);
        if (m.kind == M_PAGE_INT) { if (ints.empty()) break; TVal *t = ints[(size_t)m.b % ints.size()]; t->i = boundary(m.c, t->i, fsize, ints); }
        else { TVal *s = structs[(size_t)m.b % structs.size()]; if (s->fields.empty()) break; s->fields.erase(s->fields.begin() + (long)((size_t)m.c % s->fields.size())); }
        Bytes nh = tr::encode(ph);
        int64_t delta = (int64_t)nh.size() - (int64_t)p.header_len;
        body.erase(body.begin() + (long)p.header_off, body.begin() + (long)(p.header_off + p.header_len));
        body.insert(body.begin() + (long)p.header_off, nh.begin(), nh.end());
        if (delta != 0) {
          if (have) shiftOffsets(foot, (int64_t)p.header_off, delta);
          for (auto &q : pages) if (q.header_off > p.header_off) { q.header_off = (size_t)((int64_t)q.header_off + delta); q.body_off = (size_t)((int64_t)q.body_off + delta); }
          p.body_off = (size_t)((int64_t)p.body_off + delta);
        }
        p.header_len = nh.size();
        h.applied.push_back(mutName(m.kind)); h.structural = true;
        break;
      }
      case M_BODY_BYTE: case M_BODY_WORD: {
        if (pages.empty()) break;
        pw::PageInfo &p = pages[(size_t)m.a % pages.size()];
        if (p.body_len == 0) break;
        // the first bytes of a body hold level-length prefixes / the dictionary bit width: aim there half of the time
        size_t off = (m.b & 1) ? (size_t)(m.b >> 1) % std::min<size_t>(p.body_len, 12) : (size_t)(m.b >> 1) % p.body_len;
        if (m.kind == M_BODY_BYTE) { static const uint8_t v[] = {0, 1, 2, 7, 8, 9, 16, 31, 32, 33, 64, 127, 128, 255, 254, 0x0f}; body[p.body_off + off] = (m.c & 1) ? v[(size_t)(m.c >> 1) % sizeof v] : (uint8_t)(m.c >> 1); }
        else { static const uint32_t v[] = {0, 1, 0xffffffffu, 0x7fffffffu, 0x80000000u, 0xfffffffcu, 0xfffffffbu, 4, 5}; uint32_t x = (size_t)m.c % 12 < 9 ? v[(size_t)m.c % 12] : (uint32_t)((int64_t)p.body_len - 4 + (m.c % 12) - 9 - (int64_t)off); put_le32(body, p.body_off + off, x); }
        h.applied.push_back(mutName(m.kind)); h.structural = true;
        break;
      }
      case M_FOOT_INT: case M_FOOT_DROP: case M_FOOT_LIST: case M_FOOT_BIN: case M_FOOT_RETYPE: {
        if (!have) break;
        std::vector<TVal *> ints, bins, structs, lists; collect(foot, ints, bins, structs, lists);
        if (m.kind == M_FOOT_INT) { if (ints.empty()) break; TVal *t = ints[(size_t)m.a % ints.size()]; t->i = boundary(m.b, t->i, fsize, ints); }
        else if (m.kind == M_FOOT_DROP) { TVal *s = structs[(size_t)m.a % structs.size()]; if (s->fields.empty()) break; s->fields.erase(s->fields.begin() + (long)((size_t)m.b % s->fields.size())); }
        else if (m.kind == M_FOOT_LIST) {
          if (lists.empty()) break; TVal *l = lists[(size_t)m.a % lists.size()];
          int how = (int)(m.b % 5);
          if (how == 0) l->elems.clear();
          else if (how == 1 && !l->elems.empty()) l->elems.pop_back();
          else if (how == 2 && !l->elems.empty()) l->elems.push_back(l->elems[(size_t)m.c % l->elems.size()]);
          else if (how == 3 && !l->elems.empty()) { size_t n = 1 + (size_t)m.c % 40; TVal e = l->elems[0]; for (size_t i = 0; i < n; i++) l->elems.push_back(e); }
          else if (!l->elems.empty()) l->elems.erase(l->elems.begin());
        }
        else if (m.kind == M_FOOT_BIN) { if (bins.empty()) break; TVal *b = bins[(size_t)m.a % bins.size()]; int how = (int)(m.b % 4); if (how == 0) b->bin.clear(); else if (how == 1) b->bin.assign((size_t)m.c % (bins.size() > 2000 ? 64 : 70000), (uint8_t)'A');   /* nodes of a deep schema chain share one name object */ else if (how == 2) b->bin.push_back(0); else b->bin.resize(b->bin.size() / 2); }
        else { if (ints.empty()) break; TVal *t = ints[(size_t)m.a % ints.size()]; static const int ty[] = {tr::T_BYTE, tr::T_I16, tr::T_I32, tr::T_I64, tr::T_TRUE, tr::T_DOUBLE, tr::T_BINARY}; t->type = ty[(size_t)m.b % 7]; if (t->type == tr::T_BYTE) t->i = (int8_t)t->i; }
        h.applied.push_back(mutName(m.kind)); h.structural = true;
        break;
      }
      case M_DEEP: {   // unknown field 30 of the footer: nested containers (depth bounded by the case text size)
        long depth = 1 + (m.a % 3 == 0 ? m.b % 60 : m.a % 3 == 1 ? 500 + m.b % 3000 : 150000 + m.b);
        int kind = (int)(m.c % 3);
        deep = {(uint8_t)(kind == 0 ? 0x09 : kind == 1 ? 0x0A : 0x0C), 0x3C};
        deep.insert(deep.end(), (size_t)depth, (uint8_t)(kind == 0 ? 0x19 : kind == 1 ? 0x1A : 0x1C));
        if (kind == 2) deep.insert(deep.end(), (size_t)std::min<long>(depth, 64) + 1, 0x00); else { deep.push_back(0x15); deep.push_back(0x00); }
        h.applied.push_back(mutName(m.kind)); h.structural = true;
        break;
      }
      case M_DEEP_SCHEMA: {   // the schema list becomes a chain of single-child groups above one leaf (depth-first recursion of the schema builder)
        if (!have) break;
        static const long depths[] = {3, 40, 900, 5000, 9990, 9998, 9999, 10001, 60000, 120000, 300000};
        long depth = depths[(size_t)m.a % (sizeof depths / sizeof depths[0])];
        TVal *sl = const_cast<TVal *>(foot.get(2));
        if (!sl || sl->elems.size() < 2) break;
        TVal root = sl->elems[0], leaf = sl->elems.back();
        for (auto &f : root.fields) if (f.id == 5) f.v->i = 1;
        TVal grp = TVal::Struct(); grp.add(3, TVal::Int(tr::T_I32, (m.b % 3))); grp.add(4, TVal::Str("g")); grp.add(5, TVal::Int(tr::T_I32, 1));
        std::vector<TVal> el; el.reserve((size_t)depth + 2);
        el.push_back(root); for (long i = 0; i < depth; i++) el.push_back(grp); el.push_back(leaf);
        sl->elems.swap(el);
        // keep one column chunk per row group so that the footer stays otherwise consistent
        TVal *rgs = const_cast<TVal *>(foot.get(4));
        if (rgs) for (auto &rg : rgs->elems) { TVal *cols = const_cast<TVal *>(rg.get(1)); if (cols && cols->elems.size() > 1) { TVal last = cols->elems.back(); cols->elems.clear(); cols->elems.push_back(last); } }
        h.applied.push_back(mutName(m.kind)); h.structural = true;
        break;
      }
      case M_FOOT_LEN: forced_len = m.a; h.applied.push_back(mutName(m.kind)); h.structural = true; break;
      case M_MAGIC: magic_mode = 1 + (int)(m.a % 4); h.applied.push_back(mutName(m.kind)); break;
      case M_TRUNC: trunc_at = m.a; h.applied.push_back(mutName(m.kind)); break;
      case M_RAW: raws.push_back(m); h.applied.push_back(mutName(m.kind)); break;
      default: break;
    }
  }
  Bytes fb = have ? tr::encode(foot) : Bytes(w.bytes.begin() + (long)w.footer_off, w.bytes.begin() + (long)(w.footer_off + w.footer_len));
  if (!deep.empty() && !fb.empty()) { fb.pop_back(); fb.insert(fb.end(), deep.begin(), deep.end()); fb.push_back(0x00); }   // before the struct's STOP
  h.bytes = body;
  h.bytes.insert(h.bytes.end(), fb.begin(), fb.end());
  uint32_t flen = (uint32_t)fb.size();
  if (forced_len >= 0) { static const uint32_t v[] = {0, 1, 0xffffffffu, 0x7fffffffu, 0x80000000u, 7, 8}; int k = (int)(forced_len % 12); flen = k < 7 ? v[k] : k == 7 ? flen + 1 : k == 8 ? flen - 1 : k == 9 ? (uint32_t)h.bytes.size() : k == 10 ? (uint32_t)h.bytes.size() - 4 : (uint32_t)h.bytes.size() + 8; }
  for (int i = 0; i < 4; i++) h.bytes.push_back((uint8_t)(flen >> (8 * i)));
  const char *mg = magic_mode == 1 ? "PARE" : magic_mode == 2 ? "PAR2" : magic_mode == 3 ? "\0\0\0\0" : "PAR1";
  h.bytes.insert(h.bytes.end(), mg, mg + 4);
  if (magic_mode == 4 && h.bytes.size() >= 4) h.bytes[0] = 'X';
  for (auto &m : raws) { if (h.bytes.empty()) break; size_t n = 1 + (size_t)m.c % 4; for (size_t i = 0; i < n; i++) { size_t p = (size_t)(m.a * 7919 + (long)i * 104729 + m.b) % h.bytes.size(); h.bytes[p] ^= (uint8_t)(1u << ((m.b + (long)i) % 8)); } }
  if (trunc_at >= 0 && !h.bytes.empty()) h.bytes.resize((size_t)trunc_at % h.bytes.size());
  return h;
}

static Verdict run(const C &c) {
  Verdict vd;
  Hostile h = build(c);
  bool opened = false, page = false;
  size_t before = __sanitizer_get_current_allocated_bytes();
  {
    Verdict inner;
    hs::script(h.bytes, c.mode, c.sc, inner, opened, page);
    vd.ok = inner.ok; vd.msg = inner.msg;
  }
  size_t after = __sanitizer_get_current_allocated_bytes();
  std::string kinds; for (auto &a : h.applied) { vd.label("mut:" + a); kinds += a + " "; }
  vd.label(rd::modeName(c.mode)); vd.label(opened ? (page ? "opened+values_read" : "opened") : "rejected_at_open");
  if (h.applied.empty()) vd.label("unmutated");
  vd.nontrivial = h.structural || opened;
  if (!vd.ok) { vd.msg = std::string(rd::modeName(c.mode)) + " [" + kinds + "]: " + vd.msg; return vd; }
  PBT_CHECK(vd, after <= before, "%s [%s]: %zu heap bytes are still allocated after the reader and all handles were closed", rd::modeName(c.mode), kinds.c_str(), after - before);
  PBT_CHECK(vd, !(h.applied.empty() && !opened), "%s: the unmutated reference file was rejected at open", rd::modeName(c.mode));
  return vd;
}

// warm-up: lazily created tables / per-thread codec contexts exist before live bytes are compared
static void warm() {
  gf::Opts o; o.max_cols = 3; o.max_rows = 8; o.max_rgs = 1;
  rc::Random rnd(12345);
  for (int codec : {pq::UNCOMPRESSED, pq::SNAPPY, pq::GZIP, pq::ZSTD, pq::LZ4_RAW}) {
    rc::Random r = rnd.split();
    pw::FileSpec fs = gf::specGen(o)(r, 30).value();
    for (auto &rg : fs.row_groups) for (auto &cs : rg) cs.codec = codec;
    pw::Written w = pw::write_file(fs);
    for (int mode = 0; mode < 3; mode++) { C c; c.fs = fs; c.mode = mode; c.sc = {1, 2, 3}; Verdict vd; bool a = false, b = false; hs::script(w.bytes, c.mode, c.sc, vd, a, b); }
  }
}

// --emit DIR COUNT SEED: hostile and valid files in the byte format of the fuzz target (file bytes || mode || 13 script bytes)
static int emitCorpus(const char *dir, int count, uint64_t seed) {
  rc::Random rnd(seed);
  int written = 0;
  for (int i = 0; i < count; i++) {
    rc::Random r = rnd.split();
    C c = genC()(r, 10 + i % 60).value();
    if (i % 3 == 0) c.muts.clear();
    Hostile h = build(c);
    if (h.bytes.size() > 60000) continue;
    Bytes b = h.bytes; b.push_back((uint8_t)c.mode); for (int k = 0; k < 13; k++) b.push_back((uint8_t)(c.sc[(size_t)k % c.sc.size()]));
    pbt::write_file(std::string(dir) + "/" + std::to_string(i), std::string(b.begin(), b.end()));
    written++;
  }
  printf("emitted %d inputs\n", written);
  return 0;
}

int main(int argc, char **argv) {
  if (argc == 5 && std::string(argv[1]) == "--emit") return emitCorpus(argv[2], atoi(argv[3]), strtoull(argv[4], nullptr, 10));
  case_cpu_limit() = 20;
  warm();
  add<C>("hostile", 1, genC, ser, de, run);
  return main_(argc, argv);
}
