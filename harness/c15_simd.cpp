// C15: every SIMD kernel equals its scalar definition at every ISA level, and touches
// nothing outside [0,count) of the caller's arrays.
// Oracle: textbook scalar definitions written here; PROT_NONE guard pages directly behind
// (or in front of) every array; canaries around output arrays.
// The dispatcher is checked in separate processes, one per CARQUET_VERIF_CPU_CAP mask.
#include "harness/common/pbt.hpp"
#include <sys/mman.h>
#include <cstddef>

extern "C" {
#include <carquet/carquet.h>
#define K3(pfx) \
  void carquet_##pfx##_prefix_sum_i32(int32_t *, int64_t, int32_t); void carquet_##pfx##_prefix_sum_i64(int64_t *, int64_t, int64_t); \
  void carquet_##pfx##_gather_i32(const int32_t *, const uint32_t *, int64_t, int32_t *); void carquet_##pfx##_gather_i64(const int64_t *, const uint32_t *, int64_t, int64_t *); \
  void carquet_##pfx##_gather_float(const float *, const uint32_t *, int64_t, float *); void carquet_##pfx##_gather_double(const double *, const uint32_t *, int64_t, double *); \
  void carquet_##pfx##_byte_stream_split_encode_float(const float *, int64_t, uint8_t *); void carquet_##pfx##_byte_stream_split_decode_float(const uint8_t *, int64_t, float *); \
  void carquet_##pfx##_unpack_bools(const uint8_t *, uint8_t *, int64_t); void carquet_##pfx##_pack_bools(const uint8_t *, uint8_t *, int64_t); \
  int64_t carquet_##pfx##_find_run_length_i32(const int32_t *, int64_t);
K3(sse) K3(avx2) K3(avx512)
void carquet_sse_byte_stream_split_encode_double(const double *, int64_t, uint8_t *); void carquet_sse_byte_stream_split_decode_double(const uint8_t *, int64_t, double *);
void carquet_avx2_byte_stream_split_encode_double(const double *, int64_t, uint8_t *); void carquet_avx2_byte_stream_split_decode_double(const uint8_t *, int64_t, double *);
uint32_t carquet_sse_crc32c(uint32_t, const uint8_t *, size_t);
void carquet_sse_memset_small(void *, uint8_t, size_t); void carquet_sse_memcpy_small(void *, const void *, size_t);
void carquet_avx2_memset(void *, uint8_t, size_t); void carquet_avx2_memcpy(void *, const void *, size_t);
void carquet_avx512_memset(void *, uint8_t, size_t); void carquet_avx512_memcpy(void *, const void *, size_t);
void carquet_sse_match_copy(uint8_t *, const uint8_t *, size_t, size_t); size_t carquet_sse_match_length(const uint8_t *, const uint8_t *, const uint8_t *);
int64_t carquet_sse_count_non_nulls(const int16_t *, int64_t, int16_t); void carquet_sse_build_null_bitmap(const int16_t *, int64_t, int16_t, uint8_t *);
void carquet_sse_fill_def_levels(int16_t *, int64_t, int16_t);
void carquet_sse_bitunpack32_1bit(const uint8_t *, uint32_t *); void carquet_sse_bitunpack8_4bit(const uint8_t *, uint32_t *); void carquet_sse_bitunpack8_8bit(const uint8_t *, uint32_t *);
void carquet_avx2_bitunpack64_1bit(const uint8_t *, uint32_t *); void carquet_avx2_bitunpack16_4bit(const uint8_t *, uint32_t *); void carquet_avx2_bitunpack16_8bit(const uint8_t *, uint32_t *); void carquet_avx2_bitunpack8_16bit(const uint8_t *, uint32_t *);
void carquet_avx512_bitunpack32_8bit(const uint8_t *, uint32_t *); void carquet_avx512_bitunpack16_16bit(const uint8_t *, uint32_t *); void carquet_avx512_bitunpack32_4bit(const uint8_t *, uint32_t *);
// dispatcher
void carquet_dispatch_prefix_sum_i32(int32_t *, int64_t, int32_t); void carquet_dispatch_prefix_sum_i64(int64_t *, int64_t, int64_t);
void carquet_dispatch_gather_i32(const int32_t *, const uint32_t *, int64_t, int32_t *); void carquet_dispatch_gather_i64(const int64_t *, const uint32_t *, int64_t, int64_t *);
void carquet_dispatch_gather_float(const float *, const uint32_t *, int64_t, float *); void carquet_dispatch_gather_double(const double *, const uint32_t *, int64_t, double *);
void carquet_dispatch_byte_split_encode_float(const float *, int64_t, uint8_t *); void carquet_dispatch_byte_split_decode_float(const uint8_t *, int64_t, float *);
void carquet_dispatch_byte_split_encode_double(const double *, int64_t, uint8_t *); void carquet_dispatch_byte_split_decode_double(const uint8_t *, int64_t, double *);
void carquet_dispatch_unpack_bools(const uint8_t *, uint8_t *, int64_t); void carquet_dispatch_pack_bools(const uint8_t *, uint8_t *, int64_t);
int64_t carquet_dispatch_find_run_length_i32(const int32_t *, int64_t); uint32_t carquet_dispatch_crc32c(uint32_t, const uint8_t *, size_t);
void carquet_dispatch_match_copy(uint8_t *, const uint8_t *, size_t, size_t); size_t carquet_dispatch_match_length(const uint8_t *, const uint8_t *, const uint8_t *);
int64_t carquet_dispatch_count_non_nulls(const int16_t *, int64_t, int16_t); void carquet_dispatch_build_null_bitmap(const int16_t *, int64_t, int16_t, uint8_t *);
void carquet_dispatch_fill_def_levels(int16_t *, int64_t, int16_t);
}

using namespace pbt;

// --------------------------------------------------------------- guarded memory
static const size_t PAGE = 4096;
struct Region {
  uint8_t *map, *base; size_t size;
  explicit Region(size_t sz) : size(sz) {
    map = (uint8_t *)mmap(nullptr, sz + 2 * PAGE, PROT_READ | PROT_WRITE, MAP_PRIVATE | MAP_ANONYMOUS, -1, 0);
    if (map == MAP_FAILED) { perror("mmap"); exit(3); }
    mprotect(map, PAGE, PROT_NONE); mprotect(map + PAGE + sz, PAGE, PROT_NONE);
    base = map + PAGE;
  }
};
static const uint8_t CANARY = 0xC5;
// an array of n bytes placed either so that byte n is the first byte of a PROT_NONE page (place 0)
// or so that it starts `mis` bytes behind a PROT_NONE page (place 1)
struct Arr {
  uint8_t *p; size_t n; uint8_t *lo, *hi;   // [lo,hi) = canary window around the array inside the region
  Arr(Region &r, size_t n_, int place, size_t mis) : n(n_) {
    if (n_ + 600 > r.size) { fprintf(stderr, "array too large for region\n"); exit(3); }
    p = place == 0 ? r.base + r.size - n_ : r.base + mis;
    lo = std::max(r.base, p - 256); hi = std::min(r.base + r.size, p + n_ + 256);
    memset(lo, CANARY, (size_t)(hi - lo));
  }
  bool intact(std::string &why, const char *name) const {
    for (uint8_t *q = lo; q < p; q++) if (*q != CANARY) { why = std::string(name) + ": byte " + std::to_string(q - p) + " (before the array) was written"; return false; }
    for (uint8_t *q = p + n; q < hi; q++) if (*q != CANARY) { why = std::string(name) + ": byte " + std::to_string(q - p) + " (array has " + std::to_string(n) + " bytes) was written"; return false; }
    return true;
  }
};
static Region *R[4];

// --------------------------------------------------------------------- cases
struct K { std::string kernel, variant, mask; int count = 0, place = 0, mis = 0, dmis = 0, pattern = 0; uint32_t seed = 1; };
static CaseText ser(const K &k) { CaseText t; t.put("kernel", k.kernel); t.put("variant", k.variant); t.put_i("count", k.count); t.put_i("place", k.place); t.put_i("mis", k.mis); t.put_i("dmis", k.dmis); t.put_i("pattern", k.pattern); t.put_u("seed", k.seed); if (k.variant == "dispatch") t.put("mask", k.mask); return t; }
static K de(const CaseText &t) { K k; k.kernel = t.get("kernel"); k.variant = t.get("variant"); k.count = (int)t.get_i("count"); k.place = (int)t.get_i("place"); k.mis = (int)t.get_i("mis"); k.dmis = (int)t.get_i("dmis"); k.pattern = (int)t.get_i("pattern"); k.seed = (uint32_t)t.get_u("seed"); k.mask = t.get_or("mask", ""); return k; }

static uint64_t xs(uint64_t &s) { s ^= s << 13; s ^= s >> 7; s ^= s << 17; return s; }
static bool have(const std::string &v) {
  if (v == "sse") return __builtin_cpu_supports("sse4.2");
  if (v == "avx2") return __builtin_cpu_supports("avx2") && __builtin_cpu_supports("bmi2");
  if (v == "avx512") return __builtin_cpu_supports("avx512f") && __builtin_cpu_supports("avx512bw") && __builtin_cpu_supports("avx512vl");
  return true;
}
static int lanes(const std::string &v) { return v == "sse" ? 16 : v == "avx2" ? 32 : 64; }

// kernels available per variant ("dispatch" has every dispatched one)
static const std::vector<std::string> &kernelsOf(const std::string &v) {
  static std::map<std::string, std::vector<std::string>> m = {
      {"sse", {"prefix_sum_i32", "prefix_sum_i64", "gather_i32", "gather_i64", "gather_float", "gather_double", "bss_enc_f", "bss_dec_f", "bss_enc_d", "bss_dec_d", "unpack_bools", "pack_bools", "find_run", "crc32c",
               "memset", "memcpy", "match_copy", "match_length", "count_non_nulls", "build_null_bitmap", "fill_def_levels", "unpack32x1", "unpack8x4", "unpack8x8"}},
      {"avx2", {"prefix_sum_i32", "prefix_sum_i64", "gather_i32", "gather_i64", "gather_float", "gather_double", "bss_enc_f", "bss_dec_f", "bss_enc_d", "bss_dec_d", "unpack_bools", "pack_bools", "find_run", "memset", "memcpy",
                "unpack64x1", "unpack16x4", "unpack16x8", "unpack8x16"}},
      {"avx512", {"prefix_sum_i32", "prefix_sum_i64", "gather_i32", "gather_i64", "gather_float", "gather_double", "bss_enc_f", "bss_dec_f", "unpack_bools", "pack_bools", "find_run", "memset", "memcpy", "unpack32x8", "unpack16x16", "unpack32x4"}},
      {"dispatch", {"prefix_sum_i32", "prefix_sum_i64", "gather_i32", "gather_i64", "gather_float", "gather_double", "bss_enc_f", "bss_dec_f", "bss_enc_d", "bss_dec_d", "unpack_bools", "pack_bools", "find_run", "crc32c",
                    "match_copy", "match_length", "count_non_nulls", "build_null_bitmap", "fill_def_levels"}}};
  return m[v];
}

static uint32_t crc32c_ref(uint32_t crc, const uint8_t *d, size_t n) {   // Castagnoli, reflected, with pre/post inversion (the scalar definition)
  crc = ~crc;
  for (size_t i = 0; i < n; i++) { crc ^= d[i]; for (int k = 0; k < 8; k++) crc = (crc >> 1) ^ (0x82F63B78u & (0u - (crc & 1))); }
  return ~crc;
}

#define FAILV(...) do { char _b[400]; snprintf(_b, sizeof _b, __VA_ARGS__); vd.ok = false; vd.msg = k.kernel + "/" + k.variant + " count=" + std::to_string(k.count) + ": " + _b; return vd; } while (0)
#define CANARIES(...) do { std::string _w; const std::pair<const Arr *, const char *> _as[] = {__VA_ARGS__}; for (auto &_a : _as) if (!_a.first->intact(_w, _a.second)) FAILV("%s", _w.c_str()); } while (0)

static Verdict runK(const K &k) {
  Verdict vd;
  if (!have(k.variant)) { vd.vacuous = true; vd.label("isa_not_on_host:" + k.variant); return vd; }
  const std::string &kn = k.kernel, &v = k.variant;
  if (v == "dispatch") { const char *cur = getenv("CARQUET_VERIF_CPU_CAP"); if (!cur || k.mask != cur) { vd.vacuous = true; vd.label("mask_mismatch"); return vd; } vd.label("mask=" + k.mask); }
  size_t n = (size_t)k.count;
  uint64_t s = 0x9E3779B97F4A7C15ull ^ ((uint64_t)k.seed << 1 | 1);
  vd.nontrivial = (k.count % lanes(v == "dispatch" ? "avx512" : v) != 0) && (k.mis != 0 || k.place == 0);
  vd.label(v);
  auto rnd = [&](uint8_t *p, size_t len) {
    for (size_t i = 0; i < len; i++) {
      uint64_t r = xs(s);
      p[i] = k.pattern == 1 ? 0x5A : k.pattern == 2 ? (uint8_t)((r & 3) == 0 ? 0x00 : (r & 3) == 1 ? 0xFF : (r & 3) == 2 ? 0x80 : 0x7F) : (uint8_t)(r >> 24);
    }
  };
#define SEL3(name, ...) (v == "sse" ? carquet_sse_##name(__VA_ARGS__) : v == "avx2" ? carquet_avx2_##name(__VA_ARGS__) : carquet_avx512_##name(__VA_ARGS__))

  if (kn == "prefix_sum_i32" || kn == "prefix_sum_i64") {
    size_t w = kn == "prefix_sum_i32" ? 4 : 8;
    Arr a(*R[0], n * w, k.place, (size_t)k.mis);
    rnd(a.p, n * w);
    uint64_t init = xs(s);
    if (k.pattern == 2) init = kn == "prefix_sum_i32" ? 0x7fffffffu : 0x7fffffffffffffffull;
    Bytes in(a.p, a.p + n * w), want(n * w);
    if (w == 4) { uint32_t acc = (uint32_t)init; for (size_t i = 0; i < n; i++) { uint32_t x; memcpy(&x, &in[i * 4], 4); acc += x; memcpy(&want[i * 4], &acc, 4); } }
    else { uint64_t acc = init; for (size_t i = 0; i < n; i++) { uint64_t x; memcpy(&x, &in[i * 8], 8); acc += x; memcpy(&want[i * 8], &acc, 8); } }
    if (w == 4) { if (v == "dispatch") carquet_dispatch_prefix_sum_i32((int32_t *)a.p, k.count, (int32_t)(uint32_t)init); else SEL3(prefix_sum_i32, (int32_t *)a.p, k.count, (int32_t)(uint32_t)init); }
    else { if (v == "dispatch") carquet_dispatch_prefix_sum_i64((int64_t *)a.p, k.count, (int64_t)init); else SEL3(prefix_sum_i64, (int64_t *)a.p, k.count, (int64_t)init); }
    for (size_t i = 0; i < n * w; i++) if (a.p[i] != want[i]) FAILV("element %zu differs from the (wrapping) scalar prefix sum", i / w);
    CANARIES({&a, "values"});
  } else if (kn.rfind("gather_", 0) == 0) {
    size_t w = (kn == "gather_i32" || kn == "gather_float") ? 4 : 8;
    size_t D = 1 + xs(s) % (k.pattern == 1 ? 1 : 300);
    Arr dict(*R[0], D * w, 0, 0), idx(*R[1], n * 4, k.place, (size_t)k.mis), out(*R[2], n * w, k.place, (size_t)k.dmis);
    rnd(dict.p, D * w);
    for (size_t i = 0; i < n; i++) { uint32_t x = (uint32_t)(xs(s) % D); if (k.pattern == 2) x = (i & 1) ? (uint32_t)D - 1 : 0; memcpy(idx.p + i * 4, &x, 4); }
    if (kn == "gather_i32") { if (v == "dispatch") carquet_dispatch_gather_i32((int32_t *)dict.p, (uint32_t *)idx.p, k.count, (int32_t *)out.p); else SEL3(gather_i32, (int32_t *)dict.p, (uint32_t *)idx.p, k.count, (int32_t *)out.p); }
    else if (kn == "gather_i64") { if (v == "dispatch") carquet_dispatch_gather_i64((int64_t *)dict.p, (uint32_t *)idx.p, k.count, (int64_t *)out.p); else SEL3(gather_i64, (int64_t *)dict.p, (uint32_t *)idx.p, k.count, (int64_t *)out.p); }
    else if (kn == "gather_float") { if (v == "dispatch") carquet_dispatch_gather_float((float *)dict.p, (uint32_t *)idx.p, k.count, (float *)out.p); else SEL3(gather_float, (float *)dict.p, (uint32_t *)idx.p, k.count, (float *)out.p); }
    else { if (v == "dispatch") carquet_dispatch_gather_double((double *)dict.p, (uint32_t *)idx.p, k.count, (double *)out.p); else SEL3(gather_double, (double *)dict.p, (uint32_t *)idx.p, k.count, (double *)out.p); }
    for (size_t i = 0; i < n; i++) { uint32_t x; memcpy(&x, idx.p + i * 4, 4); if (memcmp(out.p + i * w, dict.p + (size_t)x * w, w) != 0) FAILV("output %zu is not dict[%u] (dictionary of %zu)", i, x, D); }
    CANARIES({&out, "output"}, {&idx, "indices"}, {&dict, "dictionary"});
  } else if (kn.rfind("bss_", 0) == 0) {
    size_t w = kn.back() == 'f' ? 4 : 8;
    bool enc = kn[4] == 'e';
    Arr in(*R[0], n * w, k.place, (size_t)k.mis), out(*R[1], n * w, k.place, (size_t)k.dmis);
    rnd(in.p, n * w);
    Bytes want(n * w);
    for (size_t i = 0; i < n; i++) for (size_t b = 0; b < w; b++) { if (enc) want[b * n + i] = in.p[i * w + b]; else want[i * w + b] = in.p[b * n + i]; }
    if (w == 4 && enc) { if (v == "dispatch") carquet_dispatch_byte_split_encode_float((float *)in.p, k.count, out.p); else SEL3(byte_stream_split_encode_float, (float *)in.p, k.count, out.p); }
    else if (w == 4) { if (v == "dispatch") carquet_dispatch_byte_split_decode_float(in.p, k.count, (float *)out.p); else SEL3(byte_stream_split_decode_float, in.p, k.count, (float *)out.p); }
    else if (enc) { if (v == "dispatch") carquet_dispatch_byte_split_encode_double((double *)in.p, k.count, out.p); else if (v == "sse") carquet_sse_byte_stream_split_encode_double((double *)in.p, k.count, out.p); else carquet_avx2_byte_stream_split_encode_double((double *)in.p, k.count, out.p); }
    else { if (v == "dispatch") carquet_dispatch_byte_split_decode_double(in.p, k.count, (double *)out.p); else if (v == "sse") carquet_sse_byte_stream_split_decode_double(in.p, k.count, (double *)out.p); else carquet_avx2_byte_stream_split_decode_double(in.p, k.count, (double *)out.p); }
    for (size_t i = 0; i < n * w; i++) if (out.p[i] != want[i]) FAILV("output byte %zu differs from the K-streams transposition", i);
    CANARIES({&out, "output"}, {&in, "input"});
  } else if (kn == "unpack_bools") {
    size_t nb = (n + 7) / 8;
    Arr in(*R[0], nb, k.place, (size_t)k.mis), out(*R[1], n, k.place, (size_t)k.dmis);
    rnd(in.p, nb);
    if (v == "dispatch") carquet_dispatch_unpack_bools(in.p, out.p, k.count); else SEL3(unpack_bools, in.p, out.p, k.count);
    for (size_t i = 0; i < n; i++) if (out.p[i] != ((in.p[i / 8] >> (i % 8)) & 1)) FAILV("bool %zu is %u, bit is %u", i, out.p[i], (in.p[i / 8] >> (i % 8)) & 1);
    CANARIES({&out, "output"}, {&in, "input"});
  } else if (kn == "pack_bools") {
    size_t nb = (n + 7) / 8;
    Arr in(*R[0], n, k.place, (size_t)k.mis), out(*R[1], nb, k.place, (size_t)k.dmis);
    for (size_t i = 0; i < n; i++) in.p[i] = k.pattern == 1 ? 1 : (uint8_t)(xs(s) >> 40 & 1);
    if (v == "dispatch") carquet_dispatch_pack_bools(in.p, out.p, k.count); else SEL3(pack_bools, in.p, out.p, k.count);
    for (size_t b = 0; b < nb; b++) { uint8_t w = 0; for (size_t j = 0; j < 8 && b * 8 + j < n; j++) if (in.p[b * 8 + j]) w |= (uint8_t)(1u << j); if (out.p[b] != w) FAILV("packed byte %zu is %02x, expected %02x", b, out.p[b], w); }
    CANARIES({&out, "output"}, {&in, "input"});
  } else if (kn == "find_run") {
    Arr a(*R[0], n * 4, k.place, (size_t)k.mis);
    uint32_t first = (uint32_t)xs(s);
    size_t brk = k.pattern == 1 ? n : (size_t)(xs(s) % (n + 1));   // first position that differs
    for (size_t i = 0; i < n; i++) { uint32_t x = i < brk || i == 0 ? first : (i == brk ? first ^ (1u << (xs(s) % 32)) : (uint32_t)xs(s)); memcpy(a.p + i * 4, &x, 4); }
    int64_t want = n == 0 ? 0 : (int64_t)std::max<size_t>(1, std::min(brk, n));
    if (n && brk == 0) want = 1;
    { size_t i = 1; uint32_t f; if (n) { memcpy(&f, a.p, 4); while (i < n) { uint32_t x; memcpy(&x, a.p + i * 4, 4); if (x != f) break; i++; } want = (int64_t)i; } }
    int64_t got = v == "dispatch" ? carquet_dispatch_find_run_length_i32((int32_t *)a.p, k.count) : SEL3(find_run_length_i32, (int32_t *)a.p, k.count);
    if (got != want) FAILV("run length %lld, scalar definition gives %lld", (long long)got, (long long)want);
    CANARIES({&a, "values"});
  } else if (kn == "crc32c") {
    Arr a(*R[0], n, k.place, (size_t)k.mis);
    rnd(a.p, n);
    uint32_t init = k.pattern == 1 ? 0 : (uint32_t)xs(s);
    uint32_t got = v == "dispatch" ? carquet_dispatch_crc32c(init, a.p, n) : carquet_sse_crc32c(init, a.p, n);
    uint32_t want = crc32c_ref(init, a.p, n);
    if (got != want) FAILV("crc32c(%08x, %zu bytes) = %08x, scalar definition gives %08x", init, n, got, want);
    CANARIES({&a, "data"});
  } else if (kn == "memset" || kn == "memcpy") {
    Arr d(*R[0], n, k.place, (size_t)k.dmis), src(*R[1], n, k.place, (size_t)k.mis);
    rnd(src.p, n);
    uint8_t val = (uint8_t)xs(s);
    if (kn == "memset") { if (v == "sse") carquet_sse_memset_small(d.p, val, n); else if (v == "avx2") carquet_avx2_memset(d.p, val, n); else carquet_avx512_memset(d.p, val, n);
      for (size_t i = 0; i < n; i++) if (d.p[i] != val) FAILV("byte %zu not set", i); }
    else { if (v == "sse") carquet_sse_memcpy_small(d.p, src.p, n); else if (v == "avx2") carquet_avx2_memcpy(d.p, src.p, n); else carquet_avx512_memcpy(d.p, src.p, n);
      if (memcmp(d.p, src.p, n) != 0) FAILV("copy differs"); }
    CANARIES({&d, "dest"}, {&src, "src"});
  } else if (kn == "match_copy") {
    // one buffer: `off` bytes of history followed by the destination of `count` bytes; src = dst - off
    size_t off = k.pattern == 1 ? 1 : 1 + xs(s) % (k.pattern == 2 ? 40 : 20);
    if (k.pattern == 0 && (k.seed & 3) == 0) off = (size_t[]){1, 2, 4, 8, 15, 16, 17, 32}[(k.seed >> 2) % 8];
    Arr a(*R[0], off + n, k.place, (size_t)k.mis);
    rnd(a.p, off);
    memset(a.p + off, 0xEE, n);
    Bytes want(a.p, a.p + off + n);
    for (size_t i = 0; i < n; i++) want[off + i] = want[i];
    if (v == "dispatch") carquet_dispatch_match_copy(a.p + off, a.p, n, off); else carquet_sse_match_copy(a.p + off, a.p, n, off);
    for (size_t i = 0; i < off + n; i++) if (a.p[i] != want[i]) FAILV("byte %zu differs from the byte-wise overlapping copy (offset %zu)", i, off);
    CANARIES({&a, "buffer"});
  } else if (kn == "match_length") {
    // p and match in one buffer, match < p <= limit; common length = brk
    size_t dist = 1 + xs(s) % 40;
    size_t brk = k.pattern == 1 ? n : (size_t)(xs(s) % (n + 1));
    Arr a(*R[0], dist + n, k.place, (size_t)k.mis);
    rnd(a.p, dist);
    for (size_t i = 0; i < n; i++) a.p[dist + i] = i == brk ? (uint8_t)(a.p[i] ^ 0x40) : a.p[i];
    size_t want = 0; while (want < n && a.p[dist + want] == a.p[want]) want++;
    size_t got = v == "dispatch" ? carquet_dispatch_match_length(a.p + dist, a.p, a.p + dist + n) : carquet_sse_match_length(a.p + dist, a.p, a.p + dist + n);
    if (got != want) FAILV("match length %zu, scalar definition gives %zu (distance %zu)", got, want, dist);
    CANARIES({&a, "buffer"});
  } else if (kn == "count_non_nulls" || kn == "build_null_bitmap" || kn == "fill_def_levels") {
    int16_t maxd = (int16_t)(1 + xs(s) % 3);
    if (k.pattern == 2) maxd = 1;
    Arr lv(*R[0], n * 2, k.place, (size_t)k.mis);
    for (size_t i = 0; i < n; i++) { int16_t x = (int16_t)(k.pattern == 1 ? maxd : xs(s) % (uint64_t)(maxd + 1)); memcpy(lv.p + i * 2, &x, 2); }
    if (kn == "count_non_nulls") {
      int64_t want = 0; for (size_t i = 0; i < n; i++) { int16_t x; memcpy(&x, lv.p + i * 2, 2); if (x == maxd) want++; }
      int64_t got = v == "dispatch" ? carquet_dispatch_count_non_nulls((int16_t *)lv.p, k.count, maxd) : carquet_sse_count_non_nulls((int16_t *)lv.p, k.count, maxd);
      if (got != want) FAILV("count %lld, scalar definition gives %lld", (long long)got, (long long)want);
    } else if (kn == "build_null_bitmap") {
      size_t nb = (n + 7) / 8;
      Arr bm(*R[1], nb, k.place, (size_t)k.dmis);
      memset(bm.p, 0, nb);   // callers pass a zeroed bitmap
      if (v == "dispatch") carquet_dispatch_build_null_bitmap((int16_t *)lv.p, k.count, maxd, bm.p); else carquet_sse_build_null_bitmap((int16_t *)lv.p, k.count, maxd, bm.p);
      for (size_t b = 0; b < nb; b++) { uint8_t w = 0; for (size_t j = 0; j < 8 && b * 8 + j < n; j++) { int16_t x; memcpy(&x, lv.p + (b * 8 + j) * 2, 2); if (x < maxd) w |= (uint8_t)(1u << j); } if (bm.p[b] != w) FAILV("bitmap byte %zu is %02x, scalar definition gives %02x", b, bm.p[b], w); }
      CANARIES({&bm, "bitmap"});
    } else {
      int16_t val = (int16_t)xs(s);
      if (v == "dispatch") carquet_dispatch_fill_def_levels((int16_t *)lv.p, k.count, val); else carquet_sse_fill_def_levels((int16_t *)lv.p, k.count, val);
      for (size_t i = 0; i < n; i++) { int16_t x; memcpy(&x, lv.p + i * 2, 2); if (x != val) FAILV("level %zu not filled", i); }
    }
    CANARIES({&lv, "levels"});
  } else if (kn.rfind("unpack", 0) == 0) {
    // fixed-width unpackers: N values of W bits from exactly N*W/8 input bytes
    int N = 0, W = 0;
    sscanf(kn.c_str(), "unpack%dx%d", &N, &W);
    size_t ib = (size_t)N * W / 8;
    Arr in(*R[0], ib, k.place, (size_t)k.mis), out(*R[1], (size_t)N * 4, k.place, (size_t)k.dmis);
    rnd(in.p, ib);
    typedef void (*fn)(const uint8_t *, uint32_t *);
    fn f = kn == "unpack32x1" ? carquet_sse_bitunpack32_1bit : kn == "unpack8x4" ? carquet_sse_bitunpack8_4bit : kn == "unpack8x8" ? carquet_sse_bitunpack8_8bit
         : kn == "unpack64x1" ? carquet_avx2_bitunpack64_1bit : kn == "unpack16x4" ? carquet_avx2_bitunpack16_4bit : kn == "unpack16x8" ? carquet_avx2_bitunpack16_8bit : kn == "unpack8x16" ? carquet_avx2_bitunpack8_16bit
         : kn == "unpack32x8" ? carquet_avx512_bitunpack32_8bit : kn == "unpack16x16" ? carquet_avx512_bitunpack16_16bit : carquet_avx512_bitunpack32_4bit;
    f(in.p, (uint32_t *)out.p);
    for (int i = 0; i < N; i++) {
      uint32_t want = 0; for (int b = 0; b < W; b++) { size_t bit = (size_t)i * W + b; want |= (uint32_t)((in.p[bit / 8] >> (bit % 8)) & 1) << b; }
      uint32_t got; memcpy(&got, out.p + (size_t)i * 4, 4);
      if (got != want) FAILV("value %d is %u, LSB-first unpacking gives %u", i, got, want);
    }
    vd.nontrivial = k.mis != 0 || k.place == 0;
    CANARIES({&out, "output"}, {&in, "input"});
  } else { vd.vacuous = true; vd.label("unknown_kernel"); }
  return vd;
}

static std::vector<std::string> g_variants = {"sse", "avx2", "avx512"};
static std::string g_mask;

static void enumK(int level, const std::function<bool(const CaseText &)> &sink) {
  int maxc = level >= 2 ? 200 : 130;
  std::vector<int> miss = level >= 2 ? std::vector<int>{} : std::vector<int>{0, 1, 2, 3, 4, 7, 8, 9, 15, 16, 17, 31, 32, 33, 48, 63};
  if (level >= 2) for (int i = 0; i < 64; i++) miss.push_back(i);
  uint32_t seed = 1;
  for (auto &v : g_variants)
    for (auto &kn : kernelsOf(v)) {
      bool fixed = kn.rfind("unpack", 0) == 0 && kn != "unpack_bools";
      for (int c = 0; c <= (fixed ? 0 : maxc); c++)
        for (int pat = 0; pat < (fixed ? 2 : 3); pat++) {
          // back-guard placement (alignment dictated by the size), then front-guard placements at every misalignment
          K k; k.kernel = kn; k.variant = v; k.mask = g_mask; k.count = c; k.pattern = pat; k.place = 0; k.seed = seed++;
          if (!sink(ser(k))) return;
          for (int m : miss) { if (!fixed && pat != 0 && m % 5 != 0) continue; K q = k; q.place = 1; q.mis = m; q.dmis = (int[]){0, 1, 31, 63}[(m + c) % 4]; q.seed = seed++; if (!sink(ser(q))) return; }
        }
    }
}
static rc::Gen<K> genK() {
  return rc::gen::mapcat(rc::gen::elementOf(g_variants), [](const std::string &v) {
    return rc::gen::map(rc::gen::tuple(rc::gen::elementOf(kernelsOf(v)), rc::gen::weightedOneOf<int>({{60, irange(0, 300)}, {40, irange(300, 5000)}, {20, irange(5000, 60000)}, {1, rc::gen::element(262143, 262144, 262145, 262151, 300001, 524289)}})   /* rarely past 1 MiB of output: large-buffer paths (streaming stores, blocking) */, irange(0, 1), irange(0, 63), irange(0, 63), irange(0, 2), irange(1, 1 << 30)),
                        [v](const std::tuple<std::string, int, int, int, int, int, int> &t) { K k; k.variant = v; k.mask = g_mask; k.kernel = std::get<0>(t); k.count = std::get<1>(t); k.place = std::get<2>(t); k.mis = std::get<3>(t); k.dmis = std::get<4>(t); k.pattern = std::get<5>(t); k.seed = (uint32_t)std::get<6>(t);
                          if (k.kernel.rfind("unpack", 0) == 0 && k.kernel != "unpack_bools") k.count = 0; return k; });
  });
}

int main(int argc, char **argv) {
  // a replayed dispatcher case carries its capability mask: re-exec with that mask in the environment
  for (int i = 1; i + 1 < argc; i++) if (std::string(argv[i]) == "--replay") {
    std::ifstream f(argv[i + 1]); std::stringstream ss; ss << f.rdbuf();
    CaseText t = CaseText::parse(ss.str());
    if (t.has("mask")) { const char *cur = getenv("CARQUET_VERIF_CPU_CAP"); if (!cur || t.get("mask") != cur) { setenv("CARQUET_VERIF_CPU_CAP", t.get("mask").c_str(), 1); execv("/proc/self/exe", argv); perror("execv"); return 3; } }
  }
  for (auto &r : R) r = new Region((size_t)6 << 20);
  if (getenv("CARQUET_VERIF_CPU_CAP")) {
    // dispatcher run: this process sees only the capability mask given in the environment
    g_variants = {"dispatch"};
    g_mask = getenv("CARQUET_VERIF_CPU_CAP");
    (void)carquet_init();
    const carquet_cpu_info_t *ci = carquet_get_cpu_info();
    fprintf(stderr, "dispatcher mask '%s': sse42=%d avx2=%d avx512f=%d bw=%d vl=%d\n", getenv("CARQUET_VERIF_CPU_CAP"), ci->has_sse42, ci->has_avx2, ci->has_avx512f, ci->has_avx512bw, ci->has_avx512vl);
  }
  add<K>("kernels", 1, genK, ser, de, runK);
  registry().back().enumerate = enumK;
  return main_(argc, argv);
}
