// C02: what a reader returns does not depend on how the caller consumes it.
//  col_history : model-based call histories over one column reader (read_batch / skip / has_next / remaining / recreate)
//  batches     : the batch reader for every batch_size and projection, against the column content
// Files come from the reference writer, so this property does not inherit writer defects.
#include "harness/common/pbt.hpp"
#include "harness/common/consume.hpp"
#include "gen/files.hpp"

using namespace pbt;

static gf::Opts flatOpts() { gf::Opts o; o.nested = false; o.max_cols = 5; o.max_rows = 40; o.max_rgs = 3; o.max_pages = 6; o.int96 = true; o.thrift_extras = false; o.layouts = false; o.stats = false; return o; }

// ---------------------------------------------------------------- col_history
struct H { pw::FileSpec fs; int mode = 0; uint32_t pick = 0; std::vector<cs::Op> ops; };
static CaseText serH(const H &h) { CaseText t; t.put_i("mode", h.mode); t.put_u("pick", h.pick); cs::putOps(t, "ops", h.ops); gf::putSpec(t, h.fs); return t; }
static H deH(const CaseText &t) { H h; h.mode = (int)t.get_i("mode"); h.pick = (uint32_t)t.get_u("pick"); h.ops = cs::getOps(t, "ops"); h.fs = gf::getSpec(t); return h; }
static rc::Gen<H> genH() {
  gf::Opts o = flatOpts();
  auto op = rc::gen::map(rc::gen::pair(rc::gen::weightedOneOf<int>({{5, rc::gen::just(0)}, {1, rc::gen::just(1)}, {3, rc::gen::just(2)}, {1, rc::gen::just(3)}, {1, rc::gen::just(4)}, {1, rc::gen::just(5)}}),
                                       rc::gen::weightedOneOf<int>({{5, irange(0, 9)}, {2, irange(0, 45)}, {1, rc::gen::element(1024, 1025, 3000)}})), [](const std::pair<int, int> &p) { return cs::Op{p.first, p.second}; });
  return rc::gen::map(rc::gen::tuple(gf::specGen(o), irange(0, 2), irange(0, 1 << 20), rc::gen::container<std::vector<cs::Op>>(op)),
                      [](const std::tuple<pw::FileSpec, int, int, std::vector<cs::Op>> &t) { H h; h.fs = std::get<0>(t); h.mode = std::get<1>(t); h.pick = (uint32_t)std::get<2>(t); h.ops = std::get<3>(t); return h; });
}
static Verdict runH(const H &h) {
  Verdict vd;
  auto lv = pw::leaves(h.fs.root);
  pw::Written w = pw::write_file(h.fs);
  size_t g = h.pick % h.fs.row_groups.size(), k = (h.pick >> 8) % lv.size();
  const pw::ChunkSpec &cspec = h.fs.row_groups[g][k];
  cs::Model m = cs::modelOf(lv[k], cspec);
  rd::Opened op(w.bytes, h.mode);
  PBT_CHECK(vd, op.r != nullptr, "valid file rejected at open (%s): %s", rd::modeName(h.mode), op.err.message);
  rd::ColInfo ci;
  PBT_CHECK(vd, rd::colInfo(op.r, (int)k, ci) && ci.slot > 0, "no column info for column %zu", k);
  carquet_error_t e = CARQUET_ERROR_INIT;
  carquet_column_reader_t *cr = carquet_reader_get_column(op.r, (int)g, (int)k, &e);
  PBT_CHECK(vd, cr != nullptr, "get_column(%zu,%zu) failed: %s", g, k, e.message);
  struct Fr { carquet_column_reader_t *&c; ~Fr() { carquet_column_reader_free(c); } } fr{cr};
  size_t cur = 0;
  // page boundaries (in rows) of this chunk, for the non-trivial rule
  std::vector<size_t> pend; for (auto &pg : cspec.pages) pend.push_back(pg.end);
  auto inside_page = [&](size_t pos) { for (auto e2 : pend) if (e2 == pos) return false; return pos != 0 && pos < m.n; };
  bool nt_partial = false, nt_skipcross = false, prev_partial_with_null = false;
  for (size_t oi = 0; oi < h.ops.size(); oi++) {
    const cs::Op &o = h.ops[oi];
    size_t rem = m.n - cur;
    if (o.kind == 0 || o.kind == 1) {
      bool levels = o.kind == 0;
      if (!levels && m.max_def > 0) continue;   // a caller that drops the levels of a nullable column cannot interpret the values
      rd::Content c; std::string err;
      if (prev_partial_with_null) nt_partial = true;
      int64_t n = rd::readCall(cr, ci, o.k, levels, m.max_def, c, err);
      PBT_CHECK(vd, n >= 0, "op %zu read_batch(%d) at row %zu of %zu fails on a valid file: %s", oi, o.k, cur, m.n, err.c_str());
      PBT_CHECK(vd, (size_t)n <= std::min<size_t>((size_t)o.k, rem), "op %zu read_batch(%d) at row %zu returned %lld, only %zu rows remain", oi, o.k, cur, (long long)n, rem);
      PBT_CHECK(vd, n > 0 || o.k == 0 || rem == 0, "op %zu read_batch(%d) returned 0 with %zu rows remaining", oi, o.k, rem);
      size_t vexp = 0;
      for (int64_t i = 0; i < n; i++) {
        if (levels) PBT_CHECK(vd, c.def[(size_t)i] == m.def[cur + (size_t)i] && c.rep[(size_t)i] == m.rep[cur + (size_t)i], "op %zu read_batch(%d) at row %zu: level of row %zu is (%d,%d), stored (%d,%d)", oi, o.k, cur, cur + (size_t)i, c.def[(size_t)i], c.rep[(size_t)i], m.def[cur + (size_t)i], m.rep[cur + (size_t)i]);
        if (m.def[cur + (size_t)i] == m.max_def) vexp++;
      }
      PBT_CHECK(vd, c.values.size() == vexp, "op %zu read_batch(%d): %zu values for %zu non-null rows", oi, o.k, c.values.size(), vexp);
      for (size_t i = 0; i < vexp; i++)
        PBT_CHECK(vd, c.values[i] == m.values[m.vstart[cur] + i], "op %zu read_batch(%d) at row %zu: value %zu of the call is %s, stored %s (history-dependent result)", oi, o.k, cur, i, pbt::hex(c.values[i]).substr(0, 32).c_str(), pbt::hex(m.values[m.vstart[cur] + i]).substr(0, 32).c_str());
      cur += (size_t)n;
      prev_partial_with_null = n > 0 && inside_page(cur) && m.max_def > 0 && m.vstart[cur] < cur;
    } else if (o.kind == 2) {
      // the way callers write cursor code: query, advance, query again in one stretch (the second query must see the advance -
      // also when this harness is compiled with optimisation and the header's function attributes take effect)
      int64_t r0 = carquet_column_remaining(cr); bool h0 = carquet_column_has_next(cr);
      int64_t s = carquet_column_skip(cr, o.k);
      int64_t r1 = carquet_column_remaining(cr); bool h1 = carquet_column_has_next(cr);
      size_t want = std::min<size_t>((size_t)o.k, rem);
      PBT_CHECK(vd, s == (int64_t)want, "op %zu skip(%d) at row %zu advanced by %lld, must be min(n, remaining) = %zu", oi, o.k, cur, (long long)s, want);
      PBT_CHECK(vd, r0 == (int64_t)rem && r1 == (int64_t)(rem - want), "op %zu skip(%d): remaining() %lld before and %lld after, rows not yet delivered %zu before and %zu after", oi, o.k, (long long)r0, (long long)r1, rem, rem - want);
      PBT_CHECK(vd, h0 == (rem > 0) && h1 == (rem - want > 0), "op %zu skip(%d): has_next() %d before and %d after with %zu / %zu rows not yet delivered", oi, o.k, (int)h0, (int)h1, rem, rem - want);
      for (auto e2 : pend) if (e2 > cur && e2 < cur + want) nt_skipcross = true;
      cur += want;
      prev_partial_with_null = false;
    } else if (o.kind == 3) {
      bool hn = carquet_column_has_next(cr);
      PBT_CHECK(vd, hn == (rem > 0), "op %zu has_next = %d with %zu rows not yet delivered", oi, (int)hn, rem);
    } else if (o.kind == 4) {
      int64_t r = carquet_column_remaining(cr);
      PBT_CHECK(vd, r == (int64_t)rem, "op %zu remaining() = %lld, rows not yet delivered = %zu", oi, (long long)r, rem);
    } else {
      carquet_column_reader_free(cr);
      cr = carquet_reader_get_column(op.r, (int)g, (int)k, &e);
      PBT_CHECK(vd, cr != nullptr, "re-creating the column reader fails: %s", e.message);
      cur = 0; prev_partial_with_null = false;
    }
  }
  vd.nontrivial = nt_partial || nt_skipcross;
  if (nt_partial) vd.label("read_after_partial_page_with_nulls"); if (nt_skipcross) vd.label("skip_crosses_page");
  vd.label(rd::modeName(h.mode));
  return vd;
}
// every sequence of read/skip sizes that consumes a small chunk
static void enumH(int level, const std::function<bool(const CaseText &)> &sink) {
  int maxN = level >= 2 ? 6 : 5;
  uint64_t counter = 0;
  for (int N = 1; N <= maxN; N++)
    for (int rep = 0; rep < 2; rep++)                       // REQUIRED / OPTIONAL
      for (int type : {pq::INT32, pq::BYTE_ARRAY, pq::BOOLEAN})
        for (int cuts = 0; cuts < (1 << (N - 1)); cuts++) {  // page boundaries after row i if bit i set
          if (__builtin_popcount((unsigned)cuts) > 2) continue;
          for (int nulls = 0; nulls < (rep ? 3 : 1); nulls++) {
            // compositions of N into steps; each step is a read or a skip -> enumerate as (cut mask over N-1 gaps) x (kind bit per step)
            for (int comp = 0; comp < (1 << (N - 1)); comp++) {
              int steps = __builtin_popcount((unsigned)comp) + 1;
              for (int kinds = 0; kinds < (1 << steps); kinds++) {
                if (level < 2 && ((counter++ % 3) != 0)) continue;
                H h; h.mode = (int)(counter % 3);
                h.fs.root.name = "schema"; h.fs.root.group = true;
                h.fs.root.kids.push_back(gf::leafNode("c", rep ? pq::OPTIONAL : pq::REQUIRED, type, 0));
                auto lv = pw::leaves(h.fs.root);
                pw::ChunkSpec c;
                c.n = (size_t)N;
                for (int i = 0; i < N; i++) { int present = !rep ? 1 : nulls == 0 ? (i % 2) : nulls == 1 ? (i != 0) : ((i * 7 + N) % 3 != 0); if (rep) c.def.push_back((int16_t)present);
                  if (present) { Bytes v; if (type == pq::INT32) { uint32_t x = 100u + (uint32_t)i; v.assign((uint8_t *)&x, (uint8_t *)&x + 4); } else if (type == pq::BOOLEAN) v.push_back((uint8_t)(i & 1)); else v.assign((size_t)(i % 3), (uint8_t)('a' + i)); c.values.push_back(v); } }
                for (int i = 0; i < N - 1; i++) if (cuts >> i & 1) { pw::PageSpec pg; pg.end = (size_t)i + 1; c.pages.push_back(pg); }
                { pw::PageSpec pg; pg.end = (size_t)N; c.pages.push_back(pg); }
                h.fs.row_groups.push_back({c}); h.fs.rg_rows.push_back(N);
                int len = 1, step = 0;
                for (int i = 0; i < N; i++) {
                  bool end = i == N - 1 || (comp >> i & 1);
                  if (end) { h.ops.push_back(cs::Op{(kinds >> step & 1) ? 2 : 0, len}); h.ops.push_back(cs::Op{4, 0}); step++; len = 1; } else len++;
                }
                h.ops.push_back(cs::Op{3, 0}); h.ops.push_back(cs::Op{0, 3});
                if (!sink(serH(h))) return;
              }
            }
          }
        }
}

// -------------------------------------------------------------------- batches
struct Bt { pw::FileSpec fs; int mode = 0; int batch = 1; std::vector<int> proj; bool by_name = false; };
static CaseText serB(const Bt &b) { CaseText t; t.put_i("mode", b.mode); t.put_i("batch", b.batch); t.put_ints("proj", b.proj); t.put_i("by_name", b.by_name); gf::putSpec(t, b.fs); return t; }
static Bt deB(const CaseText &t) { Bt b; b.mode = (int)t.get_i("mode"); b.batch = (int)t.get_i("batch"); b.proj = t.get_ints<int>("proj"); b.by_name = t.get_i("by_name"); b.fs = gf::getSpec(t); return b; }
static rc::Gen<Bt> genB() {
  gf::Opts o = flatOpts();
  return rc::gen::mapcat(gf::specGen(o), [](const pw::FileSpec &fs) {
    int nl = (int)pw::leaves(fs.root).size();
    auto proj = rc::gen::weightedOneOf<std::vector<int>>({{3, rc::gen::just(std::vector<int>{})}, {3, rc::gen::container<std::vector<int>>(irange(0, nl - 1))}});
    return rc::gen::map(rc::gen::tuple(irange(0, 2), rc::gen::weightedOneOf<int>({{5, irange(1, 12)}, {2, irange(13, 50)}, {1, rc::gen::element(64, 65536)}}), proj, rc::gen::arbitrary<bool>()),
                        [fs](const std::tuple<int, int, std::vector<int>, bool> &t) { Bt b; b.fs = fs; b.mode = std::get<0>(t); b.batch = std::get<1>(t); b.proj = std::get<2>(t); b.by_name = std::get<3>(t); return b; });
  });
}
// polarities still consistent with everything seen in this process: bit0 = "set means null", bit1 = "set means not null"
static int g_polarity = 3;
static Verdict runB(const Bt &b) {
  Verdict vd;
  auto lv = pw::leaves(b.fs.root);
  pw::Written w = pw::write_file(b.fs);
  rd::Opened op(w.bytes, b.mode);
  PBT_CHECK(vd, op.r != nullptr, "valid file rejected at open (%s): %s", rd::modeName(b.mode), op.err.message);
  cs::BatchCfg cfg; cfg.batch_size = b.batch; cfg.proj = b.proj; cfg.by_name = b.by_name;
  std::vector<int> cols = b.proj;
  if (cols.empty()) for (size_t i = 0; i < lv.size(); i++) cols.push_back((int)i);
  // duplicate names make by-name projection ambiguous; names are unique in generated schemas
  // walk the batches against the model: a batch never spans row groups
  size_t g = 0, cur = 0;
  auto advance_rg = [&]() { while (g < b.fs.row_groups.size() && cur >= (size_t)b.fs.rg_rows[g]) { g++; cur = 0; } };
  std::vector<cs::Model> models;
  auto models_for = [&](size_t gg) { models.clear(); for (int c : cols) models.push_back(cs::modelOf(lv[(size_t)c], b.fs.row_groups[gg][(size_t)c])); };
  // the value-slot count of a nullable column must come from the model, not from an assumed bitmap polarity
  size_t walk_g = 0, walk_cur = 0;
  cs::NnFn nnOf = [&](int cpos, int64_t n, const uint8_t *) -> int64_t {
    while (walk_g < b.fs.row_groups.size() && walk_cur >= (size_t)b.fs.rg_rows[walk_g] && cpos == 0) { walk_g++; walk_cur = 0; }
    if (walk_g >= b.fs.row_groups.size()) return 0;
    cs::Model m = cs::modelOf(lv[(size_t)cols[(size_t)cpos]], b.fs.row_groups[walk_g][(size_t)cols[(size_t)cpos]]);
    size_t a = std::min(walk_cur, m.n), e = std::min(walk_cur + (size_t)n, m.n);
    int64_t nn = (int64_t)(m.vstart[e] - m.vstart[a]);
    if (cpos + 1 == (int)cols.size()) walk_cur += (size_t)n;
    return nn;
  };
  cs::BatchRun run = cs::runBatches(op.r, cfg, false, 100000, nnOf);
  PBT_CHECK(vd, run.created, "batch reader creation fails on a valid file (code %d)", run.create_code);
  bool multi_of_page = true;
  int64_t total = 0;
  for (size_t bi = 0; bi < run.batches.size(); bi++) {
    auto &bo = run.batches[bi];
    advance_rg();
    // empty row groups yield empty batches
    if (bo.rows == 0) { if (g < b.fs.row_groups.size() && b.fs.rg_rows[g] == 0) { g++; cur = 0; } continue; }
    PBT_CHECK(vd, g < b.fs.row_groups.size(), "batch %zu delivers %lld rows after all %lld rows were delivered", bi, (long long)bo.rows, (long long)total);
    models_for(g);
    PBT_CHECK(vd, bo.cols.size() == cols.size(), "batch %zu has %zu columns, projection has %zu", bi, bo.cols.size(), cols.size());
    PBT_CHECK(vd, bo.rows <= b.batch, "batch %zu has %lld rows, batch_size is %d", bi, (long long)bo.rows, b.batch);
    for (size_t c = 0; c < cols.size(); c++) {
      PBT_CHECK(vd, bo.cols[c].n == bo.rows, "batch %zu: column %zu has %lld rows, the batch has %lld (columns out of step)", bi, c, (long long)bo.cols[c].n, (long long)bo.rows);
      const cs::Model &m = models[c];
      PBT_CHECK(vd, cur + (size_t)bo.rows <= m.n, "batch %zu: rows %zu..%zu of a %zu-row group", bi, cur, cur + (size_t)bo.rows, m.n);
      int pol = 3;
      for (int64_t i = 0; i < bo.rows; i++) {
        bool isnull = m.def[cur + (size_t)i] != m.max_def;
        bool bit = !bo.cols[c].bitmap.empty() && (bo.cols[c].bitmap[(size_t)i / 8] >> (i % 8) & 1);
        if (bit != isnull) pol &= ~1;
        if (bit == isnull) pol &= ~2;
      }
      PBT_CHECK(vd, pol != 0, "batch %zu column %zu: the null bitmap does not separate null from non-null rows as the definition levels do", bi, c);
      PBT_CHECK(vd, (g_polarity & pol) != 0, "batch %zu column %zu: null bitmap polarity differs from the one used by earlier columns/batches/paths", bi, c);
      g_polarity &= pol;
      size_t vexp = m.vstart[cur + (size_t)bo.rows] - m.vstart[cur];
      PBT_CHECK(vd, bo.cols[c].slots.size() == vexp, "batch %zu column %zu: %zu value slots captured for %zu non-null rows", bi, c, bo.cols[c].slots.size(), vexp);
      for (size_t i = 0; i < vexp; i++)
        PBT_CHECK(vd, bo.cols[c].slots[i] == m.values[m.vstart[cur] + i], "batch %zu column %zu (batch_size %d, %s): value %zu is %s, column-reader content has %s", bi, c, b.batch, rd::modeName(b.mode), i, pbt::hex(bo.cols[c].slots[i]).substr(0, 32).c_str(), pbt::hex(m.values[m.vstart[cur] + i]).substr(0, 32).c_str());
    }
    cur += (size_t)bo.rows; total += bo.rows;
  }
  PBT_CHECK(vd, run.end_status == CARQUET_ERROR_END_OF_DATA, "batch reader ended with status %d instead of END_OF_DATA after %lld rows", (int)run.end_status, (long long)total);
  PBT_CHECK(vd, total == w.meta.num_rows, "batches deliver %lld rows, the file has %lld", (long long)total, (long long)w.meta.num_rows);
  for (size_t gg = 0; gg < b.fs.row_groups.size(); gg++) for (int c : cols) for (auto &pg : b.fs.row_groups[gg][(size_t)c].pages) { size_t prev = 0; (void)prev; if (pg.end % (size_t)b.batch != 0) multi_of_page = false; }
  vd.nontrivial = !multi_of_page && cols.size() >= 1 && w.meta.num_rows > b.batch;
  if (!b.proj.empty()) vd.label(b.by_name ? "projection_by_name" : "projection_by_index");
  vd.label(rd::modeName(b.mode));
  if (w.meta.num_rows > b.batch) vd.label("several_batches");
  return vd;
}

int main(int argc, char **argv) {
  add<H>("col_history", 3, genH, serH, deH, runH);
  registry().back().enumerate = enumH;
  add<Bt>("batches", 2, genB, serB, deB, runB);
  return main_(argc, argv);
}
