// C06: spec-valid files from another writer decode to the values stored in them; unsupported
// features are rejected rather than decoded to wrong values.
#include "harness/common/pbt.hpp"
#include "harness/common/reading.hpp"
#include "gen/files.hpp"

using namespace pbt;

struct C { pw::FileSpec fs; int mode = 0; int batch = 0; int neg = 0; /* 0 none; else injected unsupported feature */ uint32_t pick = 0; };
static CaseText ser(const C &c) { CaseText t; t.put_i("mode", c.mode); t.put_i("batch", c.batch); t.put_i("neg", c.neg); t.put_u("pick", c.pick); gf::putSpec(t, c.fs); return t; }
static C de(const CaseText &t) { C c; c.mode = (int)t.get_i("mode"); c.batch = (int)t.get_i("batch"); c.neg = (int)t.get_i("neg"); c.pick = (uint32_t)t.get_u("pick"); c.fs = gf::getSpec(t); return c; }

static rc::Gen<C> genC(bool negative) {
  gf::Opts o; o.nested = true; o.max_cols = 4; o.max_rows = 30; o.long_period = !negative; o.logical_types = true;
  return rc::gen::map(rc::gen::tuple(gf::specGen(o), irange(0, 2), rc::gen::weightedOneOf<int>({{3, irange(1, 9)}, {1, irange(10, 70)}}), negative ? irange(1, 8) : rc::gen::just(0), irange(0, 1 << 20)),
                      [](const std::tuple<pw::FileSpec, int, int, int, int> &t) { C c; c.fs = std::get<0>(t); c.mode = std::get<1>(t); c.batch = std::get<2>(t); c.neg = std::get<3>(t); c.pick = (uint32_t)std::get<4>(t); return c; });
}

// inject exactly one unsupported feature into one chunk; returns false if the spec offers no place for it
static bool injectUnsupported(C &c, std::string &what, int &rg, int &col) {
  auto lv = pw::leaves(c.fs.root);
  std::vector<std::pair<int, int>> cand;
  for (size_t g = 0; g < c.fs.row_groups.size(); g++)
    for (size_t k = 0; k < lv.size(); k++) {
      auto &cs = c.fs.row_groups[g][k];
      if (cs.n == 0 || cs.pages.empty()) continue;
      bool ok = false;
      switch (c.neg) {
        case 1: ok = true; break;                                                          // DATA_PAGE_V2
        case 2: ok = (lv[k].type == pq::INT32 || lv[k].type == pq::INT64) && !cs.values.empty(); break;           // DELTA_BINARY_PACKED
        case 3: case 4: ok = lv[k].type == pq::BYTE_ARRAY && !cs.values.empty(); break;     // DELTA_LENGTH / DELTA_BYTE_ARRAY
        case 5: ok = (lv[k].type == pq::FLOAT || lv[k].type == pq::DOUBLE) && cs.values.size() >= 2; break;        // BYTE_STREAM_SPLIT
        case 6: ok = lv[k].max_def > 0 && lv[k].max_rep == 0; break;                        // BIT_PACKED definition levels
        default: ok = true; break;                                                          // codec tags LZO / BROTLI / unknown
      }
      if (ok) cand.emplace_back((int)g, (int)k);
    }
  if (cand.empty()) return false;
  auto pr = cand[c.pick % cand.size()];
  rg = pr.first; col = pr.second;
  auto &cs = c.fs.row_groups[(size_t)rg][(size_t)col];
  auto &pg = cs.pages[(c.pick >> 8) % cs.pages.size()];
  switch (c.neg) {
    case 1: pg.version = 2; what = "DATA_PAGE_V2"; break;
    case 2: pg.encoding = pq::DELTA_BINARY_PACKED; what = "DELTA_BINARY_PACKED"; break;
    case 3: pg.encoding = pq::DELTA_LENGTH_BYTE_ARRAY; what = "DELTA_LENGTH_BYTE_ARRAY"; break;
    case 4: pg.encoding = pq::DELTA_BYTE_ARRAY; what = "DELTA_BYTE_ARRAY"; break;
    case 5: pg.encoding = pq::BYTE_STREAM_SPLIT; what = "BYTE_STREAM_SPLIT"; break;
    case 6: cs.def_level_encoding = pq::BIT_PACKED; what = "BIT_PACKED_levels"; break;
    case 7: cs.codec = pq::UNCOMPRESSED; cs.codec_tag_override = (c.pick & 1) ? pq::LZO : pq::BROTLI; what = (c.pick & 1) ? "codec_LZO" : "codec_BROTLI"; break;
    default: cs.codec = pq::UNCOMPRESSED; cs.codec_tag_override = 9 + (int)(c.pick % 50); what = "codec_unknown"; break;
  }
  return true;
}

static std::string cmpContent(const pw::Leaf &lf, const pw::ChunkSpec &cs, const rd::Content &got) {
  char b[300];
  if ((size_t)got.rows != cs.n) { snprintf(b, sizeof b, "delivered %lld level entries, chunk stores %zu", (long long)got.rows, cs.n); return b; }
  for (size_t i = 0; i < cs.n; i++) {
    int d = lf.max_def ? cs.def[i] : 0, r = lf.max_rep ? cs.rep[i] : 0;
    if (got.def[i] != d) { snprintf(b, sizeof b, "definition level %zu is %d, stored %d", i, got.def[i], d); return b; }
    if (got.rep[i] != r) { snprintf(b, sizeof b, "repetition level %zu is %d, stored %d", i, got.rep[i], r); return b; }
  }
  if (got.values.size() != cs.values.size()) { snprintf(b, sizeof b, "%zu values delivered, %zu stored", got.values.size(), cs.values.size()); return b; }
  for (size_t i = 0; i < cs.values.size(); i++) if (got.values[i] != cs.values[i]) { snprintf(b, sizeof b, "value %zu is %s, stored %s", i, pbt::hex(got.values[i]).substr(0, 40).c_str(), pbt::hex(cs.values[i]).substr(0, 40).c_str()); return b; }
  return "";
}

static Verdict runC(const C &c0) {
  Verdict vd;
  C c = c0;
  std::string negWhat; int nrg = -1, ncol = -1;
  if (c.neg && !injectUnsupported(c, negWhat, nrg, ncol)) { vd.vacuous = true; vd.label("no_place_for_feature"); return vd; }
  auto lv = pw::leaves(c.fs.root);
  pw::Written w = pw::write_file(c.fs);
  // feature labels
  std::set<std::string> feat;
  bool multi_dict = false;
  for (size_t g = 0; g < c.fs.row_groups.size(); g++)
    for (size_t k = 0; k < lv.size(); k++) {
      auto &cs = c.fs.row_groups[g][k];
      if (cs.dict) { feat.insert("dictionary_page"); if (cs.pages.size() > 1) multi_dict = true; if (!cs.dict_offset_present) feat.insert("dictionary_offset_absent"); }
      if (lv[k].max_def >= 2 || lv[k].max_rep >= 1) feat.insert("nested_levels");
      if (lv[k].type == pq::INT96) feat.insert("int96");
      if (cs.level_style) feat.insert("bit_packed_or_cut_level_runs");
      if (cs.extra_header_fields) feat.insert("unknown_fields_in_page_header");
      if (cs.codec) feat.insert("codec=" + std::to_string(cs.codec));
      if (cs.pages.size() > 1) feat.insert("multi_page_chunk");
      if (cs.crc) feat.insert("crc");
      if (cs.page_stats) feat.insert("page_statistics");
    }
  if (c.fs.footer_inject) feat.insert("unknown_fields_in_footer");
  if (multi_dict) feat.insert("multi_page_chunk_with_dictionary");
  for (auto &f : feat) vd.label(f);
  vd.label(rd::modeName(c.mode));
  vd.nontrivial = feat.count("dictionary_page") || feat.count("nested_levels") || feat.count("int96") || feat.count("bit_packed_or_cut_level_runs") || feat.count("unknown_fields_in_footer") || feat.count("unknown_fields_in_page_header");
  if (c.neg) { vd.label("unsupported:" + negWhat); vd.nontrivial = true; }
  // known-finding exclusions (open findings only)
  if (!c.neg) {
    if (feat.count("dictionary_offset_absent") && excluded("KF-DICT-OFFSET-ABSENT")) { vd.excluded = "KF-DICT-OFFSET-ABSENT"; return vd; }
    bool long_header = false; for (auto &p : w.pages) if (p.header_len > 250) long_header = true;
    if (long_header && excluded("KF-PAGE-HEADER-256")) { vd.excluded = "KF-PAGE-HEADER-256"; return vd; }
  }

  rd::Opened op(w.bytes, c.mode);
  if (c.neg) {
    if (!op.r) { vd.label("rejected_at_open"); return vd; }
  } else {
    PBT_CHECK(vd, op.r != nullptr, "a spec-valid file is rejected at open (%s): %s", rd::modeName(c.mode), op.err.message);
    PBT_CHECK(vd, carquet_reader_num_row_groups(op.r) == (int32_t)c.fs.row_groups.size(), "num_row_groups %d, file has %zu", carquet_reader_num_row_groups(op.r), c.fs.row_groups.size());
    PBT_CHECK(vd, carquet_reader_num_columns(op.r) == (int32_t)lv.size(), "num_columns %d, file has %zu leaves", carquet_reader_num_columns(op.r), lv.size());
    PBT_CHECK(vd, carquet_reader_num_rows(op.r) == w.meta.num_rows, "num_rows %lld, file says %lld", (long long)carquet_reader_num_rows(op.r), (long long)w.meta.num_rows);
  }
  for (size_t g = 0; g < c.fs.row_groups.size(); g++)
    for (size_t k = 0; k < lv.size(); k++) {
      auto &cs = c.fs.row_groups[g][k];
      bool target = c.neg && (int)g == nrg && (int)k == ncol;
      if (c.neg && !target) continue;
      for (int pass = 0; pass < 2; pass++) {
        rd::Content got; std::string err;
        bool ok = rd::readChunk(op.r, (int)g, (int)k, pass == 0 ? 0 : c.batch, lv[k].max_def, got, err);
        if (target) {
          if (!ok) { vd.label("rejected_at_read"); continue; }
          std::string diff = cmpContent(lv[k], cs, got);
          if (diff.empty()) { vd.label("unsupported_feature_decoded_correctly"); continue; }
          PBT_CHECK(vd, false, "unsupported feature %s (row group %zu, column %zu) is decoded to wrong data instead of being rejected: %s", negWhat.c_str(), g, k, diff.c_str());
        }
        if (!ok && getenv("C06_DUMP")) for (auto &p : w.pages) if (p.rg == (int)g && p.col == (int)k) fprintf(stderr, "page %d dict=%d header[%zu]=%s body_len=%zu\n", p.page, p.is_dict, p.header_len, pbt::hex(w.bytes.data() + p.header_off, p.header_len).c_str(), p.body_len);
        PBT_CHECK(vd, ok, "reading row group %zu column %zu (%s, %s) of a spec-valid file fails: %s", g, k, pass ? "batched" : "whole", rd::modeName(c.mode), err.c_str());
        std::string diff = cmpContent(lv[k], cs, got);
        PBT_CHECK(vd, diff.empty(), "row group %zu column %zu (%s read of %d, %s): %s", g, k, pass ? "batched" : "whole", pass ? c.batch : 0, rd::modeName(c.mode), diff.c_str());
      }
    }
  return vd;
}

int main(int argc, char **argv) {
  add<C>("foreign_valid", 3, [] { return genC(false); }, ser, de, runC);
  add<C>("foreign_unsupported", 1, [] { return genC(true); }, ser, de, runC);
  return main_(argc, argv);
}
