// C19: allocation failure gives a clean error or a correct result, nothing else.
// For each generated scenario a counting run measures K = number of malloc/calloc/realloc/strdup requests issued
// by carquet's objects (link-time --wrap; shared libraries and the C++ harness do not go through the wrappers);
// then for every k < K the k-th request fails.  Oracle: no sanitizer report; every API call returns an error or,
// if it reports success, its effect equals the fault-free run's; all handles can be closed afterwards; no leak.
#define VERIF_HARNESS_USES_NEW 1
#include "harness/common/pbt.hpp"
#include "harness/common/cwriter.hpp"
#include "ref/parquet_reader.hpp"

extern "C" int __lsan_do_recoverable_leak_check(void) __attribute__((weak));
extern "C" size_t __sanitizer_get_current_allocated_bytes();

using namespace pbt;

static long g_allocs = 0, g_fail_at = -1;
static bool g_armed = false, g_hit = false;
extern "C" {
void *__real_malloc(size_t); void *__real_calloc(size_t, size_t); void *__real_realloc(void *, size_t); char *__real_strdup(const char *);
static bool inject() { if (!g_armed) return false; long me = g_allocs++; if (me == g_fail_at) { g_hit = true; return true; } return false; }
void *__wrap_malloc(size_t n) { if (inject()) return nullptr; return __real_malloc(n); }
void *__wrap_calloc(size_t a, size_t b) { if (inject()) return nullptr; return __real_calloc(a, b); }
void *__wrap_realloc(void *p, size_t n) { if (inject()) return nullptr; return __real_realloc(p, n); }
char *__wrap_strdup(const char *s) { if (inject()) return nullptr; return __real_strdup(s); }
// builders / bloom filter (no public header)
typedef struct carquet_statistics_builder carquet_statistics_builder_t;
carquet_statistics_builder_t *carquet_statistics_builder_create(carquet_physical_type_t, int32_t);
void carquet_statistics_builder_destroy(carquet_statistics_builder_t *);
carquet_status_t carquet_statistics_add_values(carquet_statistics_builder_t *, const void *, int64_t);
carquet_status_t carquet_statistics_build(const carquet_statistics_builder_t *, carquet_arena_t *, parquet_statistics_t *);
typedef struct carquet_column_index_builder carquet_column_index_builder_t;
carquet_column_index_builder_t *carquet_column_index_builder_create(carquet_physical_type_t, int32_t);
void carquet_column_index_builder_destroy(carquet_column_index_builder_t *);
carquet_status_t carquet_column_index_add_page(carquet_column_index_builder_t *, int64_t, const void *, int32_t, const void *, int32_t, bool);
typedef struct carquet_bloom_filter carquet_bloom_filter_t;
carquet_bloom_filter_t *carquet_bloom_filter_create(size_t);
carquet_bloom_filter_t *carquet_bloom_filter_from_data(const uint8_t *, size_t);
void carquet_bloom_filter_destroy(carquet_bloom_filter_t *);
void carquet_bloom_filter_insert_i64(carquet_bloom_filter_t *, int64_t);
bool carquet_bloom_filter_check_i64(const carquet_bloom_filter_t *, int64_t);
const uint8_t *carquet_bloom_filter_data(const carquet_bloom_filter_t *);
size_t carquet_bloom_filter_size(const carquet_bloom_filter_t *);
}
struct Armed { Armed(long k) { g_allocs = 0; g_fail_at = k; g_hit = false; g_armed = true; } ~Armed() { g_armed = false; } };

struct S { int kind = 0; cw::W w; pw::FileSpec fs; int mode = 0; int batch = 4; int ncols = 70; };   // kind: 0 schema build, 1 write(path), 2 write(FILE*), 3 read carquet-written, 4 read reference-written (dictionary), 5 batch read, 6 builders
static CaseText ser(const S &s) { CaseText t; if (s.kind == 4 || (s.kind == 5 && s.ncols == 1)) gf::putSpec(t, s.fs); else if (s.kind >= 1 && s.kind <= 5) t = cw::ser(s.w); t.put_i("kind", s.kind); t.put_i("smode", s.mode); t.put_i("sbatch", s.batch); t.put_i("ncols", s.ncols); return t; }
static S de(const CaseText &t) { S s; s.kind = (int)t.get_i("kind"); s.mode = (int)t.get_i("smode"); s.batch = (int)t.get_i("sbatch"); s.ncols = (int)t.get_i("ncols"); if (s.kind == 4 || (s.kind == 5 && s.ncols == 1)) s.fs = gf::getSpec(t); else if (s.kind >= 1 && s.kind <= 5) s.w = cw::de(t); return s; }

static rc::Gen<cw::W> tableW() {
  return rc::gen::exec([]() {
    cw::W w;
    gf::Opts o; o.int96 = false; o.max_cols = 4; o.types = {pq::BOOLEAN, pq::INT32, pq::INT64, pq::FLOAT, pq::DOUBLE, pq::BYTE_ARRAY, pq::FIXED_LEN_BYTE_ARRAY};
    w.fs.root = gf::genSchema(o);
    for (size_t i = 0; i < w.fs.root.kids.size(); i++) w.fs.root.kids[i].name = "c" + std::to_string(i);
    auto lv = pw::leaves(w.fs.root);
    w.codec = *rc::gen::element(0, 1, 2, 5, 6); w.page_size = *rc::gen::element<int64_t>(64, 256, 1 << 20); w.order = (uint32_t)*irange(1, 1 << 30); w.opts = *rc::gen::weightedOneOf<int>({{3, rc::gen::just(0)}, {2, irange(0, 15)}}); w.level = *rc::gen::element(0, 0, 1, 9, 19);
    for (int g = 0; g < 2; g++) {
      size_t rows = (size_t)*rc::gen::weightedOneOf<int>({{5, irange(1, 25)}, {2, irange(40, 90)}});   // sometimes enough rows for ten and more small pages per chunk
      w.fs.rg_rows.push_back((int64_t)rows);
      std::vector<pw::ChunkSpec> rg; std::vector<std::vector<int>> pc; std::vector<int> nl;
      for (auto &lf : lv) {
        pw::ChunkSpec cs; cs.n = rows;
        int nolevm = lf.max_def ? *rc::gen::element(0, 0, 0, 1, 2) : 0;   // OPTIONAL column written without a levels array (always / for batches without a null): the writer materialises the levels itself
        if (lf.max_def) { auto p = nolevm == 1 ? std::vector<uint8_t>(rows, 1) : *gf::presentGen(rows); for (auto x : p) cs.def.push_back(x); }
        size_t nn = 0; for (size_t i = 0; i < rows; i++) if (!lf.max_def || cs.def[i]) nn++;
        cs.values = *rc::gen::container<std::vector<Bytes>>(nn, gf::valueGen(lf.type, lf.type_length));
        if (lf.type == pq::BYTE_ARRAY) for (auto &v : cs.values) if (v.size() > 30) v.resize(30);
        pw::PageSpec pg; pg.end = rows; cs.pages.push_back(pg);
        rg.push_back(cs); nl.push_back(nolevm);
        // batch sizes: small, or growing from call to call (a buffer that was flushed and cleared must then grow on its next use)
        std::vector<int> part; size_t left = rows; bool growing = *irange(0, 3) == 0; size_t nextk = 1;
        while (left) { size_t k = growing ? std::min(left, nextk) : (size_t)*irange(1, (int)std::min<size_t>(left, 10)); nextk = nextk * 3 + 1; part.push_back((int)k); left -= k; }
        pc.push_back(part);
      }
      w.fs.row_groups.push_back(rg); w.parts.push_back(pc); w.nolevels.push_back(nl); w.extra_nrg.push_back(0);
    }
    return w;
  });
}
// a wide table with long column names: the footer grows past several buffer doublings, so that allocation failures land
// inside strings and lists of the metadata encoder / parser, not only in front of them
static rc::Gen<cw::W> wideW() {
  return rc::gen::exec([]() {
    cw::W w;
    w.fs.root.name = "schema"; w.fs.root.group = true;
    int ncols = *irange(14, 40), nrg = *irange(1, 3);
    std::string stem((size_t)*rc::gen::element(8, 40, 90), 'n');
    for (int i = 0; i < ncols; i++) w.fs.root.kids.push_back(gf::leafNode(stem + "_" + std::to_string(i), i % 3 == 0 ? pq::OPTIONAL : pq::REQUIRED, i % 5 == 4 ? pq::BYTE_ARRAY : pq::INT32, 0));
    auto lv = pw::leaves(w.fs.root);
    w.codec = *rc::gen::element(0, 1); w.page_size = 1 << 20; w.order = (uint32_t)*irange(1, 1 << 30); w.opts = *rc::gen::element(0, 0, 2, 8, 15);
    for (int g = 0; g < nrg; g++) {
      size_t rows = (size_t)*irange(1, 4);
      w.fs.rg_rows.push_back((int64_t)rows);
      std::vector<pw::ChunkSpec> rg; std::vector<std::vector<int>> pc; std::vector<int> nl;
      for (auto &lf : lv) {
        pw::ChunkSpec cs; cs.n = rows;
        if (lf.max_def) cs.def.assign(rows, 1);
        for (size_t i = 0; i < rows; i++) cs.values.push_back(lf.type == pq::BYTE_ARRAY ? Bytes{'s', (uint8_t)('0' + i)} : Bytes{(uint8_t)i, 0, 0, 0});
        pw::PageSpec pg; pg.end = rows; cs.pages.push_back(pg);
        rg.push_back(cs); nl.push_back(0); pc.push_back({(int)rows});
      }
      w.fs.row_groups.push_back(rg); w.parts.push_back(pc); w.nolevels.push_back(nl); w.extra_nrg.push_back(0);
    }
    return w;
  });
}
// one or two fixed-width columns written in batches that grow from hundreds to thousands of values with small pages: buffers
// are filled, flushed, cleared and must then grow beyond their old capacity on the next batch
static rc::Gen<cw::W> growW() {
  return rc::gen::exec([]() {
    cw::W w;
    w.fs.root.name = "schema"; w.fs.root.group = true;
    int ncols = *irange(1, 2);
    for (int i = 0; i < ncols; i++) w.fs.root.kids.push_back(gf::leafNode("c" + std::to_string(i), *irange(0, 1), *rc::gen::element<int>(pq::INT32, pq::INT64, pq::DOUBLE), 0));
    auto lv = pw::leaves(w.fs.root);
    w.codec = *rc::gen::element(0, 1, 5); w.page_size = *rc::gen::element<int64_t>(512, 1024, 4096); w.order = (uint32_t)*irange(1, 1 << 30);
    std::vector<int> part = {(int)*irange(100, 600), (int)*irange(1500, 3500), (int)*irange(5000, 9000)};
    if (*irange(0, 1)) part.insert(part.begin(), (int)*irange(1, 40));
    size_t rows = 0; for (int k : part) rows += (size_t)k;
    w.fs.rg_rows.push_back((int64_t)rows);
    std::vector<pw::ChunkSpec> rg; std::vector<std::vector<int>> pc; std::vector<int> nl;
    for (auto &lf : lv) {
      pw::ChunkSpec cs; cs.n = rows;
      int nolevm = lf.max_def ? *rc::gen::element(0, 0, 1) : 0;
      if (lf.max_def) for (size_t i = 0; i < rows; i++) cs.def.push_back((int16_t)(nolevm == 1 || i % 7 != 3));
      size_t w8 = lf.type == pq::INT32 ? 4 : 8;
      for (size_t i = 0; i < rows; i++) if (!lf.max_def || cs.def[i]) { Bytes v(w8, 0); v[0] = (uint8_t)i; v[1] = (uint8_t)(i >> 8); cs.values.push_back(v); }
      pw::PageSpec pg; pg.end = rows; cs.pages.push_back(pg);
      rg.push_back(cs); nl.push_back(nolevm); pc.push_back(part);
    }
    w.fs.row_groups.push_back(rg); w.parts.push_back(pc); w.nolevels.push_back(nl); w.extra_nrg.push_back(0);
    return w;
  });
}
static rc::Gen<S> genS() {
  return rc::gen::mapcat(rc::gen::weightedOneOf<int>({{1, rc::gen::just(0)}, {3, rc::gen::just(1)}, {2, rc::gen::just(2)}, {3, rc::gen::just(3)}, {3, rc::gen::just(4)}, {3, rc::gen::just(5)}, {1, rc::gen::just(6)}}), [](int kind) -> rc::Gen<S> {
    if (kind == 0 || kind == 6) return rc::gen::map(irange(0, 140), [kind](int n) { S s; s.kind = kind; s.ncols = n; return s; });
    if (kind == 4) { gf::Opts o; o.max_cols = 3; o.max_rows = 20; o.max_rgs = 2; o.max_pages = 3; o.thrift_extras = false; o.layouts = false; o.stats = true;
      return rc::gen::map(rc::gen::tuple(gf::specGen(o), irange(0, 2), irange(1, 9)), [](const std::tuple<pw::FileSpec, int, int> &t) { S s; s.kind = 4; s.fs = std::get<0>(t); s.mode = std::get<1>(t); s.batch = std::get<2>(t); return s; }); }
    return rc::gen::map(rc::gen::tuple(rc::gen::weightedOneOf<cw::W>({{12, tableW()}, {2, wideW()}, {kind <= 2 ? 2 : 0, growW()}}), irange(0, 2), rc::gen::weightedOneOf<int>({{3, irange(1, 9)}, {2, irange(30, 120)}})), [kind](const std::tuple<cw::W, int, int> &t) { S s; s.kind = kind; s.w = std::get<0>(t); s.mode = std::get<1>(t); s.batch = std::get<2>(t); s.ncols = 0; return s; });
  });
}

// Each scenario function runs the scenario once with injection armed at k (k = -1: counting run) and returns
// "" if the outcome is acceptable, else a message.  `effect` receives a digest of the successful effect.
typedef std::function<std::string(long k, std::string &effect, bool &claimed_success)> Scenario;

static std::string readAll(carquet_reader_t *r, const std::vector<int> &maxdefs, int batch, bool &ok) {
  std::string out; ok = true;
  for (int g = 0; g < carquet_reader_num_row_groups(r); g++)
    for (int c = 0; c < carquet_reader_num_columns(r); c++) {
      rd::Content got; std::string err;
      if (!rd::readChunk(r, g, c, batch, maxdefs[(size_t)c], got, err)) { ok = false; return out; }
      out += "chunk " + std::to_string(g) + "," + std::to_string(c) + " rows=" + std::to_string(got.rows) + " def="; for (auto d : got.def) out += std::to_string(d); out += " vals="; for (auto &v : got.values) out += pbt::hex(v) + ","; out += "\n";
    }
  return out;
}

static Verdict runS(const S &s) {
  Verdict vd;
  static const char *kn[] = {"schema_build", "write_path", "write_FILE", "read_carquet_file", "read_dictionary_file", "batch_read", "builders"};
  vd.label(kn[s.kind]);
  Scenario sc;
  Bytes filebytes; std::vector<pw::Leaf> lv; std::vector<int> maxdefs;
  if (s.kind >= 1 && s.kind <= 5 && !(s.kind == 4)) { lv = pw::leaves(s.w.fs.root); }
  if (s.kind == 3 || s.kind == 5) { std::string err; bool refused = false; if (!cw::writeWith(s.w, lv, filebytes, err, refused)) { vd.vacuous = true; vd.label("writer_refused"); return vd; } }
  if (s.kind == 4) { lv = pw::leaves(s.fs.root); filebytes = pw::write_file(s.fs).bytes; }
  for (auto &l : lv) maxdefs.push_back(l.max_def);

  if (s.kind == 0) sc = [&](long k, std::string &effect, bool &claimed) -> std::string {
    Armed a(k);
    carquet_error_t e = CARQUET_ERROR_INIT;
    carquet_schema_t *sch = carquet_schema_create(&e);
    if (!sch) { claimed = false; return ""; }
    claimed = true;
    int added = 0;
    for (int i = 0; i < s.ncols; i++) { std::string nm = "col" + std::to_string(i); carquet_status_t st = carquet_schema_add_column(sch, nm.c_str(), (carquet_physical_type_t)(i % 7 == 3 ? 4 : i % 7), nullptr, (carquet_field_repetition_t)(i % 2), i % 7 == 0 ? 0 : 0); if (st != CARQUET_OK) { claimed = false; break; } added++; }
    // whatever was reported as added must be there and intact
    std::string why;
    if (carquet_schema_num_columns(sch) != added) why = "schema reports " + std::to_string(carquet_schema_num_columns(sch)) + " columns after " + std::to_string(added) + " successful add_column calls";
    for (int i = 0; i < added && why.empty(); i++) { const carquet_schema_node_t *n = carquet_schema_get_element(sch, i + 1); std::string nm = "col" + std::to_string(i); if (!n || !carquet_schema_node_name(n) || nm != carquet_schema_node_name(n)) why = "column " + std::to_string(i) + " lost or unnamed after an allocation failure"; }
    effect = std::to_string(added);
    carquet_schema_free(sch);
    return why;
  };
  else if (s.kind == 1 || s.kind == 2) sc = [&](long k, std::string &effect, bool &claimed) -> std::string {
    cw::WriteCtl ctl; FILE *fp = nullptr; std::string path;
    if (s.kind == 2) { path = rd::tmpPath("af"); fp = fopen(path.c_str(), "wb"); if (!fp) return "harness: fopen"; ctl.sink = fp; }
    { Armed a(k); cw::runHistory(s.w, lv, ctl); }
    if (fp) fclose(fp); else path = ctl.path;
    claimed = !ctl.any_nonok && ctl.closed;
    std::string why;
    if (claimed) {
      Bytes b; if (!rd::readFile(path, b)) why = "writer reported success but the file cannot be read";
      else { prd::FileOut fo; std::string e; prd::Strict st; if (!prd::read_file(b, fo, e, st)) why = "writer reported success after an allocation failure but the file is not valid Parquet: " + e;
        else { std::string dig; for (auto &rg : fo.chunks) for (auto &c : rg) { for (auto d : c.def) dig += std::to_string(d); for (auto &v : c.values) dig += pbt::hex(v) + ","; dig += "|"; } effect = dig; } }
    }
    if (!path.empty()) unlink(path.c_str());
    return why;
  };
  else if (s.kind == 3 || s.kind == 4) sc = [&](long k, std::string &effect, bool &claimed) -> std::string {
    Armed a(k);
    rd::Opened op(filebytes, s.mode);
    if (!op.r) { claimed = false; return ""; }
    bool ok = true;
    std::string t = "rows=" + std::to_string(carquet_reader_num_rows(op.r)) + "\n" + readAll(op.r, maxdefs, s.batch, ok);
    claimed = ok; effect = t;
    return "";
  };
  else if (s.kind == 5) sc = [&](long k, std::string &effect, bool &claimed) -> std::string {
    Armed a(k);
    rd::Opened op(filebytes, s.mode);
    if (!op.r) { claimed = false; return ""; }
    cs::BatchCfg cfg; cfg.batch_size = s.batch; if (lv.size() > 1) cfg.proj = {(int)lv.size() - 1, 0};
    cs::BatchRun run = cs::runBatches(op.r, cfg, false);
    claimed = run.created && run.end_status == CARQUET_ERROR_END_OF_DATA;
    effect = cs::transcript(run);
    return "";
  };
  else sc = [&](long k, std::string &effect, bool &claimed) -> std::string {
    Armed a(k);
    claimed = true; std::string why;
    carquet_statistics_builder_t *sb = carquet_statistics_builder_create(CARQUET_PHYSICAL_INT64, 0);
    if (sb) { int64_t v[3] = {5, -7, 9}; if (carquet_statistics_add_values(sb, v, 3) != CARQUET_OK) claimed = false;
      parquet_statistics_t st; memset(&st, 0, sizeof st);
      if (carquet_statistics_build(sb, nullptr, &st) != CARQUET_OK) claimed = false;
      else { if (st.min_value && st.min_value_len == 8) { int64_t m; memcpy(&m, st.min_value, 8); if (m != -7) why = "statistics min wrong after allocation failure"; effect += "min"; } free(st.min_value); free(st.max_value); }
      carquet_statistics_builder_destroy(sb); } else claimed = false;
    carquet_column_index_builder_t *cb = carquet_column_index_builder_create(CARQUET_PHYSICAL_INT32, 0);
    if (cb) { for (int i = 0; i < s.ncols % 40 + 1; i++) { int32_t a2 = i, b2 = i + 5; if (carquet_column_index_add_page(cb, 0, &a2, 4, &b2, 4, false) != CARQUET_OK) { claimed = false; break; } } carquet_column_index_builder_destroy(cb); } else claimed = false;
    carquet_bloom_filter_t *bf = carquet_bloom_filter_create(64 + (size_t)s.ncols);
    if (bf) { carquet_bloom_filter_insert_i64(bf, 42); if (!carquet_bloom_filter_check_i64(bf, 42)) why = "bloom filter lost a value";
      carquet_bloom_filter_t *b2 = carquet_bloom_filter_from_data(carquet_bloom_filter_data(bf), carquet_bloom_filter_size(bf)); if (b2) { if (!carquet_bloom_filter_check_i64(b2, 42)) why = "reloaded bloom filter lost a value"; carquet_bloom_filter_destroy(b2); } else claimed = false;
      carquet_bloom_filter_destroy(bf); } else claimed = false;
    return why;
  };

  // counting run (nothing fails)
  std::string base_effect; bool base_ok = false;
  std::string why = sc(-1, base_effect, base_ok);
  long K = g_allocs;
  PBT_CHECK(vd, why.empty(), "fault-free run: %s", why.c_str());
  if (!base_ok) { vd.vacuous = true; vd.label("fault_free_run_not_successful"); return vd; }
  long evals = 0, after_first = 0, errors = 0, successes = 0;
  for (long k = 0; k < K; k++) {
    // "nor leaks": the number of live heap bytes after the scenario (all handles closed) equals the number before it.  Exact
    // and attributable to this k, unlike the recoverable LeakSanitizer scan, which keeps re-reporting leaks of earlier
    // cases and can be blinded by a stale pointer on the stack.
    size_t h0 = __sanitizer_get_current_allocated_bytes();
    bool hit = false, claimed = false, same = true; char whybuf[400] = {0};
    {
      std::string eff, w2;
      w2 = sc(k, eff, claimed);
      hit = g_hit;
      snprintf(whybuf, sizeof whybuf, "%s", w2.c_str());
      same = eff == base_effect;
      if (hit && claimed && !same && getenv("C19_DUMP")) fprintf(stderr, "---- fault-free:\n%s\n---- with failure at %ld:\n%s\n", base_effect.c_str(), k, eff.c_str());
    }
    size_t h1 = __sanitizer_get_current_allocated_bytes();
    if (!hit) continue;
    evals++;
    PBT_CHECK(vd, whybuf[0] == 0, "%s, allocation request %ld of %ld fails: %s", kn[s.kind], k, K, whybuf);
    if (claimed) { successes++; PBT_CHECK(vd, same, "%s, allocation request %ld of %ld fails: the API reports success but the effect differs from the fault-free run", kn[s.kind], k, K); }
    else errors++;
    if (k > 2) after_first++;
    PBT_CHECK(vd, h1 <= h0, "%s, allocation request %ld of %ld fails: %zu heap bytes are still allocated after all handles were closed (leak)", kn[s.kind], k, K, h1 - h0);
  }
  vd.evals = std::max<long>(1, evals); vd.nontrivial = after_first > 0;
  if (successes) vd.label("failure_tolerated_with_identical_effect");
  return vd;
}

int main(int argc, char **argv) {
  add<S>("alloc_failure", 1, genS, ser, de, runS);
  return main_(argc, argv);
}
