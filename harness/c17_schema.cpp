// C17: schema trees map to the right leaf columns and def/rep levels.
//  tree:    a schema stored as a depth-first element list (written by the reference writer) is exposed
//           as exactly its leaves in depth-first order with textbook maximum levels; element accessors
//           and find_column return what the file states; the levels the column readers *use* agree
//           (reading a chunk returns the stored levels).
//  builder: flat schemas built through the builder API report the same counts, names, types and levels.
#include "harness/common/pbt.hpp"
#include "harness/common/consume.hpp"
#include "harness/common/reading.hpp"
#include "gen/files.hpp"

using namespace pbt;

struct T { pw::FileSpec fs; int mode = 0; };
static CaseText serT(const T &t) { CaseText c; c.put_i("mode", t.mode); gf::putSpec(c, t.fs); return c; }
static T deT(const CaseText &c) { T t; t.mode = (int)c.get_i("mode"); t.fs = gf::getSpec(c); return t; }

static void countNodes(const pw::Node &n, int depth, int &nodes, int &maxdepth, bool &interior_optrep) {
  for (auto &k : n.kids) { nodes++; maxdepth = std::max(maxdepth, depth + 1); if (k.group && k.rep != pq::REQUIRED) interior_optrep = true; countNodes(k, depth + 1, nodes, maxdepth, interior_optrep); }
}
static void flattenNodes(const pw::Node &n, std::vector<const pw::Node *> &out) { out.push_back(&n); for (auto &k : n.kids) flattenNodes(k, out); }

static Verdict runT(const T &t) {
  Verdict vd;
  auto lv = pw::leaves(t.fs.root);
  int nodes = 0, maxdepth = 0; bool inter = false;
  countNodes(t.fs.root, 0, nodes, maxdepth, inter);
  vd.nontrivial = maxdepth >= 2 && inter;
  vd.label("depth=" + std::to_string(std::min(maxdepth, 6))); vd.label(rd::modeName(t.mode));
  pw::Written w = pw::write_file(t.fs);
  rd::Opened op(w.bytes, t.mode);
  PBT_CHECK(vd, op.r != nullptr, "file with a valid schema tree (%d nodes, depth %d) rejected at open: %s", nodes, maxdepth, op.err.message);
  const carquet_schema_t *s = carquet_reader_schema(op.r);
  PBT_CHECK(vd, s != nullptr, "no schema");
  PBT_CHECK(vd, carquet_reader_num_columns(op.r) == (int32_t)lv.size() && carquet_schema_num_columns(s) == (int32_t)lv.size(), "num_columns %d/%d, schema has %zu leaves", carquet_reader_num_columns(op.r), carquet_schema_num_columns(s), lv.size());
  std::vector<const pw::Node *> flat;
  flattenNodes(t.fs.root, flat);
  PBT_CHECK(vd, carquet_schema_num_elements(s) == (int32_t)flat.size(), "num_elements %d, file stores %zu", carquet_schema_num_elements(s), flat.size());
  PBT_CHECK(vd, carquet_schema_get_element(s, -1) == nullptr && carquet_schema_get_element(s, (int32_t)flat.size()) == nullptr, "out-of-range element index not NULL");
  size_t leaf = 0;
  std::map<std::string, int> name_count;
  for (auto &l : lv) name_count[l.path.back()]++;
  for (size_t i = 0; i < flat.size(); i++) {
    const carquet_schema_node_t *n = carquet_schema_get_element(s, (int32_t)i);
    PBT_CHECK(vd, n != nullptr, "element %zu missing", i);
    PBT_CHECK(vd, flat[i]->name == carquet_schema_node_name(n), "element %zu name '%s', file states '%s'", i, carquet_schema_node_name(n), flat[i]->name.c_str());
    if (i == 0) continue;
    PBT_CHECK(vd, carquet_schema_node_is_leaf(n) == !flat[i]->group, "element %zu is_leaf %d, file states %s", i, (int)carquet_schema_node_is_leaf(n), flat[i]->group ? "group" : "leaf");
    PBT_CHECK(vd, (int)carquet_schema_node_repetition(n) == flat[i]->rep, "element %zu repetition %d, file states %d", i, (int)carquet_schema_node_repetition(n), flat[i]->rep);
    if (flat[i]->group) continue;
    const pw::Leaf &lf = lv.at(leaf);
    PBT_CHECK(vd, (int)carquet_schema_node_physical_type(n) == lf.type, "leaf %zu physical type %d, file states %d", leaf, (int)carquet_schema_node_physical_type(n), lf.type);
    int32_t want_tl = lf.type == pq::FIXED_LEN_BYTE_ARRAY ? lf.type_length : 0;
    PBT_CHECK(vd, carquet_schema_node_type_length(n) == want_tl, "leaf %zu type length %d, file states %d", leaf, carquet_schema_node_type_length(n), want_tl);
    const carquet_logical_type_t *lt = carquet_schema_node_logical_type(n);
    if (lf.lt.kind == 0) PBT_CHECK(vd, lt == nullptr, "leaf %zu reports a logical type the file does not state", leaf);
    else {
      // union field id of parquet.thrift's LogicalType -> carquet's enumerator (the union has no member 9)
      static const int want_id[16] = {0, CARQUET_LOGICAL_STRING, CARQUET_LOGICAL_MAP, CARQUET_LOGICAL_LIST, CARQUET_LOGICAL_ENUM, CARQUET_LOGICAL_DECIMAL, CARQUET_LOGICAL_DATE, CARQUET_LOGICAL_TIME, CARQUET_LOGICAL_TIMESTAMP, -1,
                                      CARQUET_LOGICAL_INTEGER, CARQUET_LOGICAL_NULL, CARQUET_LOGICAL_JSON, CARQUET_LOGICAL_BSON, CARQUET_LOGICAL_UUID, CARQUET_LOGICAL_FLOAT16};
      PBT_CHECK(vd, lt != nullptr, "leaf %zu: the file states a logical type (union member %d), the node reports none", leaf, lf.lt.kind);
      PBT_CHECK(vd, (int)lt->id == want_id[lf.lt.kind], "leaf %zu: the file states logical type union member %d, the node reports id %d (expected %d)", leaf, lf.lt.kind, (int)lt->id, want_id[lf.lt.kind]);
      if (lf.lt.kind == 5) PBT_CHECK(vd, lt->params.decimal.scale == lf.lt.scale && lt->params.decimal.precision == lf.lt.precision, "leaf %zu DECIMAL(%d,%d) reported as (%d,%d)", leaf, lf.lt.precision, lf.lt.scale, lt->params.decimal.precision, lt->params.decimal.scale);
      if (lf.lt.kind == 10) PBT_CHECK(vd, lt->params.integer.bit_width == lf.lt.bit_width && lt->params.integer.is_signed == lf.lt.is_signed, "leaf %zu INTEGER(%d) reported with bit width %d", leaf, lf.lt.bit_width, (int)lt->params.integer.bit_width);
    }
    PBT_CHECK(vd, carquet_schema_node_max_def_level(n) == lf.max_def, "leaf %zu ('%s') max definition level %d, %d optional/repeated nodes on its path", leaf, lf.path.back().c_str(), carquet_schema_node_max_def_level(n), lf.max_def);
    PBT_CHECK(vd, carquet_schema_node_max_rep_level(n) == lf.max_rep, "leaf %zu ('%s') max repetition level %d, %d repeated nodes on its path", leaf, lf.path.back().c_str(), carquet_schema_node_max_rep_level(n), lf.max_rep);
    if (name_count[lf.path.back()] == 1) PBT_CHECK(vd, carquet_schema_find_column(s, lf.path.back().c_str()) == (int32_t)leaf, "find_column('%s') = %d, leaf index is %zu", lf.path.back().c_str(), carquet_schema_find_column(s, lf.path.back().c_str()), leaf);
    leaf++;
  }
  PBT_CHECK(vd, leaf == lv.size(), "walked %zu leaves, schema has %zu", leaf, lv.size());
  PBT_CHECK(vd, carquet_schema_find_column(s, "no_such_column_\x01") == -1, "find_column of an absent name is not -1");
  for (auto &l : lv) {   // a proper prefix / extension of a column name that is not itself a column name is absent
    const std::string &nm = l.path.back();
    std::string shorter = nm.substr(0, nm.size() - 1), longer = nm + "_";
    if (!shorter.empty() && !name_count.count(shorter)) PBT_CHECK(vd, carquet_schema_find_column(s, shorter.c_str()) == -1, "find_column('%s') = %d, but no column has that name (it is a prefix of '%s')", shorter.c_str(), carquet_schema_find_column(s, shorter.c_str()), nm.c_str());
    if (!name_count.count(longer)) PBT_CHECK(vd, carquet_schema_find_column(s, longer.c_str()) == -1, "find_column('%s') = %d, but no column has that name", longer.c_str(), carquet_schema_find_column(s, longer.c_str()));
  }
  // the levels the readers use: reading returns the stored levels
  for (size_t g = 0; g < t.fs.row_groups.size(); g++)
    for (size_t k = 0; k < lv.size(); k++) {
      auto &cs = t.fs.row_groups[g][k];
      rd::Content got; std::string err;
      bool ok = rd::readChunk(op.r, (int)g, (int)k, 0, lv[k].max_def, got, err);
      PBT_CHECK(vd, ok, "reading leaf %zu fails: %s", k, err.c_str());
      PBT_CHECK(vd, (size_t)got.rows == cs.n, "leaf %zu delivers %lld level entries, chunk stores %zu", k, (long long)got.rows, cs.n);
      for (size_t i = 0; i < cs.n; i++) {
        int d = lv[k].max_def ? cs.def[i] : 0, r = lv[k].max_rep ? cs.rep[i] : 0;
        PBT_CHECK(vd, got.def[i] == d && got.rep[i] == r, "leaf %zu entry %zu levels (%d,%d), stored (%d,%d): the reader uses wrong maximum levels", k, i, got.def[i], got.rep[i], d, r);
      }
      PBT_CHECK(vd, got.values == cs.values, "leaf %zu values differ", k);
    }
  // the batch reader types and sizes each column from the schema: for every non-repeated leaf its batches must hold the
  // stored values (a leaf resolved to the wrong schema node shows as wrong values or as a sanitizer report)
  {
    cs::BatchCfg cfg; cfg.batch_size = 1 + (int)(lv.size() % 5); cfg.threads = 1;
    cs::BatchRun run = cs::runBatches(op.r, cfg, false, 400);
    if (run.created) {
      for (size_t k = 0; k < lv.size(); k++) {
        if (lv[k].max_rep > 0 || lv[k].max_def > 0) continue;   // required leaves: every row carries a value, no bitmap convention involved
        std::vector<Bytes> want, gotv;
        for (auto &rg : t.fs.row_groups) want.insert(want.end(), rg[k].values.begin(), rg[k].values.end());
        for (auto &b : run.batches) if (k < b.cols.size()) gotv.insert(gotv.end(), b.cols[k].slots.begin(), b.cols[k].slots.end());
        bool all_flat = true; for (auto &l : lv) if (l.max_rep > 0) all_flat = false;
        if (all_flat && run.end_status == CARQUET_ERROR_END_OF_DATA) PBT_CHECK(vd, gotv == want, "batch reader: leaf %zu ('%s') delivers %zu values that differ from the %zu stored ones", k, lv[k].path.back().c_str(), gotv.size(), want.size());
      }
    }
  }
  return vd;
}

static rc::Gen<T> genT() {
  gf::Opts o; o.logical_types = true; o.nested = true; o.max_cols = 6; o.max_rows = 6; o.max_rgs = 1; o.dicts = false; o.codecs = false; o.stats = false; o.thrift_extras = false; o.layouts = false; o.crc = false; o.max_pages = 1;
  return rc::gen::map(rc::gen::pair(gf::specGen(o), irange(0, 2)), [](const std::pair<pw::FileSpec, int> &p) { T t; t.fs = p.first; t.mode = p.second; return t; });
}
// deep / wide random trees
static rc::Gen<T> genDeep() {
  return rc::gen::exec([]() {
    T t; t.mode = *irange(0, 2);
    pw::Node root; root.name = "schema"; root.group = true;
    int style = *irange(0, 3), counter = 0;
    auto leaf = [&](int rep) { pw::Node n; n.name = "c" + std::to_string(counter++); n.rep = rep; n.type = *rc::gen::element<int>(pq::INT32, pq::INT64, pq::BYTE_ARRAY, pq::BOOLEAN, pq::DOUBLE); return n; };
    auto rep = [&]() { return *rc::gen::element<int>(pq::REQUIRED, pq::OPTIONAL, pq::REPEATED); };
    if (style == 0) {   // long chain, depth up to 25
      int depth = *irange(5, 25); pw::Node *cur = &root;
      for (int d = 0; d < depth; d++) { pw::Node g; g.name = "g" + std::to_string(counter++); g.group = true; g.rep = rep(); if (*irange(0, 2) == 0) cur->kids.push_back(leaf(rep())); cur->kids.push_back(g); cur = &cur->kids.back(); }
      cur->kids.push_back(leaf(rep()));
    } else if (style == 1) {   // wide fan
      int n = *rc::gen::weightedOneOf<int>({{3, irange(20, 150)}, {1, irange(300, 400)}});
      for (int i = 0; i < n; i++) root.kids.push_back(leaf(rep()));
    } else if (style == 2) {   // sibling groups after deep ones, group as last child
      int n = *irange(2, 6);
      for (int i = 0; i < n; i++) { pw::Node g; g.name = "g" + std::to_string(counter++); g.group = true; g.rep = rep(); pw::Node *cur = &g; int d = *irange(0, 4);
        for (int k = 0; k < d; k++) { pw::Node h; h.name = "h" + std::to_string(counter++); h.group = true; h.rep = rep(); cur->kids.push_back(leaf(rep())); cur->kids.push_back(h); cur = &cur->kids.back(); }
        cur->kids.push_back(leaf(rep())); root.kids.push_back(g); if (*irange(0, 1)) root.kids.push_back(leaf(rep())); }
    } else {   // many leaves in nested groups (1000+)
      int groups = *irange(10, 40);
      for (int i = 0; i < groups; i++) { pw::Node g; g.name = "g" + std::to_string(counter++); g.group = true; g.rep = rep(); int n = *irange(5, 40); for (int k = 0; k < n; k++) g.kids.push_back(leaf(rep())); root.kids.push_back(g); }
    }
    t.fs.root = root;
    auto lv = pw::leaves(root);
    size_t rows = (size_t)*irange(0, 3);
    t.fs.rg_rows.push_back((int64_t)rows);
    std::vector<pw::ChunkSpec> rg; uint64_t seed = (uint64_t)*irange(1, 1 << 30);
    for (size_t k = 0; k < lv.size(); k++) rg.push_back(gf::detChunk(lv[k], rows, seed + k));
    t.fs.row_groups.push_back(rg);
    return t;
  });
}
// every ordered forest with n nodes x every labeling
static void forests(int n, std::vector<std::string> &out) {   // balanced-parenthesis encodings of forests with n nodes
  if (n == 0) { out.push_back(""); return; }
  for (int k = 0; k < n; k++) {   // first tree has k descendants
    std::vector<std::string> a, b; forests(k, a); forests(n - 1 - k, b);
    for (auto &x : a) for (auto &y : b) out.push_back("(" + x + ")" + y);
  }
}
static pw::Node buildForest(const std::string &shape, uint64_t labels, uint64_t typeseed) {
  pw::Node root; root.name = "schema"; root.group = true;
  std::vector<pw::Node *> stack = {&root};
  std::vector<std::vector<pw::Node>> pending;   // build via recursion instead: simpler
  std::function<void(pw::Node &, size_t &, int &)> rec = [&](pw::Node &parent, size_t &pos, int &idx) {
    while (pos < shape.size() && shape[pos] == '(') {
      pos++;
      pw::Node n; int my = idx++;
      n.rep = (int)((labels / (uint64_t)std::pow(3, my)) % 3);
      n.name = "n" + std::to_string(my);
      rec(n, pos, idx);
      pos++;   // ')'
      if (n.kids.empty()) { static const int ty[] = {pq::INT32, pq::BYTE_ARRAY, pq::BOOLEAN, pq::INT64, pq::FIXED_LEN_BYTE_ARRAY, pq::DOUBLE, pq::INT96, pq::FLOAT}; n.type = ty[(typeseed + (uint64_t)my * 3) % 8]; if (n.type == pq::FIXED_LEN_BYTE_ARRAY) n.type_length = 1 + (int)((typeseed + (uint64_t)my) % 9); }
      else n.group = true;
      parent.kids.push_back(n);
    }
  };
  size_t pos = 0; int idx = 0;
  rec(root, pos, idx);
  return root;
}
static void enumT(int level, const std::function<bool(const CaseText &)> &sink) {
  // level 1: every tree with <= 4 nodes and every 5th labelled tree with 5 nodes; level 2: every tree with <= 6 nodes
  int maxn = level >= 2 ? 6 : 5;
  uint64_t counter = 0;
  for (int n = 1; n <= maxn; n++) {
    std::vector<std::string> shapes; forests(n, shapes);
    uint64_t nl = 1; for (int i = 0; i < n; i++) nl *= 3;
    for (auto &sh : shapes)
      for (uint64_t lab = 0; lab < nl; lab++) {
        if (level < 2 && n == 5 && (counter++ % 5) != 0) continue;
        T t; t.mode = (int)(counter % 3);
        t.fs.root = buildForest(sh, lab, counter);
        auto lv = pw::leaves(t.fs.root);
        size_t rows = 1 + counter % 3;
        t.fs.rg_rows.push_back((int64_t)rows);
        std::vector<pw::ChunkSpec> rg;
        for (size_t k = 0; k < lv.size(); k++) rg.push_back(gf::detChunk(lv[k], rows, counter * 31 + k));
        t.fs.row_groups.push_back(rg);
        counter++;
        if (!sink(serT(t))) return;
      }
  }
}

// ------------------------------------------------------------------ builder
struct B { std::vector<int> cols; };   // per column: type + 8*rep + 64*(type_length-ish) + 4096*haslt
static CaseText serB(const B &b) { CaseText c; c.put_ints("cols", b.cols); return c; }
static B deB(const CaseText &c) { B b; b.cols = c.get_ints<int>("cols"); return b; }
static rc::Gen<B> genB() {
  auto col = rc::gen::map(rc::gen::tuple(irange(0, 7), irange(0, 2), irange(1, 40), rc::gen::weightedElement<int>({{6, 0}, {5, 1}, {1, 2}})) /* last: 0 plain column, 1 column with a logical type, 2 a group added with add_group */, [](const std::tuple<int, int, int, int> &t) { return std::get<0>(t) + 8 * std::get<1>(t) + 64 * std::get<2>(t) + 4096 * std::get<3>(t); });
  return rc::gen::mapcat(rc::gen::weightedOneOf<int>({{3, irange(0, 10)}, {2, rc::gen::element(62, 63, 64, 65, 66, 126, 127, 128, 129, 130)}, {1, irange(11, 300)}}), [col](int n) {
    return rc::gen::map(rc::gen::container<std::vector<int>>((size_t)n, col), [](const std::vector<int> &v) { B b; b.cols = v; return b; });
  });
}
static Verdict runB(const B &b) {
  Verdict vd;
  carquet_error_t e = CARQUET_ERROR_INIT;
  carquet_schema_t *s = carquet_schema_create(&e);
  PBT_CHECK(vd, s != nullptr, "schema_create failed");
  struct Free { carquet_schema_t *s; ~Free() { carquet_schema_free(s); } } fr{s};
  vd.nontrivial = b.cols.size() >= 64;
  if (b.cols.size() >= 128) vd.label("past_capacity_128"); else if (b.cols.size() >= 64) vd.label("past_capacity_64");
  std::vector<std::string> names;
  std::vector<int> leaf_of;   // element k (0-based behind the root) -> column index, -1 for a group
  int nleaves = 0; bool any_group = false;
  for (size_t i = 0; i < b.cols.size(); i++) {
    int type = b.cols[i] % 8, rep = (b.cols[i] / 8) % 3, tl = (b.cols[i] / 64) % 64, haslt = b.cols[i] / 4096;
    // odd-sized schemas: every later name is a proper prefix of all earlier ones
    names.push_back(b.cols.size() % 2 ? "k" + std::string(b.cols.size() - i, 'a') : "col_" + std::to_string(i));
    if (haslt == 2) {
      int32_t gi = carquet_schema_add_group(s, names.back().c_str(), (carquet_field_repetition_t)rep, 0);
      PBT_CHECK(vd, gi == (int32_t)i + 1, "add_group as element %zu returned index %d", i + 1, gi);
      leaf_of.push_back(-1); any_group = true;
    } else {
      carquet_logical_type_t lt; memset(&lt, 0, sizeof lt); lt.id = CARQUET_LOGICAL_STRING;
      carquet_status_t st = carquet_schema_add_column(s, names.back().c_str(), (carquet_physical_type_t)type, haslt ? &lt : nullptr, (carquet_field_repetition_t)rep, type == 7 ? tl : 0);
      PBT_CHECK(vd, st == CARQUET_OK, "add_column %zu failed: %d", i, (int)st);
      leaf_of.push_back(nleaves++);
    }
    // everything added so far must still read back (growth must not lose earlier columns)
    if (i == 63 || i == 64 || i == 127 || i == 128 || i + 1 == b.cols.size()) {
      PBT_CHECK(vd, carquet_schema_num_columns(s) == (int32_t)nleaves && carquet_schema_num_elements(s) == (int32_t)(i + 2), "after %zu add calls (%d columns): %d columns, %d elements", i + 1, nleaves, carquet_schema_num_columns(s), carquet_schema_num_elements(s));
      for (size_t k = 0; k <= i; k++) {
        int ty = b.cols[k] % 8, rp = (b.cols[k] / 8) % 3, l = (b.cols[k] / 64) % 64, hl = b.cols[k] / 4096;
        const carquet_schema_node_t *n = carquet_schema_get_element(s, (int32_t)k + 1);
        PBT_CHECK(vd, n && names[k] == carquet_schema_node_name(n), "element %zu name lost after %zu adds", k, i + 1);
        if (hl == 2) { PBT_CHECK(vd, !carquet_schema_node_is_leaf(n) && (int)carquet_schema_node_repetition(n) == rp, "element %zu was added as a group with repetition %d", k, rp); continue; }
        PBT_CHECK(vd, carquet_schema_node_is_leaf(n) && (int)carquet_schema_node_physical_type(n) == ty && (int)carquet_schema_node_repetition(n) == rp, "column %zu type/repetition (%d,%d), added (%d,%d)", k, (int)carquet_schema_node_physical_type(n), (int)carquet_schema_node_repetition(n), ty, rp);
        PBT_CHECK(vd, carquet_schema_node_type_length(n) == (ty == 7 ? l : 0), "column %zu type length %d, added %d", k, carquet_schema_node_type_length(n), ty == 7 ? l : 0);
        PBT_CHECK(vd, (carquet_schema_node_logical_type(n) != nullptr) == (hl != 0), "column %zu logical type presence differs", k);
        PBT_CHECK(vd, carquet_schema_node_max_def_level(n) == (rp != 0 ? 1 : 0) && carquet_schema_node_max_rep_level(n) == (rp == 2 ? 1 : 0), "column %zu levels (%d,%d), repetition %d implies (%d,%d)", k, carquet_schema_node_max_def_level(n), carquet_schema_node_max_rep_level(n), rp, rp != 0 ? 1 : 0, rp == 2 ? 1 : 0);
        PBT_CHECK(vd, carquet_schema_find_column(s, names[k].c_str()) == (int32_t)leaf_of[k], "find_column('%s') = %d, it is column %d", names[k].c_str(), carquet_schema_find_column(s, names[k].c_str()), leaf_of[k]);
      }
    }
  }
  if (any_group) vd.label("builder_with_groups");
  if (b.cols.empty()) PBT_CHECK(vd, carquet_schema_num_columns(s) == 0 && carquet_schema_num_elements(s) == 1, "empty schema reports %d columns / %d elements", carquet_schema_num_columns(s), carquet_schema_num_elements(s));
  return vd;
}

int main(int argc, char **argv) {
  add<T>("tree", 2, genT, serT, deT, runT);
  registry().back().enumerate = enumT;
  add<T>("tree_deep", 1, genDeep, serT, deT, runT);
  add<B>("builder", 1, genB, serB, deB, runB);
  return main_(argc, argv);
}
