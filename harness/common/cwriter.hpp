// carquet's own writer driven by a generated write history (shared by C01, C05, C14, C18, C19).
#pragma once
#include <functional>
#include "harness/common/pbt.hpp"
#include "harness/common/consume.hpp"
#include "gen/files.hpp"

namespace cw {
using namespace pbt;

// The table and schema live in a pw::FileSpec (flat schema; def = 0/1; dense values).  The write history adds:
struct W {
  pw::FileSpec fs;
  int codec = 0;              // carquet_compression_t
  int64_t page_size = 1 << 20;
  bool via_file = false;      // carquet_writer_create_file instead of a path
  int mode = 0;               // I/O mode for reading back
  int batch = 7;              // read-back batch size
  uint32_t order = 1;         // seed for interleaving the columns' write_batch calls
  std::vector<std::vector<std::vector<int>>> parts;   // [rg][col] -> batch sizes (sum = rows)
  std::vector<std::vector<int>> nolevels;             // [rg][col] -> 1: OPTIONAL column written with def_levels == NULL (all rows present); 2: NULL only for some of the batches whose rows are all present
  int opts = 0;               // writer options away from their defaults: bit0 write_statistics=false, bit1 write_page_index, bit2 write_bloom_filters, bit3 created_by set
  int level = 0;              // compression_level
  int64_t rg_size = 0;        // row_group_size option (0 = default): a target after which the writer may start a new row group on its own
  std::vector<int> extra_nrg;                         // explicit new_row_group calls after group g (1) / also one more on the then-empty group (2)
};
inline CaseText ser(const W &w) {
  CaseText t;
  t.put_i("codec", w.codec); t.put_i("page_size", w.page_size); t.put_i("via_file", w.via_file); t.put_i("mode", w.mode); t.put_i("batch", w.batch); t.put_u("order", w.order);
  t.put_i("opts", w.opts); t.put_i("level", w.level); t.put_i("rg_size", w.rg_size);
  t.put_ints("extra_nrg", w.extra_nrg);
  for (size_t g = 0; g < w.parts.size(); g++) { t.put_ints("nolev" + std::to_string(g), w.nolevels[g]); for (size_t c = 0; c < w.parts[g].size(); c++) t.put_ints("part" + std::to_string(g) + "_" + std::to_string(c), w.parts[g][c]); }
  gf::putSpec(t, w.fs);
  return t;
}
inline W de(const CaseText &t) {
  W w; w.codec = (int)t.get_i("codec"); w.page_size = t.get_i("page_size"); w.via_file = t.get_i("via_file"); w.mode = (int)t.get_i("mode"); w.batch = (int)t.get_i("batch"); w.order = (uint32_t)t.get_u("order");
  w.opts = (int)t.get_i("opts", 0); w.level = (int)t.get_i("level", 0); w.rg_size = t.get_i("rg_size", 0);
  w.extra_nrg = t.get_ints<int>("extra_nrg");
  w.fs = gf::getSpec(t);
  size_t nl = pw::leaves(w.fs.root).size();
  for (size_t g = 0; g < w.fs.row_groups.size(); g++) { w.nolevels.push_back(t.get_ints<int>("nolev" + std::to_string(g))); std::vector<std::vector<int>> pc; for (size_t c = 0; c < nl; c++) pc.push_back(t.get_ints<int>("part" + std::to_string(g) + "_" + std::to_string(c))); w.parts.push_back(pc); }
  return w;
}

inline rc::Gen<W> genW() {
  return rc::gen::exec([]() {
    W w;
    gf::Opts o; o.nested = false; o.int96 = false; o.dicts = false; o.codecs = false; o.stats = false; o.thrift_extras = false; o.layouts = false; o.crc = false; o.max_pages = 1;
    o.types = {pq::BOOLEAN, pq::INT32, pq::INT64, pq::FLOAT, pq::DOUBLE, pq::BYTE_ARRAY, pq::FIXED_LEN_BYTE_ARRAY};
    o.max_cols = *rc::gen::weightedOneOf<int>({{16, rc::gen::just(6)}, {2, rc::gen::just(12)}, {1, rc::gen::just(17)}});   // occasionally past the writer's initial column capacity of 8, and around 15 (Thrift short-form list limit)
    w.fs.root = gf::genSchema(o);
    if (o.max_cols == 12) while (w.fs.root.kids.size() < 9) { pw::Node n = gf::leafNode("x" + std::to_string(w.fs.root.kids.size()), *irange(0, 1), pq::INT32, 0); w.fs.root.kids.push_back(n); }
    if (o.max_cols == 17) { size_t want = (size_t)*irange(13, 17); while (w.fs.root.kids.size() < want) { pw::Node n = gf::leafNode("x" + std::to_string(w.fs.root.kids.size()), *irange(0, 1), *rc::gen::element<int>(pq::INT32, pq::INT64, pq::BOOLEAN), 0); w.fs.root.kids.push_back(n); } while (w.fs.root.kids.size() > want) w.fs.root.kids.pop_back(); }
    // unique, non-empty names
    for (size_t i = 0; i < w.fs.root.kids.size(); i++) w.fs.root.kids[i].name = "c" + std::to_string(i) + (i % 4 == 3 ? "\xc3\xa9" : "");
    if (*irange(0, 7) == 0) {   // names with dots, prefix relations and lengths at the varint boundary of the Thrift string length
      std::vector<std::string> special = {"id", "meta.id", "meta.rank", "c", "c1x", std::string(128, 'n'), std::string(127, 'm'), std::string(256, 'k'), std::string(129, 'j')};
      for (size_t i = 0; i < w.fs.root.kids.size() && i < special.size(); i++) if (*irange(0, 1)) w.fs.root.kids[i].name = special[i];
    }
    auto lv = pw::leaves(w.fs.root);
    w.codec = *rc::gen::element(0, 1, 2, 5, 6);   // UNCOMPRESSED, SNAPPY, GZIP, LZ4, ZSTD
    w.page_size = *rc::gen::element<int64_t>(64, 100, 256, 1024, 4096, 1 << 20);
    w.via_file = *rc::gen::arbitrary<bool>(); w.mode = *irange(0, 2); w.batch = *rc::gen::weightedOneOf<int>({{4, irange(1, 12)}, {1, irange(13, 400)}}); w.order = (uint32_t)*irange(1, 1 << 30);
    w.opts = *rc::gen::weightedOneOf<int>({{3, rc::gen::just(0)}, {2, irange(0, 15)}}); w.level = *rc::gen::element(0, 0, 1, 3, 9, 19, -1, 100);
    w.rg_size = *rc::gen::weightedOneOf<int64_t>({{6, rc::gen::just<int64_t>(0)}, {1, rc::gen::element<int64_t>(1, 256, 4096, 65536)}});
    int nrg = *rc::gen::weightedOneOf<int>({{1, rc::gen::just(0)}, {4, rc::gen::just(1)}, {4, irange(2, 4)}});
    if (o.max_cols == 6 && *irange(0, 49) == 0) nrg = *irange(13, 17);   // around the Thrift short-form list limit of 15
    for (int g = 0; g < nrg; g++) {
      // rarely a row group large enough for level runs with three-byte run headers (>= 8192) and 16-bit page counters
      size_t rows = (size_t)*rc::gen::weightedOneOf<int>({{25, rc::gen::just(0)}, {150, irange(1, 40)}, {50, irange(41, 300)}, {25, irange(1100, 3000)}});
      if (g == 0 && nrg <= 4 && *irange(0, 17) == 0) rows = (size_t)*rc::gen::element(8192, 8200, 16384, 16390, 20000, 33000, 40000, 66000);
      if (rows >= 8192 && *irange(0, 1)) w.page_size = 1 << 20;
      // half of the large groups: fixed-width columns cycle over as many distinct values as fill a codec window (32/64/128 KiB
      // of page bytes between repetitions - "sensor id = i % 8192"), all in one page
      size_t period_bytes = 0;
      if (rows >= 8192 && *irange(0, 1)) { period_bytes = (size_t)*rc::gen::element(65536, 65536, 65536, 32768, 131072); w.page_size = 1 << 20; }
      w.fs.rg_rows.push_back((int64_t)rows);
      std::vector<pw::ChunkSpec> rg; std::vector<std::vector<int>> pc; std::vector<int> nl;
      for (auto &lf : lv) {
        pw::ChunkSpec cs;
        int nolevm = lf.max_def > 0 ? *rc::gen::weightedElement<int>({{6, 0}, {1, 1}, {2, 2}}) : 0;
        bool nolev = nolevm == 1;
        if (lf.max_def) { auto p = nolev ? std::vector<uint8_t>(rows, 1) : *gf::presentGen(rows); for (auto x : p) cs.def.push_back(x); }
        cs.n = rows;
        size_t nn = 0; for (size_t i = 0; i < rows; i++) if (!lf.max_def || cs.def[i]) nn++;
        size_t fw = (lf.type == pq::INT32 || lf.type == pq::FLOAT) ? 4 : (lf.type == pq::INT64 || lf.type == pq::DOUBLE) ? 8 : lf.type == pq::FIXED_LEN_BYTE_ARRAY ? (size_t)lf.type_length : 0;
        if (period_bytes && fw && period_bytes % fw == 0 && period_bytes / fw >= 2) {
          size_t period = period_bytes / fw; uint64_t sd = 0x9E3779B97F4A7C15ull ^ ((uint64_t)*irange(1, 1 << 30) << 1 | 1);
          std::vector<Bytes> base(std::min(period, nn), Bytes(fw));
          for (auto &v : base) for (auto &x : v) x = (uint8_t)(gf::dxs(sd) >> 24);
          for (size_t i = 0; i < nn; i++) cs.values.push_back(base[i % period]);
        }
        else if (rows > 400) { Bytes proto = *gf::valueGen(lf.type, lf.type_length); for (size_t i = 0; i < nn; i++) { Bytes v = proto; if (!v.empty()) v[0] = (uint8_t)(v[0] + i); if (lf.type == pq::BOOLEAN) v[0] &= 1; cs.values.push_back(v); } }
        else cs.values = *rc::gen::container<std::vector<Bytes>>(nn, gf::valueGen(lf.type, lf.type_length));
        if (rows) { pw::PageSpec pg; pg.end = rows; cs.pages.push_back(pg); }
        rg.push_back(cs); nl.push_back(nolevm);
        // partition of the rows into write_batch calls
        std::vector<int> part;
        int style = *irange(0, 4); size_t left = rows;
        while (left > 0) {
          size_t k = style == 0 ? left : style == 1 ? 1 : style == 2 ? (size_t)*irange(1, (int)std::min<size_t>(left, 9)) : style == 3 ? (part.size() < 6 ? 1 : left) : (size_t)*irange(1, (int)left);
          if (rows > 400 && style == 1) k = std::min<size_t>(left, 97);
          part.push_back((int)k); left -= k;
        }
        pc.push_back(part);
      }
      w.fs.row_groups.push_back(rg); w.parts.push_back(pc); w.nolevels.push_back(nl);
      w.extra_nrg.push_back(*rc::gen::element(0, 1, 1, 2));
    }
    return w;
  });
}

inline void applyOptions(const W &w, carquet_writer_options_t &o) {
  o.compression = (carquet_compression_t)w.codec; o.page_size = w.page_size; o.compression_level = w.level;
  if (w.opts & 1) o.write_statistics = false;
  if (w.opts & 2) o.write_page_index = true;
  if (w.opts & 4) o.write_bloom_filters = true;
  if (w.opts & 8) o.created_by = "verif writer history";
  if (w.rg_size > 0) o.row_group_size = w.rg_size;
}
// does this write_batch call pass def_levels == NULL?  mode 1: always; mode 2: for about half of the batches whose rows are all
// present (a caller that only materialises levels when a batch has a null)
inline bool nullLevels(int mode, size_t k, size_t nn, uint32_t order, size_t g, size_t c, size_t batch_index) {
  if (mode == 1) return true;
  if (mode != 2 || nn != k) return false;
  uint64_t h = (uint64_t)order * 0x9E3779B97F4A7C15ull + g * 1000003ull + c * 10007ull + batch_index * 101ull;
  h ^= h >> 29; h *= 0xBF58476D1CE4E5B9ull; h ^= h >> 32;
  return (h & 1) != 0;
}

struct Holder { std::vector<Bytes> keep; std::vector<std::vector<carquet_byte_array_t>> arrs; };
// runs the write history; returns the file bytes (empty + err on a refused write)
inline bool writeWith(const W &w, const std::vector<pw::Leaf> &lv, Bytes &bytes, std::string &err, bool &refused) {
  refused = false;
  carquet_error_t e = CARQUET_ERROR_INIT;
  carquet_schema_t *s = carquet_schema_create(&e);
  if (!s) { err = "schema_create failed"; return false; }
  struct FrS { carquet_schema_t *s; ~FrS() { carquet_schema_free(s); } } frs{s};
  for (auto &lf : lv) {
    carquet_status_t st = carquet_schema_add_column(s, lf.path.back().c_str(), (carquet_physical_type_t)lf.type, nullptr, lf.max_def ? CARQUET_REPETITION_OPTIONAL : CARQUET_REPETITION_REQUIRED, lf.type == pq::FIXED_LEN_BYTE_ARRAY ? lf.type_length : 0);
    if (st != CARQUET_OK) { err = "schema_add_column failed"; refused = true; return false; }
  }
  carquet_writer_options_t o; carquet_writer_options_init(&o);
  applyOptions(w, o);
  std::string path = rd::tmpPath("out");
  FILE *fp = nullptr;
  carquet_writer_t *wr;
  if (w.via_file) { fp = fopen(path.c_str(), "wb"); if (!fp) { err = "fopen"; return false; } wr = carquet_writer_create_file(fp, s, &o, &e); }
  else wr = carquet_writer_create(path.c_str(), s, &o, &e);
  if (!wr) { if (fp) fclose(fp); unlink(path.c_str()); err = std::string("writer_create failed: ") + e.message; refused = true; return false; }
  uint64_t seed = 0x9E3779B97F4A7C15ull ^ ((uint64_t)w.order << 1 | 1);
  bool ok = true;
  for (size_t g = 0; g < w.fs.row_groups.size() && ok; g++) {
    // interleave the columns' batches: repeatedly pick a column that still has batches; column 0 goes like the others
    std::vector<size_t> nextb(lv.size(), 0), rowpos(lv.size(), 0), valpos(lv.size(), 0);
    for (;;) {
      std::vector<size_t> open;
      for (size_t c = 0; c < lv.size(); c++) if (nextb[c] < w.parts[g][c].size()) open.push_back(c);
      if (open.empty()) break;
      size_t c = open[gf::dxs(seed) % open.size()];
      const pw::ChunkSpec &cs = w.fs.row_groups[g][c];
      size_t k = (size_t)w.parts[g][c][nextb[c]++];
      size_t nn = 0;
      std::vector<int16_t> dl;
      for (size_t i = 0; i < k; i++) { int d = lv[c].max_def ? cs.def[rowpos[c] + i] : 1; dl.push_back((int16_t)d); if (d) nn++; }
      Exact dlx((const uint8_t *)dl.data(), dl.size() * 2);
      const int16_t *dlp = (lv[c].max_def && !nullLevels(w.nolevels[g][c], k, nn, w.order, g, c, nextb[c])) ? dlx.as<int16_t>() : nullptr;
      carquet_status_t st;
      if (lv[c].type == pq::BYTE_ARRAY) {
        std::vector<Exact *> hold; std::vector<carquet_byte_array_t> arr(nn ? nn : 1);
        for (size_t i = 0; i < nn; i++) { hold.push_back(new Exact(cs.values[valpos[c] + i])); arr[i].data = hold.back()->p; arr[i].length = (int32_t)cs.values[valpos[c] + i].size(); }
        Exact ax((const uint8_t *)arr.data(), nn * sizeof(carquet_byte_array_t));
        st = carquet_writer_write_batch(wr, (int32_t)c, ax.p, (int64_t)k, dlp, nullptr);
        for (auto h : hold) delete h;
      } else {
        Bytes flat; for (size_t i = 0; i < nn; i++) flat.insert(flat.end(), cs.values[valpos[c] + i].begin(), cs.values[valpos[c] + i].end());
        Exact vx(flat);
        st = carquet_writer_write_batch(wr, (int32_t)c, vx.p, (int64_t)k, dlp, nullptr);
      }
      if (st != CARQUET_OK) { err = "write_batch returned " + std::to_string((int)st); ok = false; break; }
      rowpos[c] += k; valpos[c] += nn;
    }
    if (!ok) break;
    int extra = w.extra_nrg[g];
    bool last = g + 1 == w.fs.row_groups.size();
    if (extra >= 1 || !last) { carquet_status_t st = carquet_writer_new_row_group(wr); if (st != CARQUET_OK) { err = "new_row_group returned " + std::to_string((int)st); ok = false; break; } }
    if (extra == 2) { carquet_status_t st = carquet_writer_new_row_group(wr); if (st != CARQUET_OK) { err = "new_row_group (on an empty group) returned " + std::to_string((int)st); ok = false; break; } }
  }
  if (!ok) { carquet_writer_abort(wr); if (fp) fclose(fp); unlink(path.c_str()); refused = true; return false; }
  carquet_status_t st = carquet_writer_close(wr);
  if (fp) fclose(fp);
  if (st != CARQUET_OK) { unlink(path.c_str()); err = "close returned " + std::to_string((int)st); refused = true; return false; }
  bool rok = rd::readFile(path, bytes);
  unlink(path.c_str());
  if (!rok) { err = "cannot read back the written file"; return false; }
  return true;
}


// ---------------------------------------------------------------------------------------------
// Controllable run of a write history (C18 / C19): custom sink, abort after k API calls, status log.
struct WriteCtl {
  FILE *sink = nullptr;        // non-NULL: carquet_writer_create_file on this stream; else path-based
  std::string path;            // path used by the path-based writer (filled in)
  long abort_after = -1;       // >= 0: call carquet_writer_abort after that many write_batch/new_row_group calls
  std::function<void()> before_abort;   // invoked right before carquet_writer_abort (fault injection into the abort itself)
  bool created = false, aborted = false, closed = false;
  long calls = 0;              // write_batch + new_row_group calls made
  bool any_nonok = false;      // some writer call (create/write_batch/new_row_group/close) reported failure
  carquet_status_t close_status = CARQUET_OK;
  std::string first_failure;
};
inline void runHistory(const W &w, const std::vector<pw::Leaf> &lv, WriteCtl &ctl) {
  carquet_error_t e = CARQUET_ERROR_INIT;
  carquet_schema_t *s = carquet_schema_create(&e);
  if (!s) { ctl.any_nonok = true; ctl.first_failure = "schema_create"; return; }
  struct FrS { carquet_schema_t *s; ~FrS() { carquet_schema_free(s); } } frs{s};
  for (auto &lf : lv)
    if (carquet_schema_add_column(s, lf.path.back().c_str(), (carquet_physical_type_t)lf.type, nullptr, lf.max_def ? CARQUET_REPETITION_OPTIONAL : CARQUET_REPETITION_REQUIRED, lf.type == pq::FIXED_LEN_BYTE_ARRAY ? lf.type_length : 0) != CARQUET_OK) { ctl.any_nonok = true; ctl.first_failure = "schema_add_column"; return; }
  carquet_writer_options_t o; carquet_writer_options_init(&o);
  applyOptions(w, o);
  carquet_writer_t *wr;
  if (ctl.sink) wr = carquet_writer_create_file(ctl.sink, s, &o, &e);
  else { if (ctl.path.empty()) ctl.path = rd::tmpPath("out"); wr = carquet_writer_create(ctl.path.c_str(), s, &o, &e); }
  if (!wr) { ctl.any_nonok = true; ctl.first_failure = "writer_create"; return; }
  ctl.created = true;
  uint64_t seed = 0x9E3779B97F4A7C15ull ^ ((uint64_t)w.order << 1 | 1);
  auto stop_here = [&]() { return ctl.abort_after >= 0 && ctl.calls >= ctl.abort_after; };
  bool failed = false;
  for (size_t g = 0; g < w.fs.row_groups.size() && !failed && !stop_here(); g++) {
    std::vector<size_t> nextb(lv.size(), 0), rowpos(lv.size(), 0), valpos(lv.size(), 0);
    for (;;) {
      if (stop_here()) break;
      std::vector<size_t> open;
      for (size_t c = 0; c < lv.size(); c++) if (nextb[c] < w.parts[g][c].size()) open.push_back(c);
      if (open.empty()) break;
      size_t c = open[gf::dxs(seed) % open.size()];
      const pw::ChunkSpec &cs = w.fs.row_groups[g][c];
      size_t k = (size_t)w.parts[g][c][nextb[c]++];
      size_t nn = 0;
      std::vector<int16_t> dl;
      for (size_t i = 0; i < k; i++) { int d = lv[c].max_def ? cs.def[rowpos[c] + i] : 1; dl.push_back((int16_t)d); if (d) nn++; }
      const int16_t *dlp = (lv[c].max_def && !nullLevels(w.nolevels[g][c], k, nn, w.order, g, c, nextb[c])) ? dl.data() : nullptr;
      carquet_status_t st;
      if (lv[c].type == pq::BYTE_ARRAY) {
        std::vector<Bytes> copy(cs.values.begin() + valpos[c], cs.values.begin() + valpos[c] + nn);
        std::vector<carquet_byte_array_t> arr(nn ? nn : 1);
        for (size_t i = 0; i < nn; i++) { arr[i].data = copy[i].data(); arr[i].length = (int32_t)copy[i].size(); }
        st = carquet_writer_write_batch(wr, (int32_t)c, arr.data(), (int64_t)k, dlp, nullptr);
      } else {
        Bytes flat; for (size_t i = 0; i < nn; i++) flat.insert(flat.end(), cs.values[valpos[c] + i].begin(), cs.values[valpos[c] + i].end());
        if (flat.empty()) flat.push_back(0);
        st = carquet_writer_write_batch(wr, (int32_t)c, flat.data(), (int64_t)k, dlp, nullptr);
      }
      ctl.calls++;
      if (st != CARQUET_OK) { ctl.any_nonok = true; ctl.first_failure = "write_batch -> " + std::to_string((int)st); failed = true; break; }
      rowpos[c] += k; valpos[c] += nn;
    }
    if (failed || stop_here()) break;
    bool last = g + 1 == w.fs.row_groups.size();
    if (w.extra_nrg[g] >= 1 || !last) { carquet_status_t st = carquet_writer_new_row_group(wr); ctl.calls++; if (st != CARQUET_OK) { ctl.any_nonok = true; ctl.first_failure = "new_row_group -> " + std::to_string((int)st); failed = true; } }
  }
  if (failed || stop_here()) { if (ctl.before_abort) ctl.before_abort(); carquet_writer_abort(wr); ctl.aborted = true; return; }
  ctl.close_status = carquet_writer_close(wr);
  ctl.closed = true;
  if (ctl.close_status != CARQUET_OK) { ctl.any_nonok = true; ctl.first_failure = "close -> " + std::to_string((int)ctl.close_status); }
}

}  // namespace cw
