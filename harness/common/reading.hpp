// Helpers to read files through carquet's public API the way a caller following carquet.h would:
// buffers sized from the schema node's physical type / type length, exact-size heap blocks (ASan),
// byte-array results copied out before the next call on the same column reader.
#pragma once
#include <sys/syscall.h>
#include <fcntl.h>
#include <sys/stat.h>
#include <unistd.h>
#include "harness/common/carquet_internal.hpp"
#include "harness/common/pbt.hpp"

namespace rd {
using pbt::Bytes;

enum Mode { FREAD = 0, MMAP = 1, BUFFER = 2 };
inline const char *modeName(int m) { return m == 0 ? "fread" : m == 1 ? "mmap" : "buffer"; }

inline std::string tmpPath(const char *tag) {
  static thread_local int counter = 0;   // per thread, and the thread id is part of the name: concurrent readers never share a path
  char b[256];
  snprintf(b, sizeof b, "./%s_%d_%d_%d.parquet", tag, (int)getpid(), (int)syscall(SYS_gettid), counter++ % 8);
  return b;
}
inline bool writeFile(const std::string &p, const uint8_t *d, size_t n) {
  int fd = open(p.c_str(), O_WRONLY | O_CREAT | O_TRUNC, 0644);
  if (fd < 0) return false;
  size_t o = 0;
  while (o < n) { ssize_t w = write(fd, d + o, n - o); if (w <= 0) { close(fd); return false; } o += (size_t)w; }
  close(fd);
  return true;
}
inline bool readFile(const std::string &p, Bytes &out) {
  FILE *f = fopen(p.c_str(), "rb");
  if (!f) return false;
  out.clear();
  uint8_t buf[65536];
  size_t r;
  while ((r = fread(buf, 1, sizeof buf, f)) > 0) out.insert(out.end(), buf, buf + r);
  fclose(f);
  return true;
}

// An opened file in one of the three I/O modes; keeps the backing store alive.
struct Opened {
  carquet_reader_t *r = nullptr;
  Exact *buf = nullptr;
  std::string path;
  carquet_error_t err = CARQUET_ERROR_INIT;
  int mode = 0;
  Opened(const Bytes &bytes, int mode_, bool verify_crc = true, int threads = 1) : mode(mode_) {
    carquet_reader_options_t o;
    carquet_reader_options_init(&o);
    o.verify_checksums = verify_crc;
    o.num_threads = threads;
    if (mode == BUFFER) {
      buf = new Exact(bytes);
      r = carquet_reader_open_buffer(buf->p, buf->n, &o, &err);
    } else {
      path = tmpPath("in");
      if (!writeFile(path, bytes.data(), bytes.size())) { err.code = CARQUET_ERROR_FILE_OPEN; return; }
      o.use_mmap = mode == MMAP;
      r = carquet_reader_open(path.c_str(), &o, &err);
    }
  }
  ~Opened() { if (r) carquet_reader_close(r); delete buf; if (!path.empty()) unlink(path.c_str()); }
  Opened(const Opened &) = delete;
};

inline size_t slotSize(carquet_physical_type_t t, int32_t tl) {
  switch (t) {
    case CARQUET_PHYSICAL_BOOLEAN: return 1;
    case CARQUET_PHYSICAL_INT32: case CARQUET_PHYSICAL_FLOAT: return 4;
    case CARQUET_PHYSICAL_INT64: case CARQUET_PHYSICAL_DOUBLE: return 8;
    case CARQUET_PHYSICAL_INT96: return 12;
    case CARQUET_PHYSICAL_FIXED_LEN_BYTE_ARRAY: return tl > 0 ? (size_t)tl : 0;
    case CARQUET_PHYSICAL_BYTE_ARRAY: return sizeof(carquet_byte_array_t);
    default: return 0;
  }
}
struct ColInfo { carquet_physical_type_t type; int32_t tl; int16_t max_def, max_rep; size_t slot; std::string name; };
inline bool colInfo(carquet_reader_t *r, int col, ColInfo &ci) {
  const carquet_schema_t *s = carquet_reader_schema(r);
  if (!s) return false;
  // leaf index -> element: walk elements, count leaves
  int32_t ne = carquet_schema_num_elements(s), leaf = -1;
  for (int32_t i = 0; i < ne; i++) {
    const carquet_schema_node_t *n = carquet_schema_get_element(s, i);
    if (!n || !carquet_schema_node_is_leaf(n) || i == 0) continue;
    if (++leaf == col) {
      ci.type = carquet_schema_node_physical_type(n); ci.tl = carquet_schema_node_type_length(n);
      ci.max_def = carquet_schema_node_max_def_level(n); ci.max_rep = carquet_schema_node_max_rep_level(n);
      ci.slot = slotSize(ci.type, ci.tl); ci.name = carquet_schema_node_name(n);
      return true;
    }
  }
  return false;
}

// the logical content of (part of) a column chunk, as delivered by read_batch calls
struct Content {
  std::vector<int16_t> def, rep;
  std::vector<Bytes> values;   // dense non-null values
  int64_t rows = 0;            // level entries delivered
};
// one read_batch call of up to k entries; appends to `out`.  max_def/max_rep are the *true* maxima of the
// column (from the file's writer), used to tell which delivered entries carry a value.
// returns the call's return value
inline int64_t readCall(carquet_column_reader_t *cr, const ColInfo &ci, int64_t k, bool with_levels, int true_max_def, Content &out, std::string &err) {
  Exact vals((size_t)k * ci.slot);
  Exact dl((size_t)k * 2), rl((size_t)k * 2);
  int64_t n = carquet_column_read_batch(cr, vals.p, k, with_levels ? dl.as<int16_t>() : nullptr, with_levels ? rl.as<int16_t>() : nullptr);
  if (n < 0) { err = "read_batch returned " + std::to_string(n); return n; }
  if (n > k) { err = "read_batch returned " + std::to_string(n) + " > requested " + std::to_string(k); return -1000; }
  size_t nn = (size_t)n;
  if (with_levels) {
    nn = 0;
    for (int64_t i = 0; i < n; i++) { int16_t d = dl.as<int16_t>()[i]; out.def.push_back(d); out.rep.push_back(rl.as<int16_t>()[i]); if (d == true_max_def) nn++; }
  } else { for (int64_t i = 0; i < n; i++) { out.def.push_back((int16_t)true_max_def); out.rep.push_back(0); } }
  for (size_t i = 0; i < nn; i++) {
    if (ci.type == CARQUET_PHYSICAL_BYTE_ARRAY) {
      carquet_byte_array_t ba = vals.as<carquet_byte_array_t>()[i];
      if (ba.length < 0 || (ba.length > 0 && !ba.data)) { err = "byte array " + std::to_string(i) + " has length " + std::to_string(ba.length) + " / null data"; return -1001; }
      out.values.emplace_back(ba.data, ba.data + ba.length);   // dereferenced now: must be readable until the next call on this reader
    } else out.values.emplace_back(vals.p + i * ci.slot, vals.p + (i + 1) * ci.slot);
  }
  out.rows += n;
  return n;
}
// read a whole chunk with calls of size k (k <= 0: one call covering everything incl. slack)
inline bool readChunk(carquet_reader_t *r, int rg, int col, int64_t k, int true_max_def, Content &out, std::string &err, bool with_levels = true) {
  ColInfo ci;
  if (!colInfo(r, col, ci)) { err = "no schema info for column " + std::to_string(col); return false; }
  if (ci.slot == 0) { err = "column has no usable value size (type " + std::to_string((int)ci.type) + ", length " + std::to_string(ci.tl) + ")"; return false; }
  carquet_error_t e = CARQUET_ERROR_INIT;
  carquet_column_reader_t *cr = carquet_reader_get_column(r, rg, col, &e);
  if (!cr) { err = std::string("get_column failed: ") + e.message; return false; }
  int64_t rem = carquet_column_remaining(cr);
  if (rem < 0 || rem > (1 << 26)) { carquet_column_reader_free(cr); err = "remaining() = " + std::to_string(rem); return false; }
  bool ok = true;
  int64_t call = k > 0 ? k : rem + 3;
  for (int guard = 0; guard < 200000; guard++) {
    int64_t n = readCall(cr, ci, call, with_levels, true_max_def, out, err);
    if (n < 0) { ok = false; break; }
    if (n == 0) break;
  }
  carquet_column_reader_free(cr);
  return ok;
}

}  // namespace rd
