// extern "C" view of carquet: public headers, internal headers that exist, and
// declarations (copied from the definitions) for internal entry points that
// have no header in the repository (tests declare them the same way).
#pragma once
extern "C" {
#include <carquet/carquet.h>
#include <carquet/error.h>
#include <carquet/types.h>
#include "core/buffer.h"
#include "core/bitpack.h"
#include "core/arena.h"
#include "encoding/rle.h"
#include "encoding/plain.h"
#include "thrift/thrift_decode.h"
#include "thrift/thrift_encode.h"
#include "thrift/parquet_types.h"

// encoding/delta.c
carquet_status_t carquet_delta_decode_int32(const uint8_t *data, size_t data_size, int32_t *values, int32_t num_values, size_t *bytes_consumed);
carquet_status_t carquet_delta_decode_int64(const uint8_t *data, size_t data_size, int64_t *values, int32_t num_values, size_t *bytes_consumed);
carquet_status_t carquet_delta_encode_int32(const int32_t *values, int32_t num_values, uint8_t *data, size_t data_capacity, size_t *bytes_written);
carquet_status_t carquet_delta_encode_int64(const int64_t *values, int32_t num_values, uint8_t *data, size_t data_capacity, size_t *bytes_written);
// encoding/delta_length.c
carquet_status_t carquet_delta_length_decode(const uint8_t *data, size_t data_size, carquet_byte_array_t *values, int32_t num_values, size_t *bytes_consumed);
carquet_status_t carquet_delta_length_encode(const carquet_byte_array_t *values, int32_t num_values, carquet_buffer_t *output);
// encoding/delta_strings.c
carquet_status_t carquet_delta_strings_decode(const uint8_t *data, size_t data_size, carquet_byte_array_t *values, int32_t num_values, uint8_t *work_buffer, size_t work_buffer_size, size_t *bytes_consumed);
carquet_status_t carquet_delta_strings_encode(const carquet_byte_array_t *values, int32_t num_values, carquet_buffer_t *output);
// encoding/byte_stream_split.c
carquet_status_t carquet_byte_stream_split_encode_float(const float *values, int64_t count, uint8_t *output, size_t output_capacity, size_t *bytes_written);
carquet_status_t carquet_byte_stream_split_decode_float(const uint8_t *data, size_t data_size, float *values, int64_t count);
carquet_status_t carquet_byte_stream_split_encode_double(const double *values, int64_t count, uint8_t *output, size_t output_capacity, size_t *bytes_written);
carquet_status_t carquet_byte_stream_split_decode_double(const uint8_t *data, size_t data_size, double *values, int64_t count);
carquet_status_t carquet_byte_stream_split_encode(const uint8_t *values, int64_t count, int32_t type_length, uint8_t *output, size_t output_capacity, size_t *bytes_written);
carquet_status_t carquet_byte_stream_split_decode(const uint8_t *data, size_t data_size, int32_t type_length, uint8_t *values, int64_t count);
// encoding/dictionary.c
carquet_status_t carquet_dictionary_encode_int32(const int32_t *values, int64_t count, carquet_buffer_t *dict_output, carquet_buffer_t *indices_output);
carquet_status_t carquet_dictionary_encode_int64(const int64_t *values, int64_t count, carquet_buffer_t *dict_output, carquet_buffer_t *indices_output);
carquet_status_t carquet_dictionary_encode_float(const float *values, int64_t count, carquet_buffer_t *dict_output, carquet_buffer_t *indices_output);
carquet_status_t carquet_dictionary_encode_double(const double *values, int64_t count, carquet_buffer_t *dict_output, carquet_buffer_t *indices_output);
carquet_status_t carquet_dictionary_encode_byte_array(const carquet_byte_array_t *values, int64_t count, carquet_buffer_t *dict_output, carquet_buffer_t *indices_output);
carquet_status_t carquet_dictionary_decode_int32(const uint8_t *dict_data, size_t dict_size, int32_t dict_count, const uint8_t *indices_data, size_t indices_size, int32_t *output, int64_t output_count);
carquet_status_t carquet_dictionary_decode_int64(const uint8_t *dict_data, size_t dict_size, int32_t dict_count, const uint8_t *indices_data, size_t indices_size, int64_t *output, int64_t output_count);
carquet_status_t carquet_dictionary_decode_float(const uint8_t *dict_data, size_t dict_size, int32_t dict_count, const uint8_t *indices_data, size_t indices_size, float *output, int64_t output_count);
carquet_status_t carquet_dictionary_decode_double(const uint8_t *dict_data, size_t dict_size, int32_t dict_count, const uint8_t *indices_data, size_t indices_size, double *output, int64_t output_count);
// compression
carquet_status_t carquet_snappy_compress(const uint8_t *src, size_t src_size, uint8_t *dst, size_t dst_capacity, size_t *dst_size);
carquet_status_t carquet_snappy_decompress(const uint8_t *src, size_t src_size, uint8_t *dst, size_t dst_capacity, size_t *dst_size);
size_t carquet_snappy_compress_bound(size_t src_size);
carquet_status_t carquet_snappy_get_uncompressed_length(const uint8_t *src, size_t src_size, size_t *length);
carquet_status_t carquet_lz4_compress(const uint8_t *src, size_t src_size, uint8_t *dst, size_t dst_capacity, size_t *dst_size);
carquet_status_t carquet_lz4_decompress(const uint8_t *src, size_t src_size, uint8_t *dst, size_t dst_capacity, size_t *dst_size);
size_t carquet_lz4_compress_bound(size_t src_size);
int carquet_gzip_compress(const uint8_t *src, size_t src_size, uint8_t *dst, size_t dst_capacity, size_t *dst_size, int level);
int carquet_gzip_decompress(const uint8_t *src, size_t src_size, uint8_t *dst, size_t dst_capacity, size_t *dst_size);
size_t carquet_gzip_compress_bound(size_t src_size);
int carquet_zstd_compress(const uint8_t *src, size_t src_size, uint8_t *dst, size_t dst_capacity, size_t *dst_size, int level);
int carquet_zstd_decompress(const uint8_t *src, size_t src_size, uint8_t *dst, size_t dst_capacity, size_t *dst_size);
size_t carquet_zstd_compress_bound(size_t src_size);
// util
uint32_t carquet_crc32(const uint8_t *data, size_t length);
uint32_t carquet_crc32_update(uint32_t crc, const uint8_t *data, size_t length);
uint64_t carquet_xxhash64(const void *data, size_t length, uint64_t seed);
}

#include <cstdlib>
#include <cstring>
#include <vector>

// Exact-size heap block (so ASan sees a one-byte overrun); size 0 gives a valid
// one-byte allocation whose first byte is already out of bounds for ASan
// purposes when the declared size is 0.
struct Exact {
  uint8_t *base;
  uint8_t *p;
  size_t n;
  void alloc(size_t n_) {
    n = n_;
    // size 0: a valid pointer one past an 8-byte block, so that touching even one byte trips ASan
#ifdef VERIF_HARNESS_USES_NEW   // C19: malloc is wrapped for fault injection, the harness must not go through it
    base = new uint8_t[n_ ? n_ : 8];
#else
    base = (uint8_t *)malloc(n_ ? n_ : 8);
#endif
    p = n_ ? base : base + 8;
  }
  explicit Exact(size_t n_) { alloc(n_); if (n_) memset(p, 0xA5, n_); }
  Exact(const uint8_t *src, size_t n_) { alloc(n_); if (n_) memcpy(p, src, n_); }
  explicit Exact(const std::vector<uint8_t> &v) : Exact(v.data(), v.size()) {}
#ifdef VERIF_HARNESS_USES_NEW
  ~Exact() { delete[] base; }
#else
  ~Exact() { free(base); }
#endif
  Exact(const Exact &) = delete;
  Exact &operator=(const Exact &) = delete;
  template <class T> T *as() { return (T *)p; }
};

struct CBuf {   // RAII carquet_buffer_t
  carquet_buffer_t b;
  CBuf() { carquet_buffer_init(&b); }
  ~CBuf() { carquet_buffer_destroy(&b); }
  std::vector<uint8_t> bytes() const { return std::vector<uint8_t>(b.data, b.data + b.size); }
};

// The buffer-based encoders write into a carquet_buffer_t the caller may already have filled (page after page into one
// buffer).  The same call into a buffer holding `pre` bytes must end with  prefix || E  (appending) or  E  (a buffer the
// encoder cleared), E being what it writes into an empty buffer - and must stay inside its allocation (ASan).  The prefix
// length is a pure function of E: none for a third of the cases, else just below / at a power-of-two capacity step.
template <class F> inline std::string appendCheck(const std::vector<uint8_t> &alone, F encode) {
  uint64_t h = 1469598103934665603ull; for (uint8_t x : alone) { h ^= x; h *= 1099511628211ull; } h ^= alone.size() * 0x9E3779B97F4A7C15ull; h ^= h >> 29;
  if (h % 3 == 0) return "";
  size_t pre = (h >> 4) % 5 == 0 ? 1 + (h >> 8) % 200 : ((size_t)1 << (6 + (h >> 8) % 9)) - (h >> 16) % 41;
  std::vector<uint8_t> p(pre); uint64_t s = h | 1; for (auto &x : p) { s ^= s << 13; s ^= s >> 7; s ^= s << 17; x = (uint8_t)(s >> 24); }
  CBuf b;
  if (carquet_buffer_append(&b.b, p.data(), pre) != CARQUET_OK) return "";
  if (encode(&b.b) != CARQUET_OK) return "";
  std::vector<uint8_t> got = b.bytes();
  if (got == alone) return "";
  char m[200];
  if (got.size() != pre + alone.size()) { snprintf(m, sizeof m, "into a buffer that already holds %zu bytes the encoder leaves %zu bytes; alone it writes %zu", pre, got.size(), alone.size()); return m; }
  if (memcmp(got.data(), p.data(), pre) != 0) { snprintf(m, sizeof m, "the %zu bytes the buffer held before the call were modified", pre); return m; }
  if (memcmp(got.data() + pre, alone.data(), alone.size()) != 0) { snprintf(m, sizeof m, "behind %zu earlier bytes the encoder appends different bytes than it writes into an empty buffer (%zu bytes)", pre, alone.size()); return m; }
  return "";
}
