// Small property-harness framework on top of rapidcheck (see DESIGN.md 3.1).
//
// A harness registers sub-properties.  Each sub-property has a rapidcheck
// generator that yields a *serialised* case (CaseText: ordered key=value
// lines) and a run function that takes the serialised case.  The campaign
// therefore always executes exactly what a replay file would execute.
//
//   harness --run --out DIR --seed N --cases M --size S [--only p] [--enum L] [--budget SEC]
//   harness --replay FILE          exit 0 = case passes, 1 = case fails
//   harness --list
//
// DIR receives stats.json, nontrivial.u64 (hashes of distinct non-trivial
// cases), and on failure fail.case / fail.msg (shrunk) or crash.case (written
// from the sanitizer death callback / signal handler).
#pragma once
#include <rapidcheck.h>
#include <algorithm>
#include <chrono>
#include <csignal>
#include <sys/time.h>
#include <sys/wait.h>
#include <cstdint>
#include <cstdio>
#include <cstdlib>
#include <cstring>
#include <fcntl.h>
#include <fstream>
#include <functional>
#include <map>
#include <set>
#include <sstream>
#include <string>
#include <unistd.h>
#include <unordered_set>
#include <vector>

extern "C" void __sanitizer_set_death_callback(void (*)(void)) __attribute__((weak));

namespace pbt {

typedef std::vector<uint8_t> Bytes;

inline std::string hex(const uint8_t *p, size_t n) {
  static const char *d = "0123456789abcdef";
  std::string s;
  s.reserve(n * 2);
  for (size_t i = 0; i < n; i++) {
    s.push_back(d[p[i] >> 4]);
    s.push_back(d[p[i] & 15]);
  }
  return s;
}
inline std::string hex(const Bytes &b) { return hex(b.data(), b.size()); }
inline Bytes unhex(const std::string &s) {
  Bytes b;
  auto v = [](char c) -> int { return c <= '9' ? c - '0' : (c | 32) - 'a' + 10; };
  for (size_t i = 0; i + 1 < s.size(); i += 2) b.push_back((uint8_t)(v(s[i]) * 16 + v(s[i + 1])));
  return b;
}

struct CaseText {
  std::vector<std::pair<std::string, std::string>> kv;
  void put(const std::string &k, const std::string &v) { kv.emplace_back(k, v); }
  void put_i(const std::string &k, long long v) { put(k, std::to_string(v)); }
  void put_u(const std::string &k, unsigned long long v) { put(k, std::to_string(v)); }
  void put_bytes(const std::string &k, const Bytes &b) { put(k, hex(b)); }
  template <class T> void put_ints(const std::string &k, const std::vector<T> &v) {
    std::string s;
    for (size_t i = 0; i < v.size(); i++) {
      if (i) s.push_back(',');
      if (std::is_signed<T>::value) s += std::to_string((long long)v[i]);
      else s += std::to_string((unsigned long long)v[i]);
    }
    put(k, s);
  }
  bool has(const std::string &k) const {
    for (auto &p : kv) if (p.first == k) return true;
    return false;
  }
  const std::string &get(const std::string &k) const {
    for (auto &p : kv) if (p.first == k) return p.second;
    throw std::runtime_error("case key missing: " + k);
  }
  std::string get_or(const std::string &k, const std::string &d) const { return has(k) ? get(k) : d; }
  long long get_i(const std::string &k) const { return std::stoll(get(k)); }
  long long get_i(const std::string &k, long long d) const { return has(k) ? get_i(k) : d; }
  unsigned long long get_u(const std::string &k) const { return std::stoull(get(k)); }
  Bytes get_bytes(const std::string &k) const { return unhex(get(k)); }
  template <class T> std::vector<T> get_ints(const std::string &k) const {
    std::vector<T> v;
    const std::string &s = get(k);
    size_t i = 0;
    while (i < s.size()) {
      size_t j = s.find(',', i);
      if (j == std::string::npos) j = s.size();
      std::string t = s.substr(i, j - i);
      if (std::is_signed<T>::value) v.push_back((T)std::stoll(t));
      else v.push_back((T)std::stoull(t));
      i = j + 1;
    }
    return v;
  }
  std::string dump() const {
    std::string s;
    for (auto &p : kv) { s += p.first; s.push_back('='); s += p.second; s.push_back('\n'); }
    return s;
  }
  static CaseText parse(const std::string &s) {
    CaseText t;
    size_t i = 0;
    while (i < s.size()) {
      size_t j = s.find('\n', i);
      if (j == std::string::npos) j = s.size();
      std::string line = s.substr(i, j - i);
      size_t e = line.find('=');
      if (e != std::string::npos && line[0] != '#') t.put(line.substr(0, e), line.substr(e + 1));
      i = j + 1;
    }
    return t;
  }
};
inline std::ostream &operator<<(std::ostream &os, const CaseText &t) { return os << "\n" << t.dump(); }

struct Verdict {
  bool ok = true;
  std::string msg;
  bool nontrivial = false;
  long evals = 1;                    // executions this case stands for (e.g. damaged reads enumerated inside one case)
  bool vacuous = false;              // e.g. encoder refused: the oracle said nothing
  std::string excluded;              // id of the open known finding this case was steered away from
  std::vector<std::string> labels;   // class labels for the evidence histogram
  static Verdict fail(const std::string &m) { Verdict v; v.ok = false; v.msg = m; return v; }
  Verdict &label(const std::string &l) { labels.push_back(l); return *this; }
};

#define PBT_CHECK(v, cond, ...)                                                         \
  do { if (!(cond)) { (v).ok = false; char _b[512]; snprintf(_b, sizeof _b, __VA_ARGS__); \
       (v).msg = std::string(#cond) + ": " + _b; return (v); } } while (0)

struct Prop {
  std::string name;
  double weight = 1.0;
  std::function<rc::Gen<CaseText>()> gen;                 // may be empty (enumeration only)
  std::function<Verdict(const CaseText &)> run;
  // optional bounded-exhaustive enumerator: level 1 = quick scope, 2 = thorough scope
  std::function<void(int level, const std::function<bool(const CaseText &)> &sink)> enumerate;
};

inline std::vector<Prop> &registry() { static std::vector<Prop> r; return r; }

template <class Case>
void add(const std::string &name, double weight, std::function<rc::Gen<Case>()> gen,
         std::function<CaseText(const Case &)> ser, std::function<Case(const CaseText &)> de,
         std::function<Verdict(const Case &)> run) {
  Prop p;
  p.name = name;
  p.weight = weight;
  p.gen = [gen, ser, name]() {
    return rc::gen::map(gen(), [ser, name](const Case &c) { CaseText t; t.put("prop", name);
      CaseText b = ser(c); t.kv.insert(t.kv.end(), b.kv.begin(), b.kv.end()); return t; });
  };
  p.run = [de, run](const CaseText &t) { return run(de(t)); };
  registry().push_back(p);
}

inline bool excluded(const std::string &kf) {
  const char *e = getenv("VERIF_EXCLUDE");
  if (!e) return false;
  std::string s = std::string(",") + e + ",";
  return s.find("," + kf + ",") != std::string::npos;
}

inline uint64_t fnv1a(const std::string &s) {
  uint64_t h = 1469598103934665603ULL;
  for (unsigned char c : s) { h ^= c; h *= 1099511628211ULL; }
  return h;
}

// ---------------------------------------------------------------- run state
struct State {
  std::string outdir;
  std::string cur;            // serialised case being executed (for crash.case)
  bool failed = false;
  long evaluations = 0, vacuous = 0, excluded = 0, nontrivial_total = 0;
  std::map<std::string, long> classes, per_prop, excluded_by;
  std::unordered_set<uint64_t> nt;
  std::vector<std::string> samples;
  std::map<std::string, int> sample_per_label;
  bool budget_exhausted = false;
  bool exhaustive_done = false;
  std::vector<std::string> enum_scopes;
};
inline State &st() { static State s; return s; }

inline void write_file(const std::string &p, const std::string &s) {
  int fd = open(p.c_str(), O_WRONLY | O_CREAT | O_TRUNC, 0644);
  if (fd < 0) return;
  size_t o = 0;
  while (o < s.size()) { ssize_t w = write(fd, s.data() + o, s.size() - o); if (w <= 0) break; o += (size_t)w; }
  close(fd);
}

inline void write_stats();
inline void death_cb() {
  State &s = st();
  static bool once = false;
  if (once) return;
  once = true;
  if (!s.outdir.empty() && !s.cur.empty()) {
    write_file(s.outdir + "/crash.case", s.cur);
    if (!s.failed) { s.failed = true; write_stats(); }   // counters survive the abort
  }
}
inline void sig_cb(int sig) {
  death_cb();
  const char m[] = "pbt: fatal signal\n";
  (void)!write(2, m, sizeof m - 1);
  _exit(98);
}
inline void install_death() {
  if (__sanitizer_set_death_callback) __sanitizer_set_death_callback(death_cb);
  else { signal(SIGSEGV, sig_cb); signal(SIGBUS, sig_cb); signal(SIGABRT, sig_cb); signal(SIGILL, sig_cb); signal(SIGFPE, sig_cb); }
}

inline std::string jesc(const std::string &s) {
  std::string o;
  for (unsigned char c : s) {
    if (c == '"' || c == '\\') { o.push_back('\\'); o.push_back((char)c); }
    else if (c == '\n') o += "\\n";
    else if (c < 32 || c > 126) { char b[8]; snprintf(b, sizeof b, "\\u%04x", c); o += b; }
    else o.push_back((char)c);
  }
  return o;
}

inline void record(const Prop &p, const std::string &txt, const Verdict &v) {
  State &s = st();
  s.evaluations += v.evals;
  s.per_prop[p.name] += v.evals;
  if (v.vacuous) { s.vacuous++; s.classes["vacuous"]++; }
  if (!v.excluded.empty()) { s.excluded++; s.excluded_by[v.excluded]++; }
  for (auto &l : v.labels) s.classes[l]++;
  if (v.nontrivial && !v.vacuous && v.excluded.empty()) {
    s.nontrivial_total++;
    bool fresh = s.nt.insert(fnv1a(txt)).second;
    if (fresh) {
      bool want = false;
      std::string key = p.name;
      if (s.sample_per_label[key] < 2) { want = true; s.sample_per_label[key]++; }
      for (auto &l : v.labels) {
        std::string k2 = p.name + "/" + l;
        if (s.sample_per_label[k2] < 1) { want = true; s.sample_per_label[k2]++; }
      }
      if (want && s.samples.size() < 40) {
        std::string t = txt;
        if (t.size() > 1500) t = t.substr(0, 1500) + "...[truncated]";
        s.samples.push_back(t);
      }
    }
  }
}

inline void write_stats() {
  State &s = st();
  if (s.outdir.empty()) return;
  std::ostringstream o;
  o << "{\"evaluations\":" << s.evaluations << ",\"vacuous\":" << s.vacuous
    << ",\"excluded\":" << s.excluded << ",\"nontrivial_total\":" << s.nontrivial_total
    << ",\"distinct_nontrivial\":" << s.nt.size() << ",\"failed\":" << (s.failed ? "true" : "false")
    << ",\"budget_exhausted\":" << (s.budget_exhausted ? "true" : "false");
  auto dumpmap = [&](const char *n, const std::map<std::string, long> &m) {
    o << ",\"" << n << "\":{";
    bool f = true;
    for (auto &p : m) { if (!f) o << ","; f = false; o << "\"" << jesc(p.first) << "\":" << p.second; }
    o << "}";
  };
  dumpmap("classes", s.classes);
  dumpmap("per_prop", s.per_prop);
  dumpmap("excluded_by", s.excluded_by);
  o << ",\"enum_scopes\":[";
  for (size_t i = 0; i < s.enum_scopes.size(); i++) o << (i ? "," : "") << "\"" << jesc(s.enum_scopes[i]) << "\"";
  o << "],\"samples\":[";
  for (size_t i = 0; i < s.samples.size(); i++) o << (i ? "," : "") << "\"" << jesc(s.samples[i]) << "\"";
  o << "]}\n";
  write_file(s.outdir + "/stats.json", o.str());
  std::string hb((const char *)nullptr, 0);
  std::vector<uint64_t> hs(s.nt.begin(), s.nt.end());
  write_file(s.outdir + "/nontrivial.u64", std::string((const char *)hs.data(), hs.size() * 8));
}

// Per-case CPU-time watchdog for the properties that state termination (C04, C08): process CPU time (ITIMER_VIRTUAL), not
// wall clock, so machine load cannot trip it.  On expiry the case is saved as crash.case and the process exits 96.
inline int &case_cpu_limit() { static int v = 0; return v; }
inline void vtalrm_cb(int) {
  State &s = st();
  if (!s.outdir.empty()) write_file(s.outdir + "/fail.msg", "candidate hang: the case used more than the CPU-time bound");
  death_cb();
  const char m[] = "pbt: case exceeded its CPU-time bound (candidate hang)\n";
  (void)!write(2, m, sizeof m - 1);
  _exit(96);
}
inline void arm(int sec) {
  struct itimerval it; memset(&it, 0, sizeof it); it.it_value.tv_sec = sec;
  setitimer(ITIMER_VIRTUAL, &it, nullptr);
}
inline Verdict guarded_run_inproc(const Prop &p, const CaseText &t);
// --fork: every case runs in a forked child and a crash of the child (sanitizer abort, signal, watchdog) is an ordinary
// failing verdict, so that rapidcheck can shrink it.  The driver re-runs a campaign that died with a crash.case in this
// mode with the same seed: the same cases are generated, the crashing one is reached again and minimised.
inline bool &fork_mode() { static bool v = false; return v; }
inline Verdict forked_run(const Prop &p, const CaseText &t) {
  int fd[2];
  if (pipe(fd) != 0) return guarded_run_inproc(p, t);
  fflush(stdout); fflush(stderr);
  pid_t pid = fork();
  if (pid < 0) { close(fd[0]); close(fd[1]); return guarded_run_inproc(p, t); }
  if (pid == 0) {
    close(fd[0]);
    st().outdir.clear();                                    // the child never writes crash.case / stats
    int dn = open("/dev/null", O_WRONLY); if (dn >= 0) { dup2(dn, 2); close(dn); }   // sanitizer reports of shrink candidates are noise
    Verdict v = guarded_run_inproc(p, t);
    std::string o = std::string(v.ok ? "1" : "0") + "\n" + (v.nontrivial ? "1" : "0") + "\n" + std::to_string(v.evals) + "\n" + (v.vacuous ? "1" : "0") + "\n" + v.excluded + "\n" + std::to_string(v.labels.size()) + "\n";
    for (auto &l : v.labels) o += l + "\n";
    o += v.msg;
    size_t off = 0; while (off < o.size()) { ssize_t w = write(fd[1], o.data() + off, o.size() - off); if (w <= 0) break; off += (size_t)w; }
    _exit(0);
  }
  close(fd[1]);
  std::string in; char buf[4096]; ssize_t r;
  while ((r = read(fd[0], buf, sizeof buf)) > 0) in.append(buf, (size_t)r);
  close(fd[0]);
  int stt = 0; waitpid(pid, &stt, 0);
  if (!(WIFEXITED(stt) && WEXITSTATUS(stt) == 0)) {
    char m[160]; snprintf(m, sizeof m, "the case killed the process (%s %d): sanitizer report, fatal signal or CPU-time bound - replay the case to see it", WIFSIGNALED(stt) ? "signal" : "exit status", WIFSIGNALED(stt) ? WTERMSIG(stt) : WEXITSTATUS(stt));
    return Verdict::fail(m);
  }
  Verdict v; std::vector<std::string> ln; size_t pos = 0;
  for (int i = 0; i < 6; i++) { size_t e = in.find('\n', pos); if (e == std::string::npos) return Verdict::fail("harness: malformed verdict from the forked case"); ln.push_back(in.substr(pos, e - pos)); pos = e + 1; }
  v.ok = ln[0] == "1"; v.nontrivial = ln[1] == "1"; v.evals = std::stol(ln[2]); v.vacuous = ln[3] == "1"; v.excluded = ln[4];
  long nl = std::stol(ln[5]);
  for (long i = 0; i < nl; i++) { size_t e = in.find('\n', pos); if (e == std::string::npos) break; v.labels.push_back(in.substr(pos, e - pos)); pos = e + 1; }
  v.msg = in.substr(pos);
  return v;
}
inline Verdict guarded_run(const Prop &p, const CaseText &t) { return fork_mode() ? forked_run(p, t) : guarded_run_inproc(p, t); }
inline Verdict guarded_run_inproc(const Prop &p, const CaseText &t) {
  int lim = case_cpu_limit();
  if (lim > 0) { signal(SIGVTALRM, vtalrm_cb); arm(lim); }
  try {
    Verdict v = p.run(t);
    if (lim > 0) arm(0);
    return v;
  } catch (const std::exception &e) {
    if (lim > 0) arm(0);
    return Verdict::fail(std::string("harness exception: ") + e.what());
  }
}

inline int main_(int argc, char **argv) {
  std::string mode, out, only, replay;
  uint64_t seed = 1;
  long cases = 100;
  int size = 100, enum_level = 0;
  double budget = 1e18;
  for (int i = 1; i < argc; i++) {
    std::string a = argv[i];
    auto nxt = [&]() -> std::string { if (i + 1 >= argc) { fprintf(stderr, "missing arg\n"); exit(2); } return argv[++i]; };
    if (a == "--run") mode = "run";
    else if (a == "--list") mode = "list";
    else if (a == "--replay") { mode = "replay"; replay = nxt(); }
    else if (a == "--out") out = nxt();
    else if (a == "--seed") seed = std::stoull(nxt());
    else if (a == "--cases") cases = std::stol(nxt());
    else if (a == "--size") size = std::stoi(nxt());
    else if (a == "--only") only = nxt();
    else if (a == "--enum") enum_level = std::stoi(nxt());
    else if (a == "--budget") budget = std::stod(nxt());
    else if (a == "--fork") fork_mode() = true;
    else if (a == "--sample") { mode = "sample"; cases = std::stol(nxt()); }
    else { fprintf(stderr, "unknown arg %s\n", a.c_str()); return 2; }
  }
  auto &reg = registry();
  if (mode == "list") { for (auto &p : reg) printf("%s\n", p.name.c_str()); return 0; }
  if (mode == "sample") {   // generator self-test: draw values outside rc::check, where a GenerationFailure (e.g. an invalid range) is not silently discarded
    for (auto &p : reg) {
      if (!p.gen || (!only.empty() && p.name != only)) continue;
      rc::Random rnd(seed);
      auto g = p.gen();
      for (long i = 0; i < cases; i++) { rc::Random r = rnd.split(); (void)g(r, (int)(i % (size + 1))).value(); }
      printf("sampled %ld cases of %s\n", cases, p.name.c_str());
    }
    return 0;
  }
  State &s = st();
  install_death();
  if (mode == "replay") {
    std::ifstream f(replay, std::ios::binary);
    if (!f) { fprintf(stderr, "cannot read %s\n", replay.c_str()); return 2; }
    std::stringstream ss; ss << f.rdbuf();
    CaseText t = CaseText::parse(ss.str());
    std::string pn = t.get("prop");
    for (auto &p : reg) if (p.name == pn) {
      s.outdir = out; s.cur = t.dump();
      Verdict v = guarded_run(p, t);
      if (v.ok) { printf("REPLAY ok%s%s\n", v.vacuous ? " (vacuous)" : "", v.excluded.empty() ? "" : " (excluded)"); return 0; }
      printf("REPLAY FAIL %s\n", v.msg.c_str());
      return 1;
    }
    fprintf(stderr, "unknown prop %s\n", pn.c_str());
    return 2;
  }
  if (mode != "run" || out.empty()) { fprintf(stderr, "usage: --run --out DIR ...\n"); return 2; }
  s.outdir = out;
  double wsum = 0;
  for (auto &p : reg) if ((only.empty() || p.name == only) && p.gen) wsum += p.weight;
  auto t0 = std::chrono::steady_clock::now();
  auto elapsed = [&]() { return std::chrono::duration<double>(std::chrono::steady_clock::now() - t0).count(); };
  int rc_exit = 0;
  for (auto &p : reg) {
    if (!only.empty() && p.name != only) continue;
    // --- bounded-exhaustive scope first
    if (enum_level > 0 && p.enumerate) {
      bool ok = true;
      std::string failmsg;
      p.enumerate(enum_level, [&](const CaseText &body) {
        CaseText t; t.put("prop", p.name); t.kv.insert(t.kv.end(), body.kv.begin(), body.kv.end());
        s.cur = t.dump();
        Verdict v = guarded_run(p, t);
        record(p, s.cur, v);
        if (!v.ok) { ok = false; s.failed = true; write_file(out + "/fail.case", s.cur); write_file(out + "/fail.msg", v.msg); return false; }
        return true;
      });
      if (!ok) { rc_exit = 1; break; }
      s.enum_scopes.push_back(p.name + ":level" + std::to_string(enum_level));
    }
    if (!p.gen || cases <= 0) continue;
    long n = std::max<long>(1, (long)(cases * p.weight / wsum));
    rc::detail::TestParams params;
    params.seed = seed * 1000003ULL + fnv1a(p.name) % 1000;
    params.maxSuccess = (int)n;
    params.maxSize = size;
    params.maxDiscardRatio = 10;
    rc::detail::TestMetadata md;
    md.id = p.name; md.description = p.name;
    long shrink_tries = 0;
    double tshrink0 = 0;
    auto gen = p.gen();
    auto result = rc::detail::checkTestable([&]() {
      if (!s.failed && elapsed() > budget) { s.budget_exhausted = true; return; }
      if (s.failed) {
        // shrink budget: rapidcheck would go on enumerating (and materialising) shrink candidates of a large case for a long
        // time even if each is answered "passes"; the best case found so far is on disk, so finish here
        if (++shrink_tries > 3000 || elapsed() - tshrink0 > 120) {
          std::ifstream f(out + "/fail.msg"); std::stringstream ss; ss << f.rdbuf();
          fprintf(stderr, "FALSIFIED %s: %s\n(shrinking stopped at its budget after %ld candidates)\n", p.name.c_str(), ss.str().c_str(), shrink_tries);
          fflush(stderr);
          _exit(1);
        }
      }
      CaseText t = *gen;
      std::string txt = t.dump();
      s.cur = txt;
      Verdict v = guarded_run(p, t);
      if (!s.failed) record(p, txt, v);
      if (!v.ok) {
        if (!s.failed) { s.failed = true; tshrink0 = elapsed(); write_stats(); }
        write_file(out + "/fail.case", txt);
        write_file(out + "/fail.msg", v.msg);
        RC_FAIL(v.msg);
      }
    }, md, params);
    if (s.failed) {
      std::ifstream f(out + "/fail.msg");
      std::stringstream ss; ss << f.rdbuf();
      fprintf(stderr, "FALSIFIED %s: %s\n", p.name.c_str(), ss.str().c_str());
      rc_exit = 1;
      break;
    }
    if (!result.template is<rc::detail::SuccessResult>()) {
      std::ostringstream os; rc::detail::printResultMessage(result, os);
      fprintf(stderr, "rapidcheck did not succeed for %s: %s\n", p.name.c_str(), os.str().c_str());
      write_file(out + "/harness_error", os.str());
      rc_exit = 4;
      break;
    }
  }
  s.cur.clear();
  write_stats();
  return rc_exit;
}

// ---------------------------------------------------------- generator helpers
// inRange collapses at small sizes; this one ignores the size parameter.
template <class T> rc::Gen<T> range(T lo, T hi_incl) {
  return rc::gen::resize(1000, rc::gen::inRange<T>(lo, (T)(hi_incl + 1)));
}
inline rc::Gen<int> irange(int lo, int hi_incl) { return rc::gen::resize(1000, rc::gen::inRange<int>(lo, hi_incl + 1)); }
inline rc::Gen<uint64_t> bits64() {
  return rc::gen::map(rc::gen::resize(1000, rc::gen::container<std::vector<uint8_t>>(8, rc::gen::arbitrary<uint8_t>())),
                      [](const std::vector<uint8_t> &b) { uint64_t v = 0; for (int i = 0; i < 8; i++) v |= (uint64_t)b[i] << (8 * i); return v; });
}

}  // namespace pbt
