// Consumption scripts over carquet's reader API, shared by C02 (model-based histories),
// C03 (I/O-mode differential) and C07 (thread-count differential).
#pragma once
#include "harness/common/reading.hpp"
#include <functional>
#include "ref/parquet_writer.hpp"

namespace cs {
using pbt::Bytes;

// column-reader history ops: kind 0 read(k) with levels, 1 read(k) without levels, 2 skip(k), 3 has_next, 4 remaining, 5 recreate
struct Op { int kind = 0; int k = 0; };
inline void putOps(pbt::CaseText &t, const std::string &key, const std::vector<Op> &ops) { std::vector<int> f; for (auto &o : ops) { f.push_back(o.kind); f.push_back(o.k); } t.put_ints(key, f); }
inline std::vector<Op> getOps(const pbt::CaseText &t, const std::string &key) { auto f = t.get_ints<int>(key); std::vector<Op> o; for (size_t i = 0; i + 1 < f.size(); i += 2) o.push_back(Op{f[i], f[i + 1]}); return o; }

// The logical content of a chunk as the reference writer stored it
struct Model { std::vector<int16_t> def, rep; std::vector<Bytes> values; std::vector<size_t> vstart; size_t n = 0; int max_def = 0, max_rep = 0; };
inline Model modelOf(const pw::Leaf &lf, const pw::ChunkSpec &c) {
  Model m; m.n = c.n; m.max_def = lf.max_def; m.max_rep = lf.max_rep; m.values = c.values;
  size_t v = 0;
  for (size_t i = 0; i < c.n; i++) { int d = lf.max_def ? c.def[i] : 0; m.def.push_back((int16_t)d); m.rep.push_back(lf.max_rep ? c.rep[i] : 0); m.vstart.push_back(v); if (d == lf.max_def) v++; }
  m.vstart.push_back(v);
  return m;
}

// transcript of a column-reader history (used for differential comparison)
inline std::string colHistory(carquet_reader_t *r, int rg, int col, int true_max_def, const std::vector<Op> &ops) {
  std::string out;
  rd::ColInfo ci;
  if (!rd::colInfo(r, col, ci) || ci.slot == 0) return "no-col-info\n";
  carquet_error_t e = CARQUET_ERROR_INIT;
  carquet_column_reader_t *cr = carquet_reader_get_column(r, rg, col, &e);
  if (!cr) return "get_column failed code=" + std::to_string((int)e.code) + "\n";
  for (auto &op : ops) {
    char b[128];
    if (op.kind == 0 || op.kind == 1) {
      rd::Content c; std::string err;
      int64_t n = rd::readCall(cr, ci, op.k, op.kind == 0, true_max_def, c, err);
      snprintf(b, sizeof b, "read(%d,%s)=%lld", op.k, op.kind == 0 ? "levels" : "nolevels", (long long)n); out += b;
      if (n >= 0) { if (op.kind == 0) { out += " def="; for (auto d : c.def) out += std::to_string(d) + ","; out += " rep="; for (auto d : c.rep) out += std::to_string(d) + ","; }
        if (op.kind == 0 || true_max_def == 0) { out += " vals="; for (auto &v : c.values) out += pbt::hex(v) + ","; } }
      out += "\n";
      if (n < 0) break;
    } else if (op.kind == 2) {
      // the way a caller writes a cursor loop: query, advance, query again in one stretch of code (if the header's
      // attributes let the compiler merge the two queries, the second one is stale)
      int64_t before = carquet_column_remaining(cr); bool more0 = carquet_column_has_next(cr);
      int64_t sk = carquet_column_skip(cr, op.k);
      int64_t after = carquet_column_remaining(cr); bool more1 = carquet_column_has_next(cr);
      snprintf(b, sizeof b, "skip(%d)=%lld remaining %lld->%lld has_next %d->%d\n", op.k, (long long)sk, (long long)before, (long long)after, (int)more0, (int)more1); out += b;
    }
    else if (op.kind == 3) { snprintf(b, sizeof b, "has_next=%d\n", (int)carquet_column_has_next(cr)); out += b; }
    else if (op.kind == 4) { snprintf(b, sizeof b, "remaining=%lld\n", (long long)carquet_column_remaining(cr)); out += b; }
    else { carquet_column_reader_free(cr); cr = carquet_reader_get_column(r, rg, col, &e); out += cr ? "recreate\n" : "recreate failed\n"; if (!cr) break; }
  }
  carquet_column_reader_free(cr);
  return out;
}

// ------------------------------------------------------------------ batch reader
struct BatchCfg { int batch_size = 1024; int threads = 1; std::vector<int> proj; bool by_name = false; };
struct ColBatch { int64_t n = 0; Bytes bitmap; std::vector<Bytes> slots; };   // slots: the first n value slots as raw bytes (byte arrays resolved)
struct BatchOut { carquet_status_t status = CARQUET_OK; int64_t rows = 0; std::vector<ColBatch> cols; };
struct BatchRun { bool created = false; int create_code = 0; std::vector<BatchOut> batches; carquet_status_t end_status = CARQUET_OK; std::vector<carquet_row_batch_t *> kept; carquet_batch_reader_t *br = nullptr; };

// nnOf(column position, rows, bitmap) -> number of leading value slots that are meaningful (dense non-null values);
// default: rows whose bitmap bit is clear (carquet sets the bit for NULL rows)
typedef std::function<int64_t(int, int64_t, const uint8_t *)> NnFn;
inline void captureBatch(carquet_reader_t *r, const std::vector<int> &proj_cols, carquet_row_batch_t *b, BatchOut &o, const NnFn &nnOf = NnFn()) {
  o.rows = carquet_row_batch_num_rows(b);
  int32_t nc = carquet_row_batch_num_columns(b);
  for (int32_t c = 0; c < nc; c++) {
    ColBatch cb;
    const void *data = nullptr; const uint8_t *bm = nullptr; int64_t n = 0;
    carquet_status_t s = carquet_row_batch_column(b, c, &data, &bm, &n);
    if (s != CARQUET_OK) { cb.n = -1; o.cols.push_back(cb); continue; }
    cb.n = n;
    if (bm && n > 0) cb.bitmap.assign(bm, bm + (n + 7) / 8);
    rd::ColInfo ci;
    if (c < (int32_t)proj_cols.size() && rd::colInfo(r, proj_cols[(size_t)c], ci) && ci.slot && data) {
      // number of meaningful slots: rows whose bitmap bit says "not null" under carquet's convention (bit set = null)
      int64_t nn = 0;
      if (nnOf) nn = std::min<int64_t>(n, std::max<int64_t>(0, nnOf((int)c, n, bm)));
      else for (int64_t i = 0; i < n; i++) { bool bit = bm && (bm[i / 8] >> (i % 8) & 1); if (!bit) nn++; }
      for (int64_t i = 0; i < nn; i++) {
        if (ci.type == CARQUET_PHYSICAL_BYTE_ARRAY) { carquet_byte_array_t ba = ((const carquet_byte_array_t *)data)[i]; if (ba.length < 0) { cb.slots.push_back(Bytes{0xBA, 0xD0}); continue; } cb.slots.emplace_back(ba.data, ba.data + ba.length); }
        else cb.slots.emplace_back((const uint8_t *)data + (size_t)i * ci.slot, (const uint8_t *)data + (size_t)(i + 1) * ci.slot);
      }
    }
    o.cols.push_back(cb);
  }
}
// runs the batch reader to the end; keep_batches: do not free the row batches (zero-copy lifetime test)
inline BatchRun runBatches(carquet_reader_t *r, const BatchCfg &cfg, bool keep_batches, int max_batches = 100000, const NnFn &nnOf = NnFn()) {
  BatchRun run;
  carquet_batch_reader_config_t c;
  carquet_batch_reader_config_init(&c);
  c.batch_size = cfg.batch_size; c.num_threads = cfg.threads;
  std::vector<int32_t> idx(cfg.proj.begin(), cfg.proj.end());
  std::vector<std::string> names; std::vector<const char *> namep;
  std::vector<int> cols = cfg.proj;
  if (cols.empty()) for (int i = 0; i < carquet_reader_num_columns(r); i++) cols.push_back(i);
  if (!cfg.proj.empty()) {
    if (cfg.by_name) { for (int p : cfg.proj) { rd::ColInfo ci; rd::colInfo(r, p, ci); names.push_back(ci.name); } for (auto &s : names) namep.push_back(s.c_str()); c.column_names = namep.data(); c.num_column_names = (int32_t)namep.size(); }
    else { c.column_indices = idx.data(); c.num_columns = (int32_t)idx.size(); }
  }
  carquet_error_t e = CARQUET_ERROR_INIT;
  run.br = carquet_batch_reader_create(r, &c, &e);
  if (!run.br) { run.create_code = (int)e.code; return run; }
  run.created = true;
  for (int i = 0; i < max_batches; i++) {
    carquet_row_batch_t *b = nullptr;
    carquet_status_t s = carquet_batch_reader_next(run.br, &b);
    if (s != CARQUET_OK || !b) { run.end_status = s; if (b) carquet_row_batch_free(b); break; }
    BatchOut o; o.status = s;
    captureBatch(r, cols, b, o, nnOf);
    run.batches.push_back(o);
    if (keep_batches) run.kept.push_back(b); else carquet_row_batch_free(b);
  }
  if (!keep_batches) { carquet_batch_reader_free(run.br); run.br = nullptr; }
  return run;
}
inline std::string transcript(const BatchRun &run) {
  std::string o;
  if (!run.created) return "create failed code=" + std::to_string(run.create_code) + "\n";
  for (auto &b : run.batches) {
    o += "batch rows=" + std::to_string(b.rows) + "\n";
    for (auto &c : b.cols) { o += " col n=" + std::to_string(c.n) + " bitmap=" + pbt::hex(c.bitmap) + " vals="; for (auto &v : c.slots) o += pbt::hex(v) + ","; o += "\n"; }
  }
  o += "end status=" + std::to_string((int)run.end_status) + "\n";
  return o;
}

}  // namespace cs
