// C08: one executable contract for every decoding entry point below the file layer.
// A Call names a decoder, its declared arguments and the input bytes; exec() places input and output in separate
// exact-size heap blocks (ASan sees a one-byte overrun in either direction), calls the decoder, and checks what the
// property states: a success reports sizes within the declared capacity / input length, returned pointers lie inside
// the input or the caller's work buffer, a failure reports a non-OK status, and the number of live heap bytes after
// the call (all handles released) equals the number before it.  Used by the libFuzzer target (byte format below) and
// by the rapidcheck mutation engine.
#pragma once
#include <algorithm>
#include <string>
#include <vector>
#include <cstdarg>
#include <cstdint>
#include <cstdio>
#include <cstring>
#include "harness/common/carquet_internal.hpp"

extern "C" size_t __sanitizer_get_current_allocated_bytes();

namespace dc {
using Bytes = std::vector<uint8_t>;

enum Fam { THRIFT = 0, RLE, PLAIN, DELTA, BSS, DICT, CODEC, BITS, NFAM };
inline const char *famName(int f) { static const char *n[] = {"thrift", "rle", "plain", "delta", "bss", "dict", "codec", "bits"}; return f >= 0 && f < NFAM ? n[f] : "?"; }
inline int nsub(int f) { static const int n[] = {2, 4, 9, 4, 3, 4, 5, 1}; return n[f]; }
inline const char *subName(int f, int s) {
  static const char *t[] = {"file_metadata", "page_header"};
  static const char *r[] = {"decode_all", "decode_levels", "decode_levels_prefixed", "streaming"};
  static const char *p[] = {"boolean", "int32", "int64", "int96", "float", "double", "byte_array", "fixed", "generic"};
  static const char *d[] = {"delta_int32", "delta_int64", "delta_length", "delta_strings"};
  static const char *b[] = {"bss_float", "bss_double", "bss_generic"};
  static const char *k[] = {"dict_int32", "dict_int64", "dict_float", "dict_double"};
  static const char *c[] = {"snappy", "lz4", "gzip", "zstd", "snappy_length"};
  static const char *i[] = {"bit_reader"};
  const char **tab[] = {t, r, p, d, b, k, c, i};
  return tab[f][s];
}

struct Call {
  int fam = 0, sub = 0;
  int bw = 0;        // bit width 0..255 (rle, streaming); physical type selector for plain/generic
  int64_t n = 0;     // requested count = declared output capacity in elements (codec: capacity in bytes); may be negative
  int64_t m = 0;     // second size: dict_count (dict), work buffer size (delta_strings)
  int tl = 0;        // type length (plain fixed, bss generic, plain generic)
  Bytes in;          // primary input (declared length = in.size())
  Bytes in2;         // dictionary bytes (dict) / op script (streaming, bits)
};

struct Out {
  bool ok = true;          // contract held
  char msg[400] = {0};
  bool success = false;    // decoder reported success
  int64_t produced = 0;    // elements / bytes produced on success
  int64_t consumed = -1;
};
inline void fail(Out &o, const char *fmt, ...) {
  if (!o.ok) return;
  o.ok = false;
  va_list ap; va_start(ap, fmt); vsnprintf(o.msg, sizeof o.msg, fmt, ap); va_end(ap);
}

static volatile uint64_t g_sink;
inline void touch(const uint8_t *p, size_t n) { uint64_t s = 0; for (size_t i = 0; i < n; i++) s += p[i]; g_sink += s; }
inline bool inside(const uint8_t *p, size_t len, const uint8_t *base, size_t n) { return p >= base && p <= base + n && len <= (size_t)(base + n - p); }

// output capacity actually allocated for a declared count (negative and zero counts get a zero-size block)
inline size_t elems(int64_t n) { return n > 0 ? (size_t)n : 0; }

inline void walkStats(const parquet_statistics_t &s, Out &o) {
  const uint8_t *p[4] = {s.max_deprecated, s.min_deprecated, s.max_value, s.min_value};
  int32_t l[4] = {s.max_deprecated_len, s.min_deprecated_len, s.max_value_len, s.min_value_len};
  for (int i = 0; i < 4; i++) if (p[i]) { if (l[i] < 0) fail(o, "statistics binary with negative length %d and a non-NULL pointer", l[i]); else touch(p[i], (size_t)l[i]); }
}
inline void walkStr(const char *s) { if (s) g_sink += strlen(s); }
inline void walkFile(const parquet_file_metadata_t &f, Out &o) {
  if (f.num_schema_elements < 0 || f.num_row_groups < 0 || f.num_key_value < 0) { fail(o, "negative element count in parsed metadata"); return; }
  if (f.num_schema_elements > 0 && !f.schema) { fail(o, "schema count %d with NULL array", f.num_schema_elements); return; }
  for (int i = 0; i < f.num_schema_elements; i++) { walkStr(f.schema[i].name); g_sink += (uint64_t)f.schema[i].num_children + (uint64_t)f.schema[i].type_length; }
  if (f.num_row_groups > 0 && !f.row_groups) { fail(o, "row group count %d with NULL array", f.num_row_groups); return; }
  for (int g = 0; g < f.num_row_groups; g++) {
    const parquet_row_group_t &rg = f.row_groups[g];
    if (rg.num_columns < 0 || (rg.num_columns > 0 && !rg.columns)) { fail(o, "row group %d: column count %d, array %p", g, rg.num_columns, (void *)rg.columns); return; }
    for (int c = 0; c < rg.num_columns; c++) {
      const parquet_column_chunk_t &cc = rg.columns[c];
      walkStr(cc.file_path);
      if (!cc.has_metadata) continue;
      const parquet_column_metadata_t &m = cc.metadata;
      if (m.num_encodings < 0 || m.path_len < 0 || m.num_key_value < 0 || m.num_encoding_stats < 0) { fail(o, "negative list count in column metadata"); return; }
      if (m.encodings) for (int i = 0; i < m.num_encodings; i++) g_sink += (uint64_t)m.encodings[i];
      if (m.path_in_schema) for (int i = 0; i < m.path_len; i++) walkStr(m.path_in_schema[i]);
      if (m.key_value_metadata) for (int i = 0; i < m.num_key_value; i++) { walkStr(m.key_value_metadata[i].key); walkStr(m.key_value_metadata[i].value); }
      if (m.encoding_stats) for (int i = 0; i < m.num_encoding_stats; i++) g_sink += (uint64_t)m.encoding_stats[i].count;
      if (m.has_statistics) walkStats(m.statistics, o);
    }
  }
  if (f.key_value_metadata) for (int i = 0; i < f.num_key_value; i++) { walkStr(f.key_value_metadata[i].key); walkStr(f.key_value_metadata[i].value); }
  walkStr(f.created_by);
}
inline void checkErr(const carquet_error_t &e, carquet_status_t st, Out &o) {
  if (st == CARQUET_OK) return;
  if (e.code == CARQUET_OK) fail(o, "status %d returned but the error struct still says OK", (int)st);
  if (!memchr(e.message, 0, sizeof e.message)) fail(o, "error message is not NUL-terminated");
}

inline void execThrift(const Call &c, Out &o) {
  Exact in(c.in);
  carquet_error_t e = CARQUET_ERROR_INIT;
  if (c.sub == 0) {
    carquet_arena_t ar;
    if (carquet_arena_init(&ar) != CARQUET_OK) return;
    parquet_file_metadata_t pf; memset(&pf, 0, sizeof pf);
    carquet_status_t st = parquet_parse_file_metadata(in.p, in.n, &ar, &pf, &e);
    checkErr(e, st, o);
    if (st == CARQUET_OK) { o.success = true; walkFile(pf, o); o.produced = pf.num_schema_elements + pf.num_row_groups; }
    parquet_file_metadata_free(&pf);
    carquet_arena_destroy(&ar);
  } else {
    parquet_page_header_t ph; memset(&ph, 0, sizeof ph); size_t br = 0;
    carquet_status_t st = parquet_parse_page_header(in.p, in.n, &ph, &br, &e);
    checkErr(e, st, o);
    if (st == CARQUET_OK) { o.success = true; o.produced = 1; o.consumed = (int64_t)br; if (br > in.n) fail(o, "page header parse reports %zu bytes read from a %zu-byte input", br, in.n); }
  }
}

inline void execRle(const Call &c, Out &o) {
  Exact in(c.in);
  size_t cap = elems(c.n);
  if (c.sub == 0) {
    Exact out(cap * 4);
    int64_t r = carquet_rle_decode_all(in.p, in.n, c.bw, out.as<uint32_t>(), c.n);
    if (r >= 0) { o.success = true; o.produced = r; if (r > (int64_t)cap) fail(o, "decode_all returned %lld values for max_values %lld", (long long)r, (long long)c.n); }
  } else if (c.sub == 1) {
    Exact out(cap * 2);
    int64_t r = carquet_rle_decode_levels(in.p, in.n, c.bw, out.as<int16_t>(), c.n);
    if (r >= 0) { o.success = true; o.produced = r; if (r > (int64_t)cap) fail(o, "decode_levels returned %lld values for max_values %lld", (long long)r, (long long)c.n); }
  } else if (c.sub == 2) {
    Exact out(cap * 2);
    size_t used = 0;
    int64_t r = carquet_rle_decode_levels_prefixed(in.p, in.n, c.bw, out.as<int16_t>(), c.n, &used);
    if (r >= 0) { o.success = true; o.produced = r; o.consumed = (int64_t)used; if (r > (int64_t)cap) fail(o, "decode_levels_prefixed returned %lld values for max_values %lld", (long long)r, (long long)c.n); if (used > in.n) fail(o, "decode_levels_prefixed consumed %zu of %zu input bytes", used, in.n); }
  } else {
    carquet_rle_decoder_t d;
    carquet_rle_decoder_init(&d, in.p, in.n, c.bw);
    int64_t total = 0;
    // op script: pairs (op, arg): 0 get, 1 get_batch(arg), 2 skip(arg), 3 has_next, 4 get_batch(arg*64), 5 skip(arg * 1000)
    for (size_t i = 0; i + 1 < c.in2.size() && i < 128; i += 2) {
      int op = c.in2[i] % 6; int64_t a = c.in2[i + 1];
      if (op == 0) { g_sink += carquet_rle_decoder_get(&d); total++; }
      else if (op == 1 || op == 4) { int64_t k = op == 1 ? a : a * 64; Exact out((size_t)k * 4); int64_t r = carquet_rle_decoder_get_batch(&d, out.as<uint32_t>(), k); if (r < 0 || r > k) fail(o, "get_batch(%lld) returned %lld", (long long)k, (long long)r); else total += r; }
      else if (op == 2 || op == 5) { int64_t k = op == 2 ? a : a * 1000; int64_t r = carquet_rle_decoder_skip(&d, k); if (r < 0 || r > k) fail(o, "skip(%lld) returned %lld", (long long)k, (long long)r); else total += r; }
      else g_sink += carquet_rle_decoder_has_next(&d);
    }
    o.success = true; o.produced = total;
  }
}

inline void checkByteArrays(const carquet_byte_array_t *v, int64_t n, const Exact &in, const Exact *work, Out &o, const char *what) {
  for (int64_t i = 0; i < n; i++) {
    if (v[i].length == 0) continue;
    bool okp = inside(v[i].data, v[i].length, in.p, in.n) || (work && inside(v[i].data, v[i].length, work->p, work->n));
    if (!okp) { fail(o, "%s: value %lld (length %u) points outside the input and the work buffer", what, (long long)i, v[i].length); return; }
    touch(v[i].data, v[i].length);
  }
}

inline void execPlain(const Call &c, Out &o) {
  Exact in(c.in);
  size_t cap = elems(c.n);
  int64_t r = -1; size_t w = 0;
  switch (c.sub) {
    case 0: { Exact out(cap); r = carquet_decode_plain_boolean(in.p, in.n, out.p, c.n); break; }
    case 1: { Exact out(cap * 4); r = carquet_decode_plain_int32(in.p, in.n, out.as<int32_t>(), c.n); w = 4; break; }
    case 2: { Exact out(cap * 8); r = carquet_decode_plain_int64(in.p, in.n, out.as<int64_t>(), c.n); w = 8; break; }
    case 3: { Exact out(cap * 12); r = carquet_decode_plain_int96(in.p, in.n, out.as<carquet_int96_t>(), c.n); w = 12; break; }
    case 4: { Exact out(cap * 4); r = carquet_decode_plain_float(in.p, in.n, out.as<float>(), c.n); w = 4; break; }
    case 5: { Exact out(cap * 8); r = carquet_decode_plain_double(in.p, in.n, out.as<double>(), c.n); w = 8; break; }
    case 6: { Exact out(cap * sizeof(carquet_byte_array_t)); r = carquet_decode_plain_byte_array(in.p, in.n, out.as<carquet_byte_array_t>(), c.n); if (r >= 0) checkByteArrays(out.as<carquet_byte_array_t>(), (int64_t)cap, in, nullptr, o, "plain byte_array"); break; }
    case 7: { int fl = c.tl; if (fl < 0) fl = 0; Exact out(cap * (size_t)fl); r = carquet_decode_plain_fixed_byte_array(in.p, in.n, out.p, c.n, fl); break; }
    default: {
      int ty = c.bw % 10;   // 0..7 defined physical types, 8 and 9 undefined
      int fl = c.tl < 0 ? 0 : c.tl;
      size_t es = ty == 0 ? 1 : ty == 1 ? 4 : ty == 2 ? 8 : ty == 3 ? 12 : ty == 4 ? 4 : ty == 5 ? 8 : ty == 6 ? sizeof(carquet_byte_array_t) : ty == 7 ? (size_t)fl : 16;
      Exact out(cap * es);
      r = carquet_decode_plain(in.p, in.n, (carquet_physical_type_t)ty, fl, out.p, c.n);
      if (r >= 0 && ty == 6) checkByteArrays(out.as<carquet_byte_array_t>(), (int64_t)cap, in, nullptr, o, "plain generic byte_array");
    }
  }
  (void)w;
  if (r >= 0) { o.success = true; o.produced = (int64_t)cap; o.consumed = r; if ((uint64_t)r > in.n) fail(o, "%s reports %lld bytes consumed from a %zu-byte input", subName(PLAIN, c.sub), (long long)r, in.n); }
}

inline void execDelta(const Call &c, Out &o) {
  Exact in(c.in);
  int32_t n = (int32_t)c.n;
  size_t cap = elems(n);
  size_t used = 0; carquet_status_t st;
  if (c.sub == 0) { Exact out(cap * 4); st = carquet_delta_decode_int32(in.p, in.n, out.as<int32_t>(), n, &used); }
  else if (c.sub == 1) { Exact out(cap * 8); st = carquet_delta_decode_int64(in.p, in.n, out.as<int64_t>(), n, &used); }
  else if (c.sub == 2) { Exact out(cap * sizeof(carquet_byte_array_t)); st = carquet_delta_length_decode(in.p, in.n, out.as<carquet_byte_array_t>(), n, &used); if (st == CARQUET_OK) checkByteArrays(out.as<carquet_byte_array_t>(), (int64_t)cap, in, nullptr, o, "delta_length"); }
  else { Exact out(cap * sizeof(carquet_byte_array_t)); Exact work(elems(c.m)); st = carquet_delta_strings_decode(in.p, in.n, out.as<carquet_byte_array_t>(), n, work.p, work.n, &used); if (st == CARQUET_OK) checkByteArrays(out.as<carquet_byte_array_t>(), (int64_t)cap, in, &work, o, "delta_strings"); }
  if (st == CARQUET_OK) { o.success = true; o.produced = (int64_t)cap; o.consumed = (int64_t)used; if (used > in.n) fail(o, "%s consumed %zu of %zu input bytes", subName(DELTA, c.sub), used, in.n); }
}

inline void execBss(const Call &c, Out &o) {
  Exact in(c.in);
  size_t cap = elems(c.n);
  carquet_status_t st;
  if (c.sub == 0) { Exact out(cap * 4); st = carquet_byte_stream_split_decode_float(in.p, in.n, out.as<float>(), c.n); }
  else if (c.sub == 1) { Exact out(cap * 8); st = carquet_byte_stream_split_decode_double(in.p, in.n, out.as<double>(), c.n); }
  else { int tl = c.tl; Exact out(cap * (size_t)(tl > 0 ? tl : 0)); st = carquet_byte_stream_split_decode(in.p, in.n, tl, out.p, c.n); }
  if (st == CARQUET_OK) { o.success = true; o.produced = (int64_t)cap; }
}

inline void execDict(const Call &c, Out &o) {
  Exact dict(c.in2), idx(c.in);
  size_t cap = elems(c.n);
  int32_t dc_ = (int32_t)c.m;
  carquet_status_t st;
  if (c.sub == 0) { Exact out(cap * 4); st = carquet_dictionary_decode_int32(dict.p, dict.n, dc_, idx.p, idx.n, out.as<int32_t>(), c.n); }
  else if (c.sub == 1) { Exact out(cap * 8); st = carquet_dictionary_decode_int64(dict.p, dict.n, dc_, idx.p, idx.n, out.as<int64_t>(), c.n); }
  else if (c.sub == 2) { Exact out(cap * 4); st = carquet_dictionary_decode_float(dict.p, dict.n, dc_, idx.p, idx.n, out.as<float>(), c.n); }
  else { Exact out(cap * 8); st = carquet_dictionary_decode_double(dict.p, dict.n, dc_, idx.p, idx.n, out.as<double>(), c.n); }
  if (st == CARQUET_OK) { o.success = true; o.produced = (int64_t)cap; }
}

inline void execCodec(const Call &c, Out &o) {
  Exact in(c.in);
  size_t cap = elems(c.n);
  size_t got = 0; int st;
  if (c.sub == 4) { size_t len = 0; st = carquet_snappy_get_uncompressed_length(in.p, in.n, &len); if (st == CARQUET_OK) { o.success = true; o.produced = 1; } return; }
  Exact out(cap);
  if (c.sub == 0) st = carquet_snappy_decompress(in.p, in.n, out.p, cap, &got);
  else if (c.sub == 1) st = carquet_lz4_decompress(in.p, in.n, out.p, cap, &got);
  else if (c.sub == 2) st = carquet_gzip_decompress(in.p, in.n, out.p, cap, &got);
  else st = carquet_zstd_decompress(in.p, in.n, out.p, cap, &got);
  if (st == CARQUET_OK) { o.success = true; o.produced = (int64_t)got; if (got > cap) fail(o, "%s decompress reports %zu bytes for a %zu-byte destination", subName(CODEC, c.sub), got, cap); }
}

inline void execBits(const Call &c, Out &o) {
  Exact in(c.in);
  carquet_bit_reader_t r;
  carquet_bit_reader_init(&r, in.p, in.n);
  int64_t total = 0;
  for (size_t i = 0; i + 1 < c.in2.size() && i < 256; i += 2) {
    int op = c.in2[i] % 5, a = c.in2[i + 1];
    if (op == 0) { g_sink += (uint64_t)carquet_bit_reader_read_bit(&r); total++; }
    else if (op == 1) { g_sink += carquet_bit_reader_read_bits(&r, a % 33); total += a % 33; }
    else if (op == 2) { g_sink += carquet_bit_reader_read_bits64(&r, a % 65); total += a % 65; }
    else if (op == 3) g_sink += carquet_bit_reader_has_more(&r);
    else g_sink += carquet_bit_reader_remaining_bits(&r);   // value not asserted: the property states no contract for it
  }
  o.success = true; o.produced = total;
}

inline void dispatch(const Call &c, Out &o) {
  switch (c.fam) {
    case THRIFT: execThrift(c, o); break;
    case RLE: execRle(c, o); break;
    case PLAIN: execPlain(c, o); break;
    case DELTA: execDelta(c, o); break;
    case BSS: execBss(c, o); break;
    case DICT: execDict(c, o); break;
    case CODEC: execCodec(c, o); break;
    default: execBits(c, o); break;
  }
}

// One warm-up call per codec so that lazily created per-thread contexts and tables exist before live bytes are compared.
inline void warmup() {
  static bool done = false; if (done) return; done = true;
  carquet_init();
  Call c; c.fam = CODEC; c.n = 16; c.in = {0, 1, 2, 3};
  for (int s = 0; s < 4; s++) { c.sub = s; Out o; dispatch(c, o); }
  (void)carquet_crc32((const uint8_t *)"x", 1);
}

// the harness never allocates more than 16 MiB for one output block: the declared count is reduced accordingly
inline Call bounded(const Call &c0) {
  Call c = c0;
  size_t es = 16;
  if (c.fam == PLAIN && c.sub >= 7) es = (size_t)std::max(c.tl, 16);
  if (c.fam == BSS && c.sub == 2) es = (size_t)std::max(c.tl, 1);
  if (c.fam == CODEC) es = 1;
  int64_t lim = (int64_t)((16u << 20) / es);
  if (c.n > lim) c.n = lim;
  if (c.m > (16 << 20)) c.m = 16 << 20;
  return c;
}

inline Out exec(const Call &c0) {
  warmup();
  Call c = bounded(c0);
  // Heap balance: a decoder that leaks does so on every execution of the same call, while the process-wide counter can
  // also move once because of another thread (libFuzzer's RSS watcher starting late on a loaded machine was observed to
  // change it by a few hundred bytes in either direction).  Fewer live bytes than before cannot be a leak; more live bytes
  // count only when three executions in a row each leave more behind.
  Out o;
  size_t grew = 0, last = 0;
  for (int attempt = 0; attempt < 3; attempt++) {
    o = Out();
    size_t before = __sanitizer_get_current_allocated_bytes();
    dispatch(c, o);
    size_t after = __sanitizer_get_current_allocated_bytes();
    if (after <= before) break;
    grew++; last = after - before;
  }
  if (grew == 3) fail(o, "%s/%s: %zu heap bytes are live after the call that were not before it, on each of three executions (status %s)", famName(c.fam), subName(c.fam, c.sub), last, o.success ? "success" : "failure");
  return o;
}

// ---------------------------------------------------------------------------------- byte format of the fuzz target
// input = body || trailer.  trailer (15 bytes): sub, flags (bit0: negative count, bit1: negative m), bw, n (u24 LE), m (u24 LE),
// tl (u16 LE), split (u16 LE: the first `split` body bytes are in2), n_mode, family.  n_mode: 0..239 -> n modulo 8192;
// 240..255 -> n modulo 2^21.
static const size_t TRAILER = 15;
inline bool fromBytes(const uint8_t *d, size_t size, Call &c) {
  if (size < TRAILER) return false;
  const uint8_t *t = d + size - TRAILER;
  size_t body = size - TRAILER;
  int fam = t[14] % NFAM;
  c.fam = fam; c.sub = t[0] % nsub(fam); c.bw = t[2];
  int64_t n = t[3] | (t[4] << 8) | (t[5] << 16), m = t[6] | (t[7] << 8) | (t[8] << 16);
  n = t[13] < 240 ? n % 8192 : n % (1 << 21);
  if (t[1] & 1) n = -n;
  c.n = n; c.m = m % (1 << 20); if (t[1] & 2) c.m = -c.m;
  c.tl = (int)(int16_t)(t[9] | (t[10] << 8));
  size_t split = (size_t)(t[11] | (t[12] << 8)); if (split > body) split = body;
  bool two = fam == DICT || fam == BITS || (fam == RLE && c.sub == 3);
  if (!two) split = 0;
  c.in2.assign(d, d + split); c.in.assign(d + split, d + body);
  return true;
}
inline Bytes toBytes(const Call &c) {
  Bytes b;
  bool two = c.fam == DICT || c.fam == BITS || (c.fam == RLE && c.sub == 3);
  size_t split = two ? std::min<size_t>(c.in2.size(), 65535) : 0;
  b.insert(b.end(), c.in2.begin(), c.in2.begin() + (long)split); b.insert(b.end(), c.in.begin(), c.in.end());
  int64_t n = c.n < 0 ? -c.n : c.n, m = c.m < 0 ? -c.m : c.m;
  uint8_t mode = n < 8192 ? 0 : 255;
  uint8_t t[TRAILER] = {(uint8_t)c.sub, (uint8_t)((c.n < 0 ? 1 : 0) | (c.m < 0 ? 2 : 0)), (uint8_t)c.bw, (uint8_t)n, (uint8_t)(n >> 8), (uint8_t)(n >> 16), (uint8_t)m, (uint8_t)(m >> 8), (uint8_t)(m >> 16),
                        (uint8_t)c.tl, (uint8_t)((uint16_t)c.tl >> 8), (uint8_t)split, (uint8_t)(split >> 8), mode, (uint8_t)c.fam};
  b.insert(b.end(), t, t + TRAILER);
  return b;
}
inline std::string describe(const Call &c) {
  char b[256]; snprintf(b, sizeof b, "%s/%s bw=%d n=%lld m=%lld tl=%d in=%zuB in2=%zuB", famName(c.fam), subName(c.fam, c.sub), c.bw, (long long)c.n, (long long)c.m, c.tl, c.in.size(), c.in2.size());
  return b;
}
}  // namespace dc
