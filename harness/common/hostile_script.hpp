// C04: the script of valid API calls a hostile file is driven through, and its oracle (shared by the rapidcheck engine and the
// libFuzzer target).  Everything a caller following carquet.h could do with a reader: metadata getters, every schema node
// through every accessor, get_column with in-range and out-of-range indices, read_batch / skip / has_next / remaining with
// generated sizes into exact-size heap buffers sized from the schema node, statistics, predicate pushdown, the batch reader.
#pragma once
#include "harness/common/pbt.hpp"
#include "harness/common/consume.hpp"

namespace hs {
using pbt::Bytes; using pbt::Verdict;
// ------------------------------------------------------------------------------------------------ API script
static bool errOk(const carquet_error_t &e, Verdict &vd, const char *what) {
  if (e.code == CARQUET_OK) { vd.ok = false; vd.msg = std::string(what) + " failed but the error struct says CARQUET_OK"; return false; }
  if (!memchr(e.message, 0, sizeof e.message)) { vd.ok = false; vd.msg = std::string(what) + ": error message is not NUL-terminated"; return false; }
  return true;
}
static volatile uint64_t g_sink;
static void touch(const void *p, size_t n) { const uint8_t *b = (const uint8_t *)p; uint64_t s = 0; for (size_t i = 0; i < n; i++) s += b[i]; g_sink += s; }

static void script(const Bytes &bytes, int mode, const std::vector<int> &scv, Verdict &vd, bool &opened, bool &page_reached) {
  auto sc = [&](size_t i) { return scv.empty() ? 0 : scv[i % scv.size()]; };
  bool verify = sc(0) % 5 == 0;
  rd::Opened op(bytes, mode, verify, 1);
  opened = op.r != nullptr;
  if (!op.r) { errOk(op.err, vd, "open"); return; }
  carquet_reader_t *r = op.r;
  int64_t rows = carquet_reader_num_rows(r); int32_t nrg = carquet_reader_num_row_groups(r), ncol = carquet_reader_num_columns(r);
  g_sink += (uint64_t)rows + (uint64_t)carquet_reader_is_mmap(r);
  const carquet_schema_t *s = carquet_reader_schema(r);
  if (s) {
    int32_t ne = carquet_schema_num_elements(s); g_sink += (uint64_t)carquet_schema_num_columns(s);
    for (int32_t i = -1; i <= ne && i < 3000; i++) {
      const carquet_schema_node_t *n = carquet_schema_get_element(s, i);
      if ((i < 0 || i >= ne) && n) { vd.ok = false; vd.msg = "schema_get_element(" + std::to_string(i) + ") out of range returned a node"; return; }
      if (!n) continue;
      const char *nm = carquet_schema_node_name(n); if (nm) { g_sink += strlen(nm); if (carquet_schema_node_is_leaf(n)) g_sink += (uint64_t)carquet_schema_find_column(s, nm); }
      g_sink += (uint64_t)carquet_schema_node_physical_type(n) + (uint64_t)carquet_schema_node_repetition(n) + (uint64_t)carquet_schema_node_max_def_level(n) + (uint64_t)carquet_schema_node_max_rep_level(n) + (uint64_t)carquet_schema_node_type_length(n);
      const carquet_logical_type_t *lt = carquet_schema_node_logical_type(n); if (lt) touch(lt, sizeof *lt);
    }
  }
  // out-of-range indices must be errors
  for (int k = 0; k < 6; k++) {
    int32_t rg = k == 0 ? -1 : k == 1 ? nrg : k == 2 ? INT32_MAX : 0, col = k == 3 ? -1 : k == 4 ? ncol : k == 5 ? INT32_MAX : 0;
    if (k >= 3 && nrg <= 0) continue;
    carquet_error_t e = CARQUET_ERROR_INIT;
    carquet_column_reader_t *cr = carquet_reader_get_column(r, rg, col, &e);
    if (cr) { carquet_column_reader_free(cr); vd.ok = false; vd.msg = "get_column(" + std::to_string(rg) + "," + std::to_string(col) + ") with an out-of-range index returned a reader (" + std::to_string(nrg) + " row groups, " + std::to_string(ncol) + " columns)"; return; }
    if (!errOk(e, vd, "get_column(out of range)")) return;
    carquet_row_group_metadata_t md;
    if (k < 3 && carquet_reader_row_group_metadata(r, rg, &md) == CARQUET_OK) { vd.ok = false; vd.msg = "row_group_metadata(" + std::to_string(rg) + ") out of range succeeded"; return; }
    carquet_column_statistics_t cs_;
    if (carquet_reader_column_statistics(r, rg, col, &cs_) == CARQUET_OK) { vd.ok = false; vd.msg = "column_statistics(" + std::to_string(rg) + "," + std::to_string(col) + ") out of range succeeded"; return; }
  }
  int32_t rgN = std::min<int32_t>(nrg, 4), colN = std::min<int32_t>(ncol, 8);
  for (int32_t g = 0; g < rgN; g++) {
    carquet_row_group_metadata_t md; if (carquet_reader_row_group_metadata(r, g, &md) == CARQUET_OK) g_sink += (uint64_t)md.num_rows;
    for (int32_t col = 0; col < colN; col++) {
      g_sink += (uint64_t)carquet_reader_can_zero_copy(r, g, col);
      carquet_column_statistics_t st_; memset(&st_, 0, sizeof st_);
      if (carquet_reader_column_statistics(r, g, col, &st_) == CARQUET_OK && st_.has_min_max) {
        if (st_.min_value && st_.min_value_size > 0) touch(st_.min_value, (size_t)st_.min_value_size);
        if (st_.max_value && st_.max_value_size > 0) touch(st_.max_value, (size_t)st_.max_value_size);
      }
      rd::ColInfo ci;
      bool haveci = rd::colInfo(r, col, ci);
      // predicate pushdown with a probe sized for the schema type
      if (haveci && ci.slot && ci.slot <= 64) {
        uint8_t probe[64]; memset(probe, (uint8_t)sc(1), sizeof probe);
        const void *pv = probe; int32_t psz = (int32_t)ci.slot; carquet_byte_array_t ba;
        if (ci.type == CARQUET_PHYSICAL_BYTE_ARRAY) { ba.data = probe; ba.length = sc(2) % 9; pv = probe; psz = ba.length; }
        bool mm = false;
        (void)carquet_reader_row_group_matches(r, g, col, (carquet_compare_op_t)(sc(3) % 6), pv, psz, &mm);
        if (g == 0) { int32_t idx[4]; int32_t k = carquet_reader_filter_row_groups(r, col, (carquet_compare_op_t)(sc(4) % 6), pv, psz, idx, 4); if (k > 4) { vd.ok = false; vd.msg = "filter_row_groups returned " + std::to_string(k) + " for max_indices 4"; return; } for (int32_t i = 0; i < k; i++) if (idx[i] < 0 || idx[i] >= nrg) { vd.ok = false; vd.msg = "filter_row_groups returned row group index " + std::to_string(idx[i]); return; } }
      }
      if (!haveci || ci.slot == 0 || ci.slot > (1u << 20)) continue;   // a caller cannot (or would not) size a buffer for this column
      carquet_error_t e = CARQUET_ERROR_INIT;
      carquet_column_reader_t *cr = carquet_reader_get_column(r, g, col, &e);
      if (!cr) { if (!errOk(e, vd, "get_column")) return; continue; }
      int64_t budget = 4000;   // entries read per column at most
      for (int call = 0; call < 40 && budget > 0; call++) {
        int64_t k = 1 + sc(5 + (size_t)call) % (call % 3 == 0 ? 7 : 300);
        g_sink += (uint64_t)carquet_column_has_next(cr) + (uint64_t)carquet_column_remaining(cr);
        if (sc(6 + (size_t)call) % 7 == 0) { int64_t sk = carquet_column_skip(cr, k); if (sk > k) { vd.ok = false; vd.msg = "skip(" + std::to_string(k) + ") returned " + std::to_string(sk); carquet_column_reader_free(cr); return; } if (sk <= 0) break; page_reached = true; continue; }
        rd::Content out; std::string err;
        bool lv = ci.max_def > 0 || ci.max_rep > 0 || sc(7) % 4 != 0;   // without levels a caller cannot tell which slots of a nullable column were filled
        int64_t n = rd::readCall(cr, ci, k, lv, ci.max_def, out, err);
        if (n == -1000 || n == -1001) { vd.ok = false; vd.msg = err; carquet_column_reader_free(cr); return; }
        if (n <= 0) break;
        // levels are decoded from at most 15-bit fields: a negative level cannot come from any file.  With ASan filling fresh
        // heap blocks with 0xBE (malloc_fill_byte, set by the driver) it is the signature of level memory that was never written.
        for (int16_t d : out.def) if (d < 0) { vd.ok = false; vd.msg = "read_batch delivered a negative definition level (0x" + pbt::hex(Bytes{(uint8_t)(d >> 8), (uint8_t)d}) + "): level memory that was never written"; carquet_column_reader_free(cr); return; }
        for (int16_t d : out.rep) if (d < 0) { vd.ok = false; vd.msg = "read_batch delivered a negative repetition level: level memory that was never written"; carquet_column_reader_free(cr); return; }
        page_reached = true; budget -= n;
      }
      carquet_column_reader_free(cr);
    }
  }
  // batch reader, single-threaded
  cs::BatchCfg cfg; cfg.batch_size = 1 + sc(8) % 200; cfg.threads = 1;
  if (sc(9) % 3 == 0 && ncol > 0) { cfg.proj.push_back(sc(10) % std::max(1, (int)ncol)); if (sc(11) % 2) cfg.proj.push_back(0); }
  bool sizable = true;
  { std::vector<int> cols = cfg.proj; if (cols.empty()) for (int i = 0; i < ncol && i < 64; i++) cols.push_back(i); for (int col : cols) { rd::ColInfo ci; if (!rd::colInfo(r, col, ci) || ci.slot > (1u << 20)) sizable = false; } }
  if (sizable && ncol > 0 && ncol <= 64) { cs::BatchRun run = cs::runBatches(r, cfg, false, 60); if (!run.batches.empty()) page_reached = true; }
}

}  // namespace hs
