#!/usr/bin/env python3
"""Content-hashed build cache: carquet variants (from /repo's working tree) and harness binaries.

Everything is keyed by SHA-256 of the bytes that go into it (sources, headers,
flags), never by mtime, so an edited /repo file is always recompiled and an
unchanged one never is.  Output lives under /verif/.build (git-ignored).
"""
import hashlib, os, subprocess, sys, shutil, json, time, fcntl
from concurrent.futures import ThreadPoolExecutor

VERIF = os.path.dirname(os.path.dirname(os.path.abspath(__file__)))
REPO = os.environ.get("VERIF_REPO", "/repo")
BUILD = os.path.join(VERIF, ".build")
GUARD = "CARQUET_VERIF"

SOURCES = """
src/core/arena.c src/core/buffer.c src/core/bitpack.c src/core/endian.c src/core/error.c
src/thrift/thrift_decode.c src/thrift/thrift_encode.c src/thrift/parquet_types.c
src/encoding/plain.c src/encoding/rle.c src/encoding/delta.c src/encoding/delta_length.c
src/encoding/delta_strings.c src/encoding/dictionary.c src/encoding/byte_stream_split.c
src/compression/lz4.c src/compression/snappy.c src/compression/zstd.c src/compression/gzip.c
src/simd/detect.c src/simd/dispatch.c
src/reader/file_reader.c src/reader/row_group_reader.c src/reader/column_reader.c
src/reader/page_reader.c src/reader/batch_reader.c src/reader/statistics.c src/reader/mmap_reader.c
src/writer/file_writer.c src/writer/row_group_writer.c src/writer/column_writer.c src/writer/page_writer.c
src/metadata/schema.c src/metadata/statistics.c src/metadata/bloom_filter.c src/metadata/page_index.c
src/util/crc32.c src/util/xxhash.c
src/simd/x86/sse_ops.c src/simd/x86/avx2_ops.c src/simd/x86/avx512_ops.c
""".split()

PER_FILE = {
    "src/simd/x86/sse_ops.c": ["-msse4.2"],
    "src/simd/x86/avx2_ops.c": ["-mavx2", "-mbmi2"],
    "src/simd/x86/avx512_ops.c": ["-mavx512f", "-mavx512bw", "-mavx512vl"],
}

DEFS = ["-DCARQUET_ARCH_X86", "-DCARQUET_ENABLE_SSE", "-DCARQUET_ENABLE_AVX2",
        "-DCARQUET_ENABLE_AVX512", "-D" + GUARD]

# UBSan: only the memory-safety classes (DESIGN.md 4.3); all are fatal.  pointer-overflow is not in the set: clang 14 folds
# "applying zero offset to null pointer" (NULL + 0, harmless, no access) into it and cannot switch that part off.
UB = "bounds,null,vla-bound,object-size,unreachable,builtin"
SAN = ["-fsanitize=address," + UB, "-fno-sanitize-recover=all", "-fno-omit-frame-pointer"]

VARIANTS = {
    # name: (cc, cxx, cflags, link flags)
    "asan": ("clang", "clang++", ["-O1", "-g"] + SAN, SAN),
    "fuzz": ("clang", "clang++", ["-O1", "-g", "-fsanitize=fuzzer-no-link"] + SAN,
             ["-fsanitize=fuzzer"] + SAN),
    "prod": ("gcc", "g++", ["-O2", "-g", "-DNDEBUG"], []),
    "omp": ("gcc", "g++", ["-O2", "-g", "-DNDEBUG", "-fopenmp"], ["-fopenmp"]),
    "ompasan": ("clang", "clang++", ["-O1", "-g", "-fopenmp"] + SAN, ["-fopenmp"] + SAN),
    # prod with the AVX-512 kernels compiled as -march=native users on VBMI hardware get them (CMake's default flags leave
    # the __AVX512VBMI__ code paths out); see VARIANT_PER_FILE
    "prodvbmi": ("gcc", "g++", ["-O2", "-g", "-DNDEBUG"], []),
}
VARIANT_PER_FILE = {"prodvbmi": {"src/simd/x86/avx512_ops.c": ["-mavx512vbmi", "-mavx512dq", "-mavx512cd"]}}


def sha(*parts):
    h = hashlib.sha256()
    for p in parts:
        if isinstance(p, str):
            p = p.encode()
        h.update(p)
        h.update(b"\0")
    return h.hexdigest()[:20]


def tree_hash(root, subdirs, exts):
    h = hashlib.sha256()
    for sd in subdirs:
        base = os.path.join(root, sd)
        for dp, dn, fn in sorted(os.walk(base)):
            dn.sort()
            for f in sorted(fn):
                if f.endswith(exts):
                    p = os.path.join(dp, f)
                    h.update(os.path.relpath(p, root).encode())
                    with open(p, "rb") as fh:
                        h.update(hashlib.sha256(fh.read()).digest())
    return h.hexdigest()[:20]


def repo_hash():
    return tree_hash(REPO, ["src", "include"], (".c", ".h"))


def repo_header_hash():
    return tree_hash(REPO, ["src", "include"], (".h",))


def verif_header_hash():
    return tree_hash(VERIF, ["ref", "gen", "harness/common"], (".hpp", ".h"))


def run(cmd, **kw):
    r = subprocess.run(cmd, stdout=subprocess.PIPE, stderr=subprocess.STDOUT, text=True, **kw)
    if r.returncode != 0:
        sys.stderr.write("BUILD FAILED: %s\n%s\n" % (" ".join(cmd), r.stdout))
        raise SystemExit(3)
    return r.stdout


class Lock:
    def __init__(self, name):
        os.makedirs(BUILD, exist_ok=True)
        self.path = os.path.join(BUILD, name + ".lock")
    def __enter__(self):
        self.f = open(self.path, "w")
        fcntl.flock(self.f, fcntl.LOCK_EX)
    def __exit__(self, *a):
        fcntl.flock(self.f, fcntl.LOCK_UN)
        self.f.close()


def prune(parent, prefix, keep):
    if not os.path.isdir(parent):
        return
    ents = [e for e in os.listdir(parent) if e.startswith(prefix) and e != keep]
    ents.sort(key=lambda e: os.path.getmtime(os.path.join(parent, e)))
    for e in ents[:-2] if len(ents) > 2 else []:
        p = os.path.join(parent, e)
        if time.time() - os.path.getmtime(p) < 3600:   # may belong to a concurrent run on another tree
            continue
        shutil.rmtree(p, ignore_errors=True) if os.path.isdir(p) else os.unlink(p)


def build_lib(variant):
    """Returns path of libcarquet.a for the variant, built from REPO's current bytes."""
    cc, cxx, cflags, _ = VARIANTS[variant]
    extra_pf = VARIANT_PER_FILE.get(variant, {})
    key = sha(variant, repo_hash(), " ".join(cflags + DEFS), json.dumps(PER_FILE, sort_keys=True), json.dumps(extra_pf, sort_keys=True))
    libdir = os.path.join(BUILD, "lib")
    out = os.path.join(libdir, "%s-%s" % (variant, key))
    ar = os.path.join(out, "libcarquet.a")
    with Lock("lib-" + variant):
        if os.path.exists(ar):
            os.utime(out)
            return ar
        tmp = out + ".tmp%d" % os.getpid()
        shutil.rmtree(tmp, ignore_errors=True)
        os.makedirs(tmp)
        def one(src):
            obj = os.path.join(tmp, src.replace("/", "_")[:-2] + ".o")
            cmd = [cc, "-std=gnu11", "-c", os.path.join(REPO, src), "-o", obj,
                   "-I" + os.path.join(REPO, "include"), "-I" + os.path.join(REPO, "src"),
                   "-w"] + cflags + DEFS + PER_FILE.get(src, []) + extra_pf.get(src, [])
            run(cmd)
            return obj
        with ThreadPoolExecutor(16) as ex:
            objs = list(ex.map(one, SOURCES))
        run(["ar", "rcs", os.path.join(tmp, "libcarquet.a")] + objs)
        for o in objs:
            os.unlink(o)
        shutil.rmtree(out, ignore_errors=True)
        os.rename(tmp, out)
        prune(libdir, variant + "-", os.path.basename(out))
        return ar


def build_harness(name, variant, libs=(), extra=(), lang="c++", src=None, ldflags=()):
    """Compile harness/<name>.cpp against the variant's carquet archive; returns binary path."""
    cc, cxx, cflags, ldflags_v = VARIANTS[variant]
    src = src or os.path.join(VERIF, "harness", name + ".cpp")
    with open(src, "rb") as f:
        srcb = f.read()
    flags = ["-std=gnu++17", "-w"] + ["-gline-tables-only" if f == "-g" and cxx == "clang++" else f for f in cflags if f != "-DNDEBUG"] + list(extra)
    okey = sha(variant, srcb, repo_header_hash(), verif_header_hash(), " ".join(flags))
    objdir = os.path.join(BUILD, "obj")
    os.makedirs(objdir, exist_ok=True)
    obj = os.path.join(objdir, "%s-%s-%s.o" % (name, variant, okey))
    lib = build_lib(variant)
    bkey = sha(okey, os.path.basename(os.path.dirname(lib)), " ".join(libs), " ".join(ldflags))
    bindir = os.path.join(BUILD, "bin")
    os.makedirs(bindir, exist_ok=True)
    binp = os.path.join(bindir, "%s-%s-%s" % (name, variant, bkey))
    with Lock("h-%s-%s" % (name, variant)):
        if os.path.exists(binp):
            os.utime(binp)
            return binp
        if not os.path.exists(obj):
            tmp = obj + ".tmp%d" % os.getpid()
            run([cxx, "-c", src, "-o", tmp, "-I" + os.path.join(REPO, "include"),
                 "-I" + os.path.join(REPO, "src"), "-I" + VERIF, "-D" + GUARD] + flags)
            os.rename(tmp, obj)
            prune(objdir, "%s-%s-" % (name, variant), os.path.basename(obj))
        tmp = binp + ".tmp%d" % os.getpid()
        run([cxx, obj, "-o", tmp] + list(ldflags_v) + list(ldflags) + [lib] + ["-l" + l for l in libs] +
            ["-lz", "-lzstd", "-lpthread", "-lm"])
        os.rename(tmp, binp)
        prune(bindir, "%s-%s-" % (name, variant), os.path.basename(binp))
        return binp


if __name__ == "__main__":
    t = time.time()
    if len(sys.argv) > 1 and sys.argv[1] == "--all":
        sys.path.insert(0, VERIF)
        import check
        check.build_all()
    else:
        for v in sys.argv[1:] or ["asan"]:
            print(build_lib(v))
    print("build ok in %.1fs" % (time.time() - t))
