#!/usr/bin/env python3
"""Regenerates the generated tables of DESIGN.md section 13 (between the BEGIN/END markers) from known_findings.json and seeded/*."""
import json, os, re, sys
VERIF = os.path.dirname(os.path.dirname(os.path.abspath(__file__)))

def findings():
    d = json.load(open(os.path.join(VERIF, "known_findings.json")))
    rows = ["| property | commit | what failed | regression case |", "|---|---|---|---|"]
    for f in sorted(d["findings"], key=lambda f: (f["property"], f["id"])):
        what = re.sub(r"^fixed: property=\S+ \S+ ", "", f["what"]).replace("|", "/")
        rows.append("| %s | %s | %s | `%s` |" % (f["property"], f.get("commit", "open"), what, f["replay"]))
    return "\n".join(rows)

def seeded():
    rows = ["| change | property | what was changed (author's summary) | trigger | result |", "|---|---|---|---|---|"]
    sd = os.path.join(VERIF, "seeded")
    for sid in sorted(os.listdir(sd)):
        m = json.load(open(os.path.join(sd, sid, "meta.json")))
        rp = os.path.join(sd, sid, "result.json")
        r = json.load(open(rp)) if os.path.exists(rp) else {}
        res = "; ".join("%s %s: %s" % (p, v["tier"], "caught" if v["caught"] else "missed") for p, v in r.get("results", {}).items()) or "not run"
        cut = lambda s, n: (s[:n] + "...") if len(s) > n else s
        rows.append("| %s | %s | %s | %s | %s |" % (sid, m.get("property", ""), cut(m.get("summary", ""), 260).replace("|", "/").replace("\n", " "), cut(m.get("trigger", ""), 200).replace("|", "/").replace("\n", " "), res))
    return "\n".join(rows)

def main():
    p = os.path.join(VERIF, "DESIGN.md")
    s = open(p).read()
    for name, fn in (("FINDINGS", findings), ("SEEDED", seeded)):
        a, b = "<!-- BEGIN %s -->" % name, "<!-- END %s -->" % name
        if a in s and b in s:
            s = s[:s.index(a) + len(a)] + "\n" + fn() + "\n" + s[s.index(b):]
    open(p, "w").write(s)

if __name__ == "__main__":
    main()
