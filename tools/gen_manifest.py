#!/usr/bin/env python3
"""Writes MANIFEST.json from props.py (claimed checks) and properties.jsonl (everything else -> not_applicable)."""
import json, os, sys
VERIF = os.path.dirname(os.path.dirname(os.path.abspath(__file__)))
sys.path.insert(0, VERIF)
from props import PROPS, NOT_APPLICABLE, HOOK_COMMITS

ids = [json.loads(l)["id"] for l in open(os.path.join(VERIF, "properties.jsonl")) if l.strip()]
checks = []
for pid in ids:
    if pid not in PROPS:
        continue
    p = PROPS[pid]
    checks.append({
        "property_id": pid,
        "quick_cmd": "python3 check.py %s --tier quick" % pid,
        "thorough_cmd": "python3 check.py %s --tier thorough" % pid,
        "evidence_file": "/verif/evidence/%s.json" % pid,
        "replay_cmd_template": "python3 check.py %s --replay {path}" % pid,
        "engine": ", ".join(sorted({e["harness"] for e in p["engines"]})),
        "level_claimed": {"category": p["level"], "text": p["level_text"], "design_ref": p["design_ref"]},
        "level_note": p["level_note"],
        "technique": p["technique"],
    })
na = []
for pid in ids:
    if pid not in PROPS:
        na.append({"property_id": pid, "reason": NOT_APPLICABLE.get(pid, "check not built yet in this round; no claim is made for it")})
m = {
    "version": 1,
    "setup_cmd": "python3 tools/build.py --all",
    "hooks": {
        "guard": "CARQUET_VERIF",
        "enable": "tools/build.py compiles /repo/src with -DCARQUET_VERIF into static archives under /verif/.build (content-hashed); harnesses link those archives",
        "baseline_off_cmd": "cmake -G Ninja -S /repo -B /repo/_build && cmake --build /repo/_build && ctest --test-dir /repo/_build -j8 --timeout 900",
        "source_commits": HOOK_COMMITS,
        "add_only": True,
    },
    "engines": [
        {"name": "pbt-rapidcheck", "path": "harness/common/pbt.hpp", "serves_properties": [c["property_id"] for c in checks],
         "kind_free_text": "rapidcheck property harnesses (generated cases, shrinking, seeded by VERIF_SEED), bounded-exhaustive enumerators, fault injectors; driver check.py"},
    ],
    "checks": checks,
    "not_applicable": na,
    "notes": "All commands run from /verif; every check rebuilds carquet from /repo's working tree through tools/build.py (content hash of sources+headers+flags). Scratch files live under /dev/shm/verif-<pid> and are removed at exit. See DESIGN.md.",
}
with open(os.path.join(VERIF, "MANIFEST.json"), "w") as f:
    json.dump(m, f, indent=1)
    f.write("\n")
print("MANIFEST.json: %d checks, %d not_applicable" % (len(checks), len(na)))
