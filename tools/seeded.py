#!/usr/bin/env python3
"""Seeded breaking changes (development tool, not part of any registered check).

  seeded.py import <srcdir> <id>     verify a candidate (patch.diff, demo, meta.json in <srcdir>) in a scratch worktree of /repo:
                                     applies, builds, test suite passes, demo differs between the clean and the changed tree;
                                     on success copies it to /verif/seeded/<id>/ with verification.json
  seeded.py run [<id> ...] [-j N]    run the quick check of each seeded change's property against a scratch worktree with the
                                     change applied (VERIF_REPO), evidence redirected (VERIF_OUT); writes seeded/<id>/result.json
  seeded.py table                    print the catch table

Scratch worktrees live under /tmp/seeded-wt and are removed after use.
"""
import json
import os
import shutil
import subprocess
import sys
import time
from concurrent.futures import ThreadPoolExecutor

VERIF = os.path.dirname(os.path.dirname(os.path.abspath(__file__)))
REPO = "/repo"
WT = "/tmp/seeded-wt"


def sh(cmd, cwd=None, env=None, timeout=3600):
    r = subprocess.run(cmd, cwd=cwd, env=env, shell=isinstance(cmd, str), stdout=subprocess.PIPE, stderr=subprocess.STDOUT,
                       text=True, errors="replace", timeout=timeout)
    return r.returncode, r.stdout


def worktree(name):
    d = os.path.join(WT, name)
    if os.path.exists(d):
        sh(["git", "-C", REPO, "worktree", "remove", "--force", d])
        shutil.rmtree(d, ignore_errors=True)
    os.makedirs(WT, exist_ok=True)
    rc, out = sh(["git", "-C", REPO, "worktree", "add", "--detach", d, "HEAD"])
    if rc:
        raise SystemExit(out)
    return d


def drop(d):
    sh(["git", "-C", REPO, "worktree", "remove", "--force", d])
    shutil.rmtree(d, ignore_errors=True)


def build_and_test(d):
    rc, out = sh("cmake -G Ninja -B _build >/dev/null 2>&1 && cmake --build _build 2>&1 | tail -3 && ctest --test-dir _build -j4 2>&1 | tail -5", cwd=d)
    ok = "100% tests passed" in out
    if not ok:   # the suite uses fixed /tmp names; one retry on its own
        rc, out2 = sh("ctest --test-dir _build 2>&1 | tail -5", cwd=d)
        ok = "100% tests passed" in out2
        out += out2
    return ok, out


def demo(src, tree):
    env = dict(os.environ, TREE=tree)
    rc, out = sh(["sh", os.path.join(src, "run_demo.sh")], cwd=src, env=env, timeout=900)
    return rc, out


def cmd_import(src, sid):
    src = os.path.abspath(src)
    d = worktree("imp-" + sid)
    try:
        ok0, t0 = build_and_test(d)
        rc0, out0 = demo(src, d)
        rc, out = sh(["git", "apply", "--3way", os.path.join(src, "patch.diff")], cwd=d)
        if rc:
            rc, out = sh(["git", "apply", os.path.join(src, "patch.diff")], cwd=d)
        if rc:
            print(sid, "PATCH DOES NOT APPLY:", out[-500:])
            return 1
        rc, diff = sh(["git", "diff", "HEAD"], cwd=d)
        ok1, t1 = build_and_test(d)
        rc1, out1 = demo(src, d)
        differs = (rc0 != rc1) or (out0 != out1)
        ver = dict(id=sid, applies=True, suite_passes_clean=ok0, suite_passes_changed=ok1, demo_rc_clean=rc0, demo_rc_changed=rc1,
                   demo_differs=differs, repo_head=sh(["git", "-C", REPO, "rev-parse", "--short", "HEAD"])[1].strip())
        print(json.dumps(ver))
        if not (ok0 and ok1 and differs):
            print(t1[-800:])
            return 1
        dst = os.path.join(VERIF, "seeded", sid)
        shutil.rmtree(dst, ignore_errors=True)
        os.makedirs(dst)
        for f in os.listdir(src):
            if os.path.isfile(os.path.join(src, f)) and os.path.getsize(os.path.join(src, f)) < 300000:
                shutil.copy(os.path.join(src, f), dst)
        with open(os.path.join(dst, "patch.diff"), "w") as f:   # re-based on the current HEAD
            f.write(diff)
        with open(os.path.join(dst, "demo_output_verified.txt"), "w") as f:
            f.write("=== unmodified tree (exit %d)\n%s\n=== changed tree (exit %d)\n%s\n" % (rc0, out0[-6000:], rc1, out1[-6000:]))
        with open(os.path.join(dst, "verification.json"), "w") as f:
            json.dump(ver, f, indent=1)
        return 0
    finally:
        drop(d)


def prop_of(sid):
    m = json.load(open(os.path.join(VERIF, "seeded", sid, "meta.json")))
    return m.get("property", sid.split("-")[0])


def run_one(sid, tier="quick", props=None):
    sd = os.path.join(VERIF, "seeded", sid)
    d = worktree("run-" + sid)
    outd = os.path.join(WT, "out-" + sid)
    shutil.rmtree(outd, ignore_errors=True)
    os.makedirs(outd)
    res = dict(id=sid, results={})
    try:
        rc, out = sh(["git", "apply", os.path.join(sd, "patch.diff")], cwd=d)
        if rc:
            res["error"] = "patch does not apply: " + out[-300:]
            return res
        for pid in (props or [prop_of(sid)]):
            env = dict(os.environ, VERIF_REPO=d, VERIF_OUT=outd, VERIF_SEED=os.environ.get("VERIF_SEED", "1"))
            t = time.time()
            rc, out = sh(["python3", os.path.join(VERIF, "check.py"), pid, "--tier", tier], cwd=VERIF, env=env, timeout=7200)
            viol = [l for l in out.splitlines() if l.startswith("VIOLATION")]
            fl = [l for l in out.splitlines() if l.strip().startswith("failure:")]
            res["results"][pid] = dict(exit=rc, caught=(rc == 1 and bool(viol)), seconds=round(time.time() - t, 1), tier=tier,
                                       failure=(fl[0].strip()[:400] if fl else ""), tail=out[-400:] if rc not in (0, 1) else "")
        return res
    finally:
        drop(d)
        shutil.rmtree(outd, ignore_errors=True)
        with open(os.path.join(sd, "result.json"), "w") as f:
            json.dump(res, f, indent=1)
        print(sid, {k: (v["caught"], v["exit"], v["seconds"]) for k, v in res.get("results", {}).items()}, res.get("error", ""), flush=True)


def main():
    a = sys.argv[1:]
    if a and a[0] == "import":
        return cmd_import(a[1], a[2])
    if a and a[0] == "run":
        j = 3
        tier = "quick"
        ids = []
        it = iter(a[1:])
        for x in it:
            if x == "-j":
                j = int(next(it))
            elif x == "--tier":
                tier = next(it)
            else:
                ids.append(x)
        ids = ids or sorted(os.listdir(os.path.join(VERIF, "seeded")))
        with ThreadPoolExecutor(j) as ex:
            list(ex.map(lambda s: run_one(s, tier), ids))
        return 0
    if a and a[0] == "table":
        for sid in sorted(os.listdir(os.path.join(VERIF, "seeded"))):
            p = os.path.join(VERIF, "seeded", sid, "result.json")
            m = json.load(open(os.path.join(VERIF, "seeded", sid, "meta.json")))
            r = json.load(open(p)) if os.path.exists(p) else {}
            for pid, v in r.get("results", {}).items():
                print("| %s | %s | %s | %s |" % (sid, m.get("summary", "")[:110].replace("|", "/"), pid + " " + v["tier"], "caught" if v["caught"] else "MISSED (exit %s)" % v["exit"]))
        return 0
    print(__doc__)
    return 2


if __name__ == "__main__":
    sys.exit(main())
